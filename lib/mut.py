#!/usr/bin/env python3
"""Sensitivity testing aid: applies a textual mutation to a scratch copy of
/repo (outside /repo and /verif), runs a check against the copy and reports
whether the check noticed.  The copy is removed afterwards.

  lib/mut.py <ID> <file> <old> <new> [--only REGEX] [--tier quick]
  lib/mut.py <ID> --patch some.diff
"""
import argparse, os, shutil, subprocess, sys, tempfile

VERIF = os.path.dirname(os.path.dirname(os.path.abspath(__file__)))


def main():
    ap = argparse.ArgumentParser()
    ap.add_argument("id")
    ap.add_argument("file", nargs="?")
    ap.add_argument("old", nargs="?")
    ap.add_argument("new", nargs="?")
    ap.add_argument("--patch")
    ap.add_argument("--only")
    ap.add_argument("--tier", default="quick")
    ap.add_argument("--count", type=int, default=1, help="replace only the Nth occurrence (1-based); 0 = all")
    a = ap.parse_args()
    tmp = tempfile.mkdtemp(prefix="vmut-")
    dst = os.path.join(tmp, "repo")
    try:
        subprocess.check_call(["rsync", "-a", "--exclude", ".git", "/repo/", dst + "/"])
        if a.patch:
            subprocess.check_call(["git", "apply", "--unsafe-paths", "--directory", dst, os.path.abspath(a.patch)], cwd="/")
        else:
            p = os.path.join(dst, a.file)
            s = open(p).read()
            if a.old not in s:
                print("MUTATION TARGET NOT FOUND in", a.file)
                return 3
            if a.count == 0:
                s2 = s.replace(a.old, a.new)
            else:
                parts = s.split(a.old)
                k = a.count
                s2 = a.old.join(parts[:k]) + a.new + a.old.join(parts[k:])
            open(p, "w").write(s2)
        # an isolated copy of the machinery as well, so that checks running in
        # /verif at the same time are not disturbed (harness/go.mod names the repo path)
        vcopy = os.path.join(tmp, "verif")
        subprocess.check_call(["rsync", "-a", "--exclude", ".git", "--exclude", ".build", "--exclude", "replays", "--exclude", "seeded",
                               "--exclude", "testdata/rapid", VERIF + "/", vcopy + "/"])
        env = dict(os.environ, VERIF_REPO=dst, GOFLAGS="-mod=mod", GOPROXY="off")
        b = subprocess.run(["go", "build", "./..."], cwd=dst, env=env, stdout=subprocess.PIPE, stderr=subprocess.STDOUT, text=True)
        if b.returncode != 0:
            print("MUTANT DOES NOT COMPILE\n" + b.stdout[-2000:])
            return 3
        cmd = [os.path.join(vcopy, "check"), a.id, "--tier", a.tier]
        if a.only:
            cmd += ["--only", a.only]
        r = subprocess.run(cmd, cwd=vcopy, env=env, stdout=subprocess.PIPE, stderr=subprocess.STDOUT, text=True)
        tail = [l for l in r.stdout.splitlines() if "[rapid] draw" not in l]
        print("\n".join(tail[-25:]))
        print("== mutant %s: check exit %d (%s)" % (a.file or a.patch, r.returncode, {0: "MISSED", 1: "KILLED", 2: "inconclusive"}.get(r.returncode, "?")))
        return 0
    finally:
        shutil.rmtree(tmp, ignore_errors=True)


if __name__ == "__main__":
    sys.exit(main())
