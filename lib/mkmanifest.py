#!/usr/bin/env python3
"""Writes MANIFEST.json from lib/props.py (claimed checks) and the fixed list
of property ids; properties without a check are listed under not_applicable."""
import json, os, sys
VERIF = os.path.dirname(os.path.dirname(os.path.abspath(__file__)))
sys.path.insert(0, os.path.join(VERIF, "lib"))
from props import PROPS
ids = [json.loads(l)["id"] for l in open(os.path.join(VERIF, "properties.jsonl"))]
hooks_commits = open(os.path.join(VERIF, "lib", "hook_commits.txt")).read().split()
checks, na = [], []
for pid in ids:
    p = PROPS.get(pid)
    if not p or p.get("disabled"):
        na.append({"property_id": pid, "reason": (p or {}).get("disabled") or "check not built yet in this session (planned in DESIGN.md section 3); nothing is claimed for it"})
        continue
    c = {
        "property_id": pid,
        "quick_cmd": "./check %s --tier quick" % pid,
        "thorough_cmd": "./check %s --tier thorough" % pid,
        "evidence_file": "evidence/%s.json" % pid,
        "replay_cmd_template": "./check %s --replay {path}" % pid,
        "engine": "rapid-harness",
        "level_claimed": {"category": "exploration", "text": p["level_text"], "design_ref": "DESIGN.md section 3, " + pid},
        "level_note": p["level_note"],
        "technique": p["technique"],
    }
    checks.append(c)
m = {
    "version": 1,
    "setup_cmd": "./setup.sh",
    "hooks": {
        "guard": "verif",
        "enable": "go build tag: go test -tags verif (new files */verif_hooks.go with //go:build verif)",
        "baseline_off_cmd": "cd /repo && go test -mod=mod -json -vet=off -count=1 -timeout 25m ./...",
        "source_commits": hooks_commits,
        "add_only": True,
    },
    "engines": [{"name": "rapid-harness", "path": "harness/", "serves_properties": [c["property_id"] for c in checks],
                 "kind_free_text": "Go module replacing github.com/fabiolb/fabio => /repo; pgregory.net/rapid v1.3.0 property tests, stateful t.Repeat machines, race-detector workloads and native go fuzz targets; driver ./check"}],
    "checks": checks,
    "not_applicable": na,
    "notes": "All checks rebuild from /repo's working tree (go test -c with a replace directive). Exit 2 = inconclusive (build failure / deadline), never a violation. known_findings.json lists fixed and known findings.",
}
json.dump(m, open(os.path.join(VERIF, "MANIFEST.json"), "w"), indent=1)
print("claimed:", [c["property_id"] for c in checks]); print("n/a:", [x["property_id"] for x in na])
