#!/usr/bin/env python3
"""Confirms an independently written breaking change and runs checks against it.

  lib/seedcheck.py <seed-name> <PROP> --diff change.diff --demo demo_test.go --demo-dir route --demo-run TestDemo1
                   [--needs "..."] [--checks C03,C06] [--demo-race] [--tier quick]

Steps (all in scratch copies outside /repo and /verif, removed afterwards):
  1. unchanged tree + demo        -> demo must PASS
  2. tree + change: go build      -> must compile
  3. tree + change: go test ./... -> the repository's suite must still pass
     (the three cert tests that need consul/vault binaries and the baseline's
     flaky proxy tests are ignored)
  4. tree + change + demo         -> demo must FAIL
  5. every named check (default: the property's) is run against tree + change
The change is stored under seeded/<seed-name>/ with meta.json only if 1-4 hold.
"""
import argparse, json, os, re, shutil, subprocess, sys, tempfile, time

VERIF = os.path.dirname(os.path.dirname(os.path.abspath(__file__)))
ENV = dict(os.environ, GOFLAGS="-mod=mod", GOPROXY="off")
ALWAYS_FAIL = {"TestConsulSource", "TestVaultSource", "TestVaultPKISource"}
FLAKY = {"TestGracefulShutdown", "TestProxyWSUpstream", "TestTCPDyanmicProxy", "TestTCPProxy", "TestTCPProxyWithProxyProto", "TestTCPProxyWithTLS",
         "TestTCPProxyWithTLSWithProxyProto", "TestTCPSNIProxy", "TestTCPSNIProxyWithProxyProto"}


def run(cmd, cwd, timeout=1500):
    p = subprocess.run(cmd, cwd=cwd, env=ENV, stdout=subprocess.PIPE, stderr=subprocess.STDOUT, text=True, timeout=timeout)
    return p.returncode, p.stdout


def main():
    ap = argparse.ArgumentParser()
    ap.add_argument("name")
    ap.add_argument("prop")
    ap.add_argument("--diff", required=True)
    ap.add_argument("--demo", required=True)
    ap.add_argument("--demo-dir", required=True)
    ap.add_argument("--demo-run", required=True)
    ap.add_argument("--demo-race", action="store_true")
    ap.add_argument("--needs", default="")
    ap.add_argument("--checks")
    ap.add_argument("--tier", default="quick")
    ap.add_argument("--skip-suite", action="store_true")
    a = ap.parse_args()
    checks = (a.checks or a.prop).split(",")
    tmp = tempfile.mkdtemp(prefix="vseed-")
    meta = {"property": a.prop, "name": a.name, "needs": a.needs, "ran": [], "confirmed": False, "checks": {}}
    try:
        base, mutant = os.path.join(tmp, "base"), os.path.join(tmp, "mutant")
        for d in (base, mutant):
            subprocess.check_call(["rsync", "-a", "--exclude", ".git", "/repo/", d + "/"])
        subprocess.check_call(["git", "apply", "--unsafe-paths", "--directory", mutant, os.path.abspath(a.diff)], cwd="/")
        demo_name = "zz_verif_demo_test.go" if a.demo.endswith("_test.go") else os.path.basename(a.demo)
        demo_cmd = ["go", "test", "-vet=off", "-count=1", "-run", a.demo_run] + (["-race"] if a.demo_race else []) + ["./" + a.demo_dir + "/"]
        # 1
        shutil.copy(a.demo, os.path.join(base, a.demo_dir, demo_name))
        rc, out = run(demo_cmd, base)
        meta["ran"].append("unchanged tree: " + " ".join(demo_cmd) + " -> exit %d" % rc)
        if rc != 0:
            print("DEMO FAILS ON THE UNCHANGED TREE\n" + out[-3000:])
            return 1
        # 2
        rc, out = run(["go", "build", "./..."], mutant)
        meta["ran"].append("changed tree: go build ./... -> exit %d" % rc)
        if rc != 0:
            print("CHANGE DOES NOT COMPILE\n" + out[-3000:])
            return 1
        # 3
        if not a.skip_suite:
            rc, out = run(["go", "test", "-vet=off", "-count=1", "./..."], mutant)
            failed = set(re.findall(r"^--- FAIL: (\S+)", out, re.M))
            bad = {f for f in failed if f.split("/")[0] not in ALWAYS_FAIL | FLAKY}
            if bad or "[build failed]" in out:
                # flaky ones get a second chance
                rc, out = run(["go", "test", "-vet=off", "-count=1", "./..."], mutant)
                failed = set(re.findall(r"^--- FAIL: (\S+)", out, re.M))
                bad = {f for f in failed if f.split("/")[0] not in ALWAYS_FAIL | FLAKY}
            meta["ran"].append("changed tree: go test -vet=off -count=1 ./... -> failing tests %s" % sorted(failed))
            if bad or "[build failed]" in out:
                print("CHANGE BREAKS THE EXISTING SUITE: %s\n%s" % (sorted(bad), out[-3000:]))
                return 1
        # 4
        shutil.copy(a.demo, os.path.join(mutant, a.demo_dir, demo_name))
        rc, out = run(demo_cmd, mutant)
        meta["ran"].append("changed tree: " + " ".join(demo_cmd) + " -> exit %d" % rc)
        if rc == 0:
            print("DEMO PASSES WITH THE CHANGE APPLIED")
            return 1
        os.remove(os.path.join(mutant, a.demo_dir, demo_name))
        meta["confirmed"] = True
        print("confirmed: compiles, suite passes, demo fails with / passes without the change")
        # 5
        vcopy = os.path.join(tmp, "verif")
        subprocess.check_call(["rsync", "-a", "--exclude", ".git", "--exclude", ".build", "--exclude", "replays", "--exclude", "seeded",
                               "--exclude", "testdata/rapid", VERIF + "/", vcopy + "/"])
        env = dict(ENV, VERIF_REPO=mutant)
        for c in checks:
            t0 = time.time()
            r = subprocess.run([os.path.join(vcopy, "check"), c, "--tier", a.tier], cwd=vcopy, env=env, stdout=subprocess.PIPE, stderr=subprocess.STDOUT, text=True)
            lines = [l for l in r.stdout.splitlines() if "[rapid] draw" not in l]
            verdict = {0: "MISSED", 1: "CAUGHT", 2: "inconclusive"}.get(r.returncode, "?")
            first = next((l.strip() for l in lines if "[rapid] failed" in l or "DATA RACE" in l or l.strip().startswith("c") and "_test.go" in l), "")
            meta["checks"][c] = {"tier": a.tier, "exit": r.returncode, "verdict": verdict, "wall_s": round(time.time() - t0, 1), "first_report": first[:400]}
            print("check %s (%s): %s  %s" % (c, a.tier, verdict, first[:300]))
            meta["ran"].append("./check %s --tier %s against the changed tree -> exit %d" % (c, a.tier, r.returncode))
        # store
        dst = os.path.join(VERIF, "seeded", a.name)
        os.makedirs(dst, exist_ok=True)
        def cp(src, to):
            if os.path.abspath(src) != os.path.abspath(to):
                shutil.copy(src, to)
        cp(a.diff, os.path.join(dst, "patch.diff"))
        cp(a.demo, os.path.join(dst, "demo_" + os.path.basename(a.demo) if not os.path.basename(a.demo).startswith("demo") else os.path.basename(a.demo)))
        meta["demo"] = {"place_in": a.demo_dir, "run": " ".join(demo_cmd)}
        old = {}
        mp = os.path.join(dst, "meta.json")
        if os.path.exists(mp):
            old = json.load(open(mp))
            for k, v in old.get("checks", {}).items():
                meta["checks"].setdefault(k, v)
            meta["history"] = old.get("history", []) + [{"at": old.get("at"), "checks": old.get("checks")}]
        meta["suite_checked"] = bool(old.get("suite_checked")) or not a.skip_suite
        meta["at"] = time.strftime("%Y-%m-%d %H:%M:%S")
        json.dump(meta, open(mp, "w"), indent=1)
        return 0
    finally:
        shutil.rmtree(tmp, ignore_errors=True)


if __name__ == "__main__":
    sys.exit(main())
