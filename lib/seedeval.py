#!/usr/bin/env python3
"""Evaluates the two changes of one round-2 seed directory: lib/seedeval.py <ID> [outdir] [suffix-start]"""
import os, re, subprocess, sys
VERIF = os.path.dirname(os.path.dirname(os.path.abspath(__file__)))
pid = sys.argv[1]
out = sys.argv[2] if len(sys.argv) > 2 else "/tmp/seedout2"
start = int(sys.argv[3]) if len(sys.argv) > 3 else 3
d = os.path.join(out, pid)
notes = open(os.path.join(d, "NOTES.md")).read()
cmds = re.findall(r"go test[^\n`]*?-run[ =]+'?\"?([^\s'\"`]+)'?\"?[^\n`]*?\s(\./?[\w/\.]*|\.)\s*(?:`|$|\n)", notes)
cmds2 = re.findall(r"go test[^\n`]*?\s(\./[\w/]+/?|\.)\s[^\n`]*?-run[ =]+'?\"?([^\s'\"`]+)", notes)
for n in (1, 2):
    diff = os.path.join(d, "change%d.diff" % n)
    demos = [f for f in os.listdir(d) if f.startswith("demo%d" % n)]
    if not os.path.exists(diff) or not demos:
        print(pid, n, "missing deliverable"); continue
    demo = os.path.join(d, demos[0])
    src = open(demo).read()
    pkg = re.search(r"^package (\w+)", src, re.M).group(1)
    tests = re.findall(r"^func (Test\w+)\(", src, re.M)
    runre = "^(" + "|".join(tests) + ")$"
    # directory: from the notes (the command that mentions one of the tests or demoN), else by package name
    ddir = None
    for run, dr in cmds:
        if any(t.startswith(run.strip("^$()").split("|")[0][:8]) for t in tests) or ("emo%d" % n) in run or ("hange%d" % n) in run:
            ddir = dr
    for dr, run in cmds2:
        if ddir is None and (any(t.startswith(run.strip("^$()").split("|")[0][:8]) for t in tests) or ("emo%d" % n) in run):
            ddir = dr
    if ddir is None:
        ddir = {"main": ".", "route": "route", "proxy": "proxy", "tcp": "proxy/tcp", "consul": "registry/consul", "config": "config", "cert": "cert", "logger": "logger",
                "gzip": "proxy/gzip", "auth": "auth", "custom": "registry/custom", "transport": "transport", "noroute": "noroute", "uuid": "uuid", "exit": "exit"}.get(pkg, pkg)
    ddir = ddir.strip("./") or "."
    # the guess is checked against the unchanged tree: the demo must pass where it is placed;
    # otherwise every directory of /repo holding that package name is tried
    def passes(dr):
        import tempfile, shutil
        tmp = tempfile.mkdtemp(prefix="vdir-")
        try:
            subprocess.check_call(["rsync", "-a", "--exclude", ".git", "/repo/", tmp + "/"])
            shutil.copy(demo, os.path.join(tmp, dr, "zz_verif_demo_test.go"))
            env = dict(os.environ, GOFLAGS="-mod=mod", GOPROXY="off")
            r = subprocess.run(["go", "test", "-vet=off", "-count=1", "-run", runre, "./" + dr + "/"], cwd=tmp, env=env, stdout=subprocess.PIPE, stderr=subprocess.STDOUT, text=True)
            return r.returncode == 0 and "no tests to run" not in r.stdout
        except Exception:
            return False
        finally:
            shutil.rmtree(tmp, ignore_errors=True)
    if not passes(ddir):
        cands = []
        for root, dirs, files in os.walk("/repo"):
            if "/.git" in root or "/vendor" in root:
                continue
            for f in files:
                if f.endswith(".go") and not f.endswith("_test.go"):
                    try:
                        head = open(os.path.join(root, f)).read(4000)
                    except Exception:
                        continue
                    mm = re.search(r"^package (\w+)", head, re.M)
                    if mm and (mm.group(1) == pkg or mm.group(1) + "_test" == pkg):
                        cands.append(os.path.relpath(root, "/repo"))
                    break
        for c in sorted(set(cands)):
            if c != ddir and passes(c):
                ddir = c
                break
    # what it needs: the paragraph mentioning trigger/circumstance for this change (best effort, edited by hand later)
    m = re.search(r"(?is)change\s*%d.*?(trigger|circumstance|manifest|only shows|needs)[^\n]*\n?([^\n]*)" % n, notes)
    needs = (m.group(0)[-300:].replace("\n", " ") if m else "see NOTES-from-author.md")
    name = "%s-%d" % (pid, start + n - 1)
    cmd = [os.path.join(VERIF, "lib", "seedcheck.py"), name, pid, "--diff", diff, "--demo", demo, "--demo-dir", ddir, "--demo-run", runre, "--needs", needs]
    if "-race" in notes and pid in ("C06",):
        pass
    r = subprocess.run(cmd, stdout=subprocess.PIPE, stderr=subprocess.STDOUT, text=True).stdout
    lines = [l for l in r.splitlines() if re.match(r"^(confirmed|check|DEMO|CHANGE)", l)]
    print(name, "dir=%s run=%s" % (ddir, runre[:60]), "|", " ; ".join(l[:160] for l in lines), flush=True)
    sd = os.path.join(VERIF, "seeded", name)
    if os.path.isdir(sd):
        import shutil
        shutil.copy(os.path.join(d, "NOTES.md"), os.path.join(sd, "NOTES-from-author.md"))
