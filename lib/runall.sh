#!/bin/bash
# Runs every claimed check (quick tier by default) sequentially and reports exit codes and wall time.
# usage: lib/runall.sh [tier] [seed...]
cd "$(dirname "$0")/.."
tier=${1:-quick}; shift
seeds=${@:-1}
ids=$(python3 -c "import json;print(' '.join(c['property_id'] for c in json.load(open('MANIFEST.json'))['checks']))")
for s in $seeds; do
  for id in $ids; do
    t0=$(date +%s.%N)
    out=$(VERIF_SEED=$s ./check $id --tier $tier 2>&1); rc=$?
    t1=$(date +%s.%N)
    printf "seed=%s %s rc=%d wall=%.1fs %s\n" $s $id $rc $(echo "$t1-$t0"|bc) "$(echo "$out" | grep -c '^VIOLATION') violations"
    if [ $rc -ne 0 ]; then echo "$out" | grep -v 'rapid\] draw' | tail -15; fi
  done
done
