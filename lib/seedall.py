#!/usr/bin/env python3
"""Re-runs every stored seeded change (seeded/*/) against the current checks.
usage: lib/seedall.py [name-prefix]"""
import json, os, subprocess, sys, glob
VERIF = os.path.dirname(os.path.dirname(os.path.abspath(__file__)))
pref = sys.argv[1] if len(sys.argv) > 1 else ""
missed = []
for mp in sorted(glob.glob(os.path.join(VERIF, "seeded", "*", "meta.json"))):
    d = os.path.dirname(mp)
    n = os.path.basename(d)
    if not n.startswith(pref):
        continue
    m = json.load(open(mp))
    if m.get("not_targeted"):
        print(n, "| not targeted:", m["not_targeted"][:100], flush=True)
        continue
    if m.get("superseded"):
        print(n, "| superseded:", m["superseded"][:100], flush=True)
        continue
    demo = [f for f in os.listdir(d) if f.startswith("demo")][0]
    runre = m["demo"]["run"].split("-run ")[1].split()[0]
    checks = ",".join(m["checks"].keys())
    cmd = [os.path.join(VERIF, "lib", "seedcheck.py"), n, m["property"], "--skip-suite", "--diff", os.path.join(d, "patch.diff"), "--demo", os.path.join(d, demo),
           "--demo-dir", m["demo"]["place_in"], "--demo-run", runre, "--needs", m["needs"], "--checks", checks]
    if " -race" in m["demo"]["run"]:
        cmd.append("--demo-race")
    out = subprocess.run(cmd, stdout=subprocess.PIPE, stderr=subprocess.STDOUT, text=True).stdout
    lines = [l for l in out.splitlines() if l.startswith("check") or l.startswith("DEMO") or l.startswith("CHANGE")]
    print(n, "|", " ; ".join(l[:120] for l in lines), flush=True)
    if not any("CAUGHT" in l for l in lines):
        missed.append(n)
print("missed:", missed)
