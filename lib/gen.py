#!/usr/bin/env python3
"""Regenerates the parts of /verif/harness that are derived from /repo's
current working tree: go.mod, go.sum and the package-main copy."""
import os, re, shutil, sys

VERIF = os.path.dirname(os.path.dirname(os.path.abspath(__file__)))
REPO = os.environ.get("VERIF_REPO", "/repo")
HARNESS = os.path.join(VERIF, "harness")

RAPID_SUM = [
    "pgregory.net/rapid v1.3.0 h1:vBvO0VSqti75J1jjYqpgPNBLKMd1+gxa9fYo7vk/Exc=",
    "pgregory.net/rapid v1.3.0/go.mod h1:dPlE4OBBxgXPqkP79flB6sJL1dx5azpI7HQ9MY9Z7uk=",
]


def write_if_changed(path, data):
    try:
        with open(path) as f:
            if f.read() == data:
                return
    except OSError:
        pass
    os.makedirs(os.path.dirname(path), exist_ok=True)
    tmp = path + ".tmp%d" % os.getpid()
    with open(tmp, "w") as f:
        f.write(data)
    os.replace(tmp, path)


def gen():
    with open(os.path.join(REPO, "go.mod")) as f:
        mod = f.read()
    mod = re.sub(r"(?m)^module .*$", "module verifharness", mod, count=1)
    # drop any replace directives of the repo that are relative paths (none today)
    mod += "\nrequire github.com/fabiolb/fabio v0.0.0\n"
    mod += "require pgregory.net/rapid v1.3.0\n"
    mod += "replace github.com/fabiolb/fabio => %s\n" % REPO
    write_if_changed(os.path.join(HARNESS, "go.mod"), mod)

    with open(os.path.join(REPO, "go.sum")) as f:
        gosum = f.read()
    if not gosum.endswith("\n"):
        gosum += "\n"
    have = set(gosum.splitlines())
    for line in RAPID_SUM:
        if line not in have:
            gosum += line + "\n"
    write_if_changed(os.path.join(HARNESS, "go.sum"), gosum)

    # package main copy: main.go + rootwarn_unix.go next to our *_test.go
    mp = os.path.join(HARNESS, "mainpkg")
    os.makedirs(mp, exist_ok=True)
    for name in ("main.go", "rootwarn_unix.go"):
        with open(os.path.join(REPO, name)) as f:
            src = f.read()
        write_if_changed(os.path.join(mp, "zz_repo_" + name), src)


if __name__ == "__main__":
    gen()
