"""Per-property configuration of the driver: which harness packages decide a
property, with which flags, and the evidence rule text."""

COMMON_ASSUME = [
    "Go toolchain, race detector and standard library are correct",
    "pgregory.net/rapid v1.3.0 generates and shrinks as documented",
    "hooks under build tag 'verif' only expose unexported functions/state and do not change behaviour",
]

PROPS = {
    "C18": {
        "units": [
            {"pkg": "./mainpkg", "run": "^TestC18", "shards": 4, "shards_thorough": 8, "timeout": 400},
            {"pkg": "./sysbin", "run": "^TestC18", "shards": 1, "shards_thorough": 2, "timeout": 300},
            {"pkg": "./c18exit", "shards": 1, "shards_thorough": 2, "timeout": 300},
        ],
        "rule": ("rapid-generated shutdown scenarios against the exported listener functions: any non-empty subset of {http, tcp, tcp+sni, grpc, https+tcp+sni} registered through ListenAndServeHTTP/TCP/GRPC/HTTPSTCPSNI "
                 "on free loopback ports (the gRPC one with main.go's newGrpcProxy options), wait W in [200 ms, 1.5 s], 0-3 pieces of in-flight work per listener (HTTP and HTTPS requests, TCP and SNI tunnels incl. SNI "
                 "tunnels on the https+tcp+sni listener, gRPC unary calls and streams) whose upstream takes d in [0, 0.5 W] or [2 W, 4 W] or never finishes, and a shutdown moment drawn relative to the start of the work. "
                 "Oracle: (1) a connect attempted min(W/2, 300 ms) after proxy.Shutdown(W) was called is refused on every listener; (2) every piece of work with d <= 0.5 W completes normally (full HTTP response, "
                 "tunnel reply, OK status); (3) proxy.Shutdown(W) returns within W + 2 s whatever is still open. Non-trivial = mix with >=2 listener kinds and at least one never-ending piece of work. Dynamic form: main.go's startServers with an http and a proto=tcp-dynamic listener (refresh 20-100 ms) and proxy.shutdownwait=W; the tcp route of the dynamic port is removed just before / long before / not at all, "
                 "then proxy.Shutdown(W): the http listener refuses connections at once and Shutdown returns within W. Binary form also: SIGHUP before the SIGTERM (ignored), a second SIGTERM/SIGINT/SIGHUP during the drain, "
                 "a long deregister grace period with a request arriving inside it."),
        "technique": "rapid-generated listener mixes and in-flight workloads on real sockets with one-sided timing bounds",
        "level_text": "Generated mixes of real listeners with real in-flight requests, tunnels and gRPC calls are shut down through the production entry point; completion of short work, refusal of new connections and the bound on shutdown time are asserted with wide slack. Exploration only.",
        "level_note": "Durations are drawn away from the wait (<= 0.5 W or >= 2 W) so that scheduling noise cannot flip a verdict; slack on the bound is 2 s; the signal handler and deregistration in main() are not part of this check.",
        "assumptions": COMMON_ASSUME,
    },
    "C16": {
        "units": [{"pkg": "./mainpkg", "run": "^TestC16", "shards": 4, "shards_thorough": 8, "timeout": 400},
                  {"pkg": "./sysbin", "run": "^TestC16", "shards": 1, "shards_thorough": 2, "timeout": 300}],
        "rule": ("in-process chain gRPC client -> grpc.Server built from main.go's newGrpcProxy options -> 3 scripted grpc-go backends (UnknownServiceHandler; client and backends use a raw-bytes codec). rapid-generated "
                 "tables (host-less and dsthost-specific routes per service, nested method prefixes, 1-2 backends per route, replaced before every group of 1-4 calls) and calls: method path incl. unrouted ones, "
                 "dsthost metadata absent/present/upper-case/unknown/duplicated, 0-6 custom metadata entries incl. repeated keys, empty values and -bin keys, unary / client- / server- / bidi-streaming shapes with "
                 "0-20 messages per direction, each a well-formed protobuf wire message of 0 B-64 KiB (thorough 3 MiB) built from random fields, backend answering after or while receiving, any status code 0-16 with "
                 "message, headers and trailers. Oracle: the backend saw the caller's method, messages (bytes, order, count) and custom metadata; the caller saw the backend's messages, trailers, status code and "
                 "message, and its headers whenever it sent >=1 message; the serving backend belongs to the route the specificity reference selects; unrouted => NotFound and no backend saw a stream. Pool history: N "
                 "sequential calls per backend open <=1 connection; after a backend leaves the table its connection ends within cleanup interval + grpcshutdowntimeout + slack while the other backend keeps its "
                 "connection; re-adding works. First-use history on 4 fresh backends: bursts of 2-24 simultaneous first calls per backend all succeed, 20 later calls open no further connection, a stream opened before "
                 "the route's weight moves entirely to another instance survives the 5 s clean-up cycle (its backend stays in the table at 0%) and keeps its connection, and after the backends leave the table "
                 "no connection to them is left within 11 s. Non-trivial = streaming call with >=2 messages in some direction, non-OK status with trailers, or a call after a table change."),
        "technique": "rapid model-based test of an in-process gRPC proxy chain with scripted backends (byte-exact message, metadata and status comparison) plus a connection-pool history",
        "level_text": "Generated calls and table changes are executed against the real gRPC proxy options of main.go with scripted backends; everything each side received is compared with what the other side sent, and routing is compared with the specificity reference. Exploration only.",
        "level_note": "Messages are well-formed protobuf wire messages (the proxy re-marshals them through emptypb unknown fields); plain-text gRPC only (no grpcs upstreams); the pool check is timing-bounded with 4 s slack.",
        "assumptions": COMMON_ASSUME + ["grpc-go client/server used as scripted endpoints behave per the gRPC specification"],
    },
    "C01": {
        "units": [
            {"pkg": "./c01", "shards": 4, "shards_thorough": 16, "timeout": 300},
            {"pkg": "./mainpkg", "run": "^TestC01", "shards": 4, "shards_thorough": 8, "timeout": 400},
        ],
        "rule": ("Layer A (function, via hook VerifPassingServices = tag-prefix filter + passingServices): rapid-generated check multisets over 1-3 nodes x 0-4 service instances, 0-4 service checks per instance with "
                 "status in {passing, warning, critical, unknown, ''}, serfHealth absent/passing/critical/duplicated, node maintenance, service maintenance, other node-level checks, tagged and untagged instances, the "
                 "same service id on two nodes, every non-empty accepted-status subset, both checksRequired modes, random order of the slice; oracle: reference predicate from the statement, instance set equal in both "
                 "directions. Layer B (pipeline, stateful): a fake Consul HTTP API (agent/self, health/state/any, catalog/service, kv?recurse with blocking queries and X-Consul-Index) drives consul.NewBackend's real "
                 "watchers, whose channels feed the unmodified watchBackend loop of main.go; histories of 5-25 (thorough 100) operations from {register/re-register with 0-3 urlprefix tags and options, deregister, flip "
                 "one check, agent failure/recovery, node maintenance, service maintenance, KV put/delete of manual route add / route del blocks}; one pipeline per process with the health rule varied by shard (one/all, "
                 "accepted lists, blocking and 15 ms polling mode); after every operation the harness waits until both watchers have consumed the registry's current index and compares the set {(service, prefix, target)} "
                 "of route.GetTable() with model = tags of healthy instances + manual adds - manual dels (iff). Non-trivial = >=2 instances with one excluded for a reason other than 'no accepted check' (A); history "
                 "containing a healthy<->unhealthy transition of an instance (B)."),
        "technique": "rapid property test of the health filter against a reference predicate; rapid stateful (model-based) histories through the real watch -> config -> table pipeline with a fake Consul API",
        "level_text": "The health filter is compared with a reference predicate on generated check multisets, and generated registry histories are replayed through the production watchers and update loop against a model of 'healthy and tagged, plus operator commands', compared after every step at quiescence. Exploration only.",
        "level_note": "Every installed table is not intercepted (no hook in the store path): tables are observed at quiescence and by polling. The fake Consul implements only the endpoints fabio calls; Consul's maintenance checks are always 'critical' as the real agent registers them.",
        "assumptions": COMMON_ASSUME + ["the fake Consul API is faithful for the endpoints and fields fabio uses (index semantics, 404 for empty KV lists)"],
    },
    "C14": {
        "units": [
            {"pkg": "./c14", "run": "TestC14Commands", "shards": 4, "shards_thorough": 16, "timeout": 300},
            {"pkg": "./c14", "run": "TestC14ConcurrentBuild", "race": True, "shards": 2, "shards_thorough": 6, "timeout": 300},
            {"pkg": "./mainpkg", "run": "^TestC14", "shards": 4, "shards_thorough": 8, "timeout": 400},
            {"pkg": "./mainpkg", "run": "^TestC14Pipeline", "race": True, "shards": 4, "shards_thorough": 4, "timeout": 400},
            {"pkg": "./c06", "run": "^TestC14", "shards": 2, "shards_thorough": 4, "timeout": 300},
        ],
        "rule": ("rapid-generated Consul catalog entries: service names (plain, dotted, with space/tab/newline, quote, backslash, non-ASCII, empty, keywords), service/node addresses (IPv4, IPv6, host name, empty -> node "
                 "address), ports, 1-3 urlprefix- tags host/path with mixed-case hosts, :port form, $DC/${DC} expansion, glob characters, and 0-3 options from {proto=tcp|https|grpc|grpcs|http|bogus, weight=<float|junk|Inf|"
                 "NaN|1e308|''>, strip=, prepend=, host=, redirect=<code>,<url> (valid, missing url, bad escape), allow=, register=, tokens with quotes/backslashes/non-ASCII}, 0-4 other tags (quotes, backslashes, non-ASCII, "
                 "blanks, control characters, commas, embedded newline + 'route add' text), alone and next to 0-3 plain services. Through the hook VerifRouteCmds: every emitted command must parse with route.Parse to "
                 "exactly one 'route add' that NewTable accepts and whose service, source (lower-cased expanded host + path), destination (scheme by proto, JoinHostPort), weight, tags and options equal one route tag "
                 "of the registration; every expressible tag of an expressible registration must be emitted; NewTable over all services succeeds and contains every neighbour's routes. Pipeline form (fake Consul + real "
                 "loop): histories in which an odd registration (name with space, quote in a tag, weight=abc/Inf, bad redirect URL, bad glob, empty prefix, newline injection) appears and leaves while neighbours keep "
                 "changing: the table keeps following the neighbours after every step. Concurrent form (-race): 8-48 registrations derived by 2-16 workers at once (registry.consul.serviceMonitors > 1) must yield exactly "
                 "the commands each yields alone. Host parts include uncompilable globs ([v2.example.com, {a.example.com). Non-trivial = registration with a character outside [A-Za-z0-9._/:=-,$*] or a non-numeric weight; histories with an odd registration."),
        "technique": "rapid property test: generator/parser round trip across packages (routecmd.build -> route.Parse/NewTable) plus model-based pipeline histories with a fake Consul API",
        "level_text": "Generated registrations are turned into route commands by fabio and fed back to fabio's own parser and table builder; each command must denote the registration. The same odd registrations are injected into live pipeline histories and the table must keep tracking the other services. Exploration only.",
        "level_note": "A comma inside a plain tag splits it (the command language uses the comma as separator) and 'tags \"\"' means no tags; both are taken as the language's denotation, not as violations.",
        "assumptions": COMMON_ASSUME,
    },
    "C11": {
        "units": [
            {"pkg": "./c11", "run": "TestC11Selection|TestC11Handshakes|TestC11SourceHistories|TestC11LoadOnceSource|TestC11FileSource|TestC11VaultPKIRenewal", "shards": 4, "shards_thorough": 8, "timeout": 300},
            {"pkg": "./mainpkg", "run": "^TestC11", "shards": 2, "shards_thorough": 4, "timeout": 300},
            {"pkg": "./c11", "run": "TestC11ConcurrentReplacement", "race": True, "shards": 2, "shards_thorough": 4, "timeout": 300},
        ],
        "rule": ("rapid-generated certificate sets of 1-6 self-signed ECDSA certificates with common names and SAN lists drawn from a small universe with *.x wildcards at two depths and overlapping names, published "
                 "through cert.TLSConfig by a harness Source; requested names exact / wildcard instance / deeper than the wildcard / unrelated / upper and mixed case / one or two trailing dots / empty; strict and "
                 "non-strict listeners; observed through tls.Config.GetCertificate and through real handshakes (tls.Dial against a listener using the config). Oracle: reference selection exact name -> single-label "
                 "wildcard -> first certificate of the set -> none when strict; the presented certificate must be one of the reference's candidates at the best level and belong to the most recently published set. "
                 "Concurrent (-race): 2-16 goroutines resolve names while two sets alternate: every answer is right for set A or for set B. Histories through the real PathSource (temp directory) and HTTPSource (file "
                 "server): good set, then unusable material (broken PEM, truncated certificate, key mismatch, missing key, garbage) for 2.5 s during which the served certificates must not change and the source is "
                 "polled at most elapsed/1s + 2 times, then a new good set which must take effect. Non-trivial = set with >=2 certificates and a name matched at the exact or wildcard level; every history. From-config form (mainpkg): 1-4 https listeners naming the same path certificate source, each with its own strictmatch/tlsmin, parsed by config.Load and turned into TLS configurations by main.go's "
                 "makeTLSConfig; each answers covered / uncovered / absent server names according to its own strictmatch."),
        "technique": "rapid property tests against a reference selection model via GetCertificate and real TLS handshakes; concurrent replacement under the race detector; fault-injection histories through the real sources",
        "level_text": "Generated certificate sets and names are resolved by fabio's store (directly and in real handshakes) and by a reference model; replacement is exercised concurrently under the race detector; histories of good and unusable loads run through the production path and http sources with a poll-rate bound. Exploration only.",
        "level_note": "An emptied certificate directory is treated as a legitimate (empty) set and is not part of the 'unusable material' domain; visibility of a newly published set is waited for (up to 10-15 s) before selection is judged.",
        "assumptions": COMMON_ASSUME,
    },
    "C06": {
        "units": [
            {"pkg": "./c06", "race": True, "shards": 4, "shards_thorough": 8, "timeout": 300},
            {"pkg": "./mainpkg", "run": "^TestC06", "race": True, "shards": 2, "shards_thorough": 4, "timeout": 300},
            {"pkg": "./c12", "run": "^TestC06", "shards": 2, "shards_thorough": 4, "timeout": 300},
        ],
        "parallel": 4,
        "rule": ("rapid-generated concurrent workloads, all under the Go race detector: (a) routes with 2-12 weighted/unweighted targets: L lookups sequentially on one copy of the table and the same L lookups split over "
                 "2-32 goroutines on a twin copy must give identical per-target counts (round robin hands out every slot exactly once); (b) tables with more glob host patterns than the cache size (1-8): every lookup "
                 "gets the sequentially correct route and the cache never holds more than its size (hook VerifLen, sampled and final); (c) HTTPProxy.ServeHTTP with $host$path and strip redirect routes, allow and deny "
                 "routes (per-goroutine peer addresses and X-Forwarded-For) and multi-target routes, optionally while a writer keeps replacing the table: every response (Location, 403/200, upstream) is the sequential "
                 "answer for that goroutine's own request; (d) Table.Lookup's RedirectURL belongs to the calling request. Non-trivial = workload in which requests actually overlapped (in-flight counter > 1) / "
                 ">=2 goroutines on one route. Main-wiring form (mainpkg, -race): 2-16 goroutines send routed and unrouted requests at once to the proxy main.go builds (either strategy, routes with 2-5 targets): each answer comes from the request's own route."),
        "technique": "generated concurrent workloads under the race detector with per-request sequential oracles and a twin-table differential for round robin",
        "level_text": "Many generated multi-goroutine workloads are executed against shared tables, pickers, the glob cache and the HTTP handler; each observation is compared with the sequential answer for the same request and the race detector reports unsynchronised access pairs. Exploration only: schedules are sampled, not enumerated.",
        "level_note": "The Go scheduler is not controlled. A lock-free logic error that involves only atomics is caught only if an executed schedule exposes it to the semantic oracle; data races are caught whenever both accesses execute.",
        "assumptions": COMMON_ASSUME,
    },
    "C19": {
        "units": [
            {"pkg": "./c19", "shards": 2, "shards_thorough": 8, "timeout": 300},
            {"pkg": "./mainpkg", "run": "^TestC19", "shards": 1, "shards_thorough": 2, "timeout": 300},
            {"pkg": "./sysbin", "run": "^TestC19", "shards": 1, "shards_thorough": 2, "timeout": 300},
        ],
        "rule": ("rapid-generated values of the five proxy transport options (dial timeout, response-header timeout, keep-alive, idle-conn timeout, max idle conns per host; each incl. 0) drawn independently. Structural "
                 "oracle for every configuration and the three transport kinds (default, skip-verify, per-route host= override built by route.NewTable, and the transports main.go's newHTTPProxy builds): after "
                 "transport.SetConfig(cfg) the built *http.Transport carries ResponseHeaderTimeout, IdleConnTimeout and MaxIdleConnsPerHost equal to the configuration and a connection obtained through its Dial to a "
                 "loopback listener has SO_KEEPALIVE/TCP_KEEPIDLE matching keepalivetimeout (getsockopt); a dial to a listener with a saturated accept queue gives up after about dialtimeout. Behavioural: through "
                 "HTTPProxy with the built transport an upstream delayed by 2.5-4 x T yields 504 within T + 1.5 s, a prompt upstream yields 200 with its body (504 retried with doubled T before it counts). Thorough: "
                 "the real binary built from /repo with proxy.responseheadertimeout answers 504 for a slow static route. Non-trivial = configuration with >=2 non-zero options; behavioural cases."),
        "technique": "rapid property tests: structural comparison of built transports (incl. getsockopt on dialled sockets) and timed 504 behaviour with one-sided bounds",
        "level_text": "Every generated configuration is applied with the production setter and the transports produced by all three construction paths are inspected field by field and through the kernel's view of a dialled socket; the timeout behaviour is exercised end to end with generous one-sided time bounds. Exploration only.",
        "level_note": "Timing checks avoid the band around the timeout (delay is 0 or >= 2.5 T) and use slack of 1.5-2 s; the dial-timeout sub-check is skipped (not failed) when the kernel does not stall connects to a full accept queue.",
        "assumptions": COMMON_ASSUME + ["Linux getsockopt(TCP_KEEPIDLE) reflects net.Dialer.KeepAlive rounded up to seconds"],
    },
    "C09": {
        "units": [
            {"pkg": "./c09", "shards": 8, "shards_thorough": 16, "timeout": 300},
            {"pkg": "./mainpkg", "run": "^TestC09", "shards": 2, "shards_thorough": 4, "timeout": 300},
        ],
        "rule": ("real loopback sockets: tcp.Server with Proxy / SNIProxy / DynamicProxy handlers and the websocket path of HTTPProxy between a scripted client and a scripted upstream. rapid-generated tunnels: client and "
                 "upstream streams of 0 B-200 KiB (thorough 4 MiB) of random bytes, a segmentation per direction (one write, 1-16 byte writes, sizes around the 32 KiB copy buffer, arbitrary sizes, optional yields), both "
                 "directions running concurrently, close order in {upstream closes after everything arrived, client closes after everything arrived, client sends and closes, upstream sends and closes, client half-closes "
                 "then reads to EOF}, PROXY protocol on/off, on SNI listeners a crypto/tls ClientHello (with/without the 1.2 KiB post-quantum key share) followed by 0-3000 stream bytes in the SAME write. Oracle: upstream "
                 "received exactly [PROXY line computed from the socket addresses] ++ [ClientHello] ++ client stream, client received exactly the upstream stream, SNI lookup key == server name. Non-trivial = either stream "
                 "> 32 KiB, or >=3 segments, or data in the ClientHello's segment, or a half-close. Half-close cases are a recorded known finding: excluded from the main search (counted in excluded_known) and re-confirmed "
                 "by a dedicated sub-check. Long-lived sub-check: batches of 10-16 generated tunnels of every kind run concurrently, each with one direction (or both) going quiet for 1.05-2.5 s "
                 "before a generated segment - longer than the proxies' handshake timers - and then continuing; same byte-exact oracle. Clients also connect over IPv6 (PROXY TCP6 lines). Dynamic form (mainpkg): a tunnel through a listener opened by main.go's tcp-dynamic loop does round trips while 3-10 table changes add unrelated routes (host:port http routes, other tcp ports)."),
        "technique": "rapid property test over real loopback tunnels with scripted endpoints (byte-exact stream comparison in both directions)",
        "level_text": "Generated byte streams, segmentations and close orders are pushed through fabio's TCP, SNI, dynamic and websocket tunnels on real sockets; what each end received is compared byte for byte with what the other end sent. Exploration only.",
        "level_note": "Loopback TCP with the kernel's own segmentation (TCP_NODELAY is Go's default so one write is usually one segment); 'finishes first' cases are generated so that the finishing side has no unread inbound data (otherwise the kernel itself resets the connection).",
        "assumptions": COMMON_ASSUME,
    },
    "C08": {
        "units": [
            {"pkg": "./c08", "shards": 4, "shards_thorough": 16, "timeout": 300},
            {"pkg": "./mainpkg", "run": "^TestC08", "shards": 2, "shards_thorough": 4, "timeout": 300},
        ],
        "rule": ("rapid-generated scenarios: peer address (IPv4, IPv6, 4-in-6, any port), TLS on/off with version/cipher, client Host with and without port incl. IPv6 literals, client header sets with forged or "
                 "chained copies of every managed header (X-Forwarded-For 0-2 lines, -Proto, -Port, -Host, Forwarded with/without proto=, X-Real-Ip, the configured client-IP and TLS headers, repeated), configurations "
                 "ClientIPHeader in {'', custom, X-Real-Ip, X-Forwarded-For}, TLSHeader/Value, LocalIP, STS max-age/subdomains/preload, routes with and without host=/strip=. Driven through HTTPProxy.ServeHTTP with a "
                 "capturing RoundTripper (RemoteAddr and r.TLS generated) and over real plain/TLS sockets incl. 'Upgrade: websocket|Websocket' tunnels to a recording raw upstream. Oracle from the statement: custom "
                 "client-IP header == [peer]; last X-Forwarded-For element == peer; X-Real-Ip == peer unless sent; TLS header == [value] iff TLS; X-Forwarded-Proto/Forwarded generated when absent and naming the real "
                 "scheme and peer, derived from the other when exactly one was sent, never overwritten; X-Forwarded-Port = port of the Host the client asked for else 443/80 by TLS; X-Forwarded-Host = the client's Host "
                 "even under host=; HSTS iff TLS and max-age>0 with the configured directives. Non-trivial = request forges >=1 managed header or the route rewrites Host. Listener form: the same scenarios through fabio's own listeners (proxy.ListenAndServeHTTP with and without TLS, the https side of ListenAndServeHTTPSTCPSNI), each with the PROXY-protocol option "
                 "off and on; with the option on (http/https) the client may announce another peer in a PROXY v1 line, which is then the real peer. Main-wiring form (mainpkg): a plain and a TLS listener built by main.go itself (config.Load -> startServers -> newHTTPProxy) with generated proxy.header.tls/.value, proxy.header.clientip and "
                 "proxy.header.sts.maxage options; clients forge those headers on either listener."),
        "technique": "rapid property tests of the forwarding-header contract with a capturing transport and real plain/TLS/websocket sockets",
        "level_text": "Generated client header sets and connection properties are sent through fabio's HTTP handler and the headers that reach the upstream are checked against the stated contract, directly and over real sockets. Exploration only.",
        "level_note": "When the configured client-IP header is X-Real-Ip or X-Forwarded-For the dedicated rules for those headers apply (the statement's two sentences overlap there). Forwarded is checked for 'for=<peer>' and 'proto=' content, not for RFC 7239 syntax.",
        "assumptions": COMMON_ASSUME,
    },
    "C07": {
        "units": [
            {"pkg": "./c07", "run": "TestC07PassThrough|TestC07NoRoute|TestC07RefusedUpgradeIsRelayed", "shards": 6, "shards_thorough": 16, "timeout": 300},
            {"pkg": "./c07", "run": "TestC07ConcurrentExchanges", "race": True, "shards": 2, "shards_thorough": 6, "timeout": 300},
            {"pkg": "./mainpkg", "run": "^TestC07", "shards": 2, "shards_thorough": 4, "timeout": 300},
        ],
        "rule": ("real loopback chain raw-TCP client -> proxy.HTTPProxy (httptest server, real http.Transport) -> recording upstream. rapid-generated requests: method (GET POST PUT DELETE PATCH OPTIONS HEAD PURGE), "
                 "request target with percent-encoded octets (%2F %2f %20 %41 %C3%A9 %25 %3F %23), dot segments, empty segments, query (absent / encoded / repeated keys), 0-8 end-to-end headers with odd-cased and "
                 "repeated names and empty values, body 0 B-256 KiB (thorough 4 MiB) with Content-Length or chunked in 1-5 chunks; routes over every combination of strip, prepend, host=dst|name|none, target query; "
                 "upstream answers with status 200-599 (incl. 204/304), 0-6 headers incl. repeated Set-Cookie, body in 1-5 flushed writes. Oracle: upstream saw the same method, body bytes and every client end-to-end "
                 "header value list and nothing else (managed forwarding headers excluded), request target == prepend + strip(raw path) [?target query & client query], Host per route option; client saw the upstream's "
                 "status, header value lists and body bytes; no route => configured status (404 outside 100-999) + no-route page, upstream hit counter unchanged. Non-trivial = request with an encoded octet or a body "
                 "AND route with strip, prepend or target query; distinct by (route, method, path, query, body size, chunking, status). Concurrent unit (-race): 2-12 exchanges released together on one proxy, "
                 "1-3 rounds (later rounds meet whatever earlier ones left pooled), request/response bodies 0 B-1 MiB around the 32 KiB copy-buffer size, Content-Length or chunked, 1-6 flushed upstream writes, "
                 "flush interval 0 or 5 ms; every body is derived from the exchange id, each client must receive exactly its own body and the upstream exactly the client's; non-trivial = >=2 overlapping bodies >32 KiB."),
        "technique": "rapid property test over a real loopback proxy chain with a recording upstream (differential between what was sent and what was received on both sides)",
        "level_text": "Every generated exchange is run through a real listener, fabio's HTTP handler, a real transport and a recording upstream; both directions are compared field by field with what the other side sent, with the documented path/query/Host rewriting applied by a string-level model. Exploration only.",
        "level_note": "HTTP/1.1 only; hop-by-hop headers and the forwarding headers of C08 are excluded from the comparison; the Go HTTP stack between the sockets is trusted.",
        "assumptions": COMMON_ASSUME,
    },
    "C17": {
        "units": [
            {"pkg": "./c17", "run": "TestC17Handler|TestC17ThroughProxy", "shards": 4, "shards_thorough": 16, "timeout": 300},
            {"pkg": "./c17", "run": "TestC17Concurrent", "race": True, "shards": 2, "shards_thorough": 4, "timeout": 300},
            {"pkg": "./mainpkg", "run": "^TestC17", "shards": 2, "shards_thorough": 4, "timeout": 300},
        ],
        "rule": ("rapid-generated (response, request) pairs: bodies 0 B-1 MiB (compressible text, random, already-gzipped, repeated byte; sizes around 512/4096/32768), written in 0-8 chunks incl. empty writes, with/without "
                 "explicit WriteHeader, statuses 200-599 and bodiless 204/304, Content-Type matching / not matching / with parameters / absent (sniffed), pre-set Content-Encoding none/gzip/br/identity/deflate, "
                 "Content-Length set or not; requests GET/POST/HEAD with Accept-Encoding absent/gzip/gzip, deflate/deflate/br/identity/empty and Accept incl. text/event-stream. Run against gzip.NewGzipHandler with a "
                 "recorder, against HTTPProxy + real upstream behind a real server with a raw client (same exchange with and without compression configured), and with 2-32 goroutines over the shared writer pool "
                 "under -race. Oracle: compressed only if accepts-gzip and type matches and not pre-encoded; then Content-Encoding gzip, no disagreeing Content-Length, gunzip(body) == inner bytes; otherwise body, "
                 "Content-Encoding, Content-Length, Content-Type identical to the exchange without the gzip handler; status always preserved; documented converse (must compress) for non-empty 2xx-5xx bodies. "
                 "Non-trivial = compressed response with body written in >=2 chunks, or pre-encoded body; distinct by (status, type, encoding, chunk sizes, body hash). Upstreams also send informational responses (103, 103+103, 102) before the final status (through the proxy), flush before anything is written and flush before a generated chunk."),
        "technique": "rapid property tests with gunzip round-trip and with/without-handler differential; concurrent per-goroutine oracle under the race detector",
        "level_text": "Generated responses are pushed through the gzip handler (directly, through the full proxy behind a real server, and concurrently) and checked by decompression round trip and by differential against the same exchange without compression. Exploration only.",
        "level_note": "Accept-Encoding values with q-values and '*' are outside the generated domain (the documentation defines acceptance as 'sets Accept-Encoding: gzip').",
        "assumptions": COMMON_ASSUME + ["compress/gzip of the standard library is the reference decompressor"],
    },
    "C15": {
        "units": [
            {"pkg": "./c15", "shards": 8, "shards_thorough": 16, "timeout": 300},
            {"pkg": "./mainpkg", "run": "^TestC15", "shards": 2, "shards_thorough": 4, "timeout": 300},
            {"pkg": "./sysbin", "run": "^TestC15", "shards": 1, "shards_thorough": 2, "timeout": 300},
        ],
        "fuzz": [{"pkg": "./c15", "target": "FuzzC15Properties", "time": "180s"}, {"pkg": "./c15", "target": "FuzzC15Environ", "time": "180s"}],
        "rule": ("the option list (name, type) is extracted at run time from config/load.go of the tree under test; for EVERY option and EVERY unordered pair of the four sources (command line in -k=v / -k v / --k=v form, "
                 "FABIO_-prefixed variable, plain variable - both in random letter case -, properties file via -cfg with =, :, blank separators and escaped backslashes) rapid draws well-formed values of the option's "
                 "type (bool spellings, ints incl. hex/negative, durations, floats, string/float lists with blanks, free strings with spaces = # ! quotes backslashes non-ASCII, and grammar-based values for proxy.addr, "
                 "ui.addr, proxy.cs, proxy.auth, bgp.peers incl. invalid ones). Oracle: Load(o=v in s1) == Load(o=v in s2) (reflect.DeepEqual, regexps by source, error iff error); precedence: v1 in the higher and v2 in "
                 "the lower source == v1 alone, for every ordered pair, plus random 1-4 source chains; robustness: arbitrary environment blocks (entries without '=', empty names, NUL, invalid UTF-8, junk values for typed "
                 "options) and properties files (self references, bad escapes, junk) give (cfg,nil) or (nil,err), never a panic; accepted configs never carry glob.cache.size <= 0; run-ability: accepted configs are "
                 "handed to main.go's newHTTPProxy/newGrpcProxy and serve requests in-process without panic. Non-trivial = equivalence/precedence case whose value changes the resulting config (differs from the "
                 "default / from the losing value); robustness case with >=2 entries."),
        "technique": "rapid property tests: metamorphic source-equivalence and precedence relations over the extracted option list; robustness generation; native go fuzzing (thorough)",
        "level_text": "Exhaustive over options and source pairs, sampled over values: the same value must load identically from every source and the documented precedence must hold; hostile environments and files must not panic; accepted configurations are run in-process. Exploration only.",
        "level_note": "Command lines are kept well-formed because the flag set is ExitOnError by design; '${' is excluded from file values because the properties format defines expansion there; values have no leading/trailing blanks.",
        "assumptions": COMMON_ASSUME,
    },
    "C13": {
        "units": [
            {"pkg": "./c13", "run": "TestC13Sequential|TestC13SelfRedirect|TestC13FromServiceTags|TestC13FromRoutesFile", "shards": 4, "shards_thorough": 16, "timeout": 300},
            {"pkg": "./c13", "run": "TestC13Concurrent", "race": True, "shards": 2, "shards_thorough": 4, "timeout": 300},
            {"pkg": "./mainpkg", "run": "^TestC13MainWiring|^TestC13KVOutage", "shards": 2, "shards_thorough": 4, "timeout": 300},
            {"pkg": "./mainpkg", "run": "^TestC13Pipeline", "race": True, "shards": 4, "shards_thorough": 4, "timeout": 400},
            {"pkg": "./c02", "run": "^TestC13", "shards": 2, "shards_thorough": 4, "timeout": 300},
        ],
        "rule": ("rapid-generated redirect routes over the documented template forms (https://h$path, https://$host$path, http://h/$path, http://h/bbb$path, http://h/bbb/$path, fixed targets, $host with fixed path; "
                 "with/without own query) under host-less, host-specific, *:80 and *.x routes, codes 300-399, strip/prepend combinations; requests parsed by net/http from raw bytes with percent-encoded octets "
                 "(%2F %2f %20 %41 %C3%A9 %25 ...), queries, hosts with ports. Oracle: string-level model from the statement and docs (Location = template with $host -> request host and $path -> prepend + "
                 "strip(raw request path), request query carried when the target has none; for fixed targets only scheme/host/path asserted), configured status, zero upstream hits; self-redirect (same "
                 "X-Forwarded-Proto scheme, host, path) answered by the next matching host; under -race 2-32 goroutines with distinct paths/hosts on one route each get their own Location. "
                 "Non-trivial = $path template and (encoded octet in the request path or strip/prepend); self-redirect cases with a fallback host; concurrent workloads. From-tags form: the redirect route is one urlprefix- tag (redirect=<code>,<url> plus its strip/prepend) of a Consul registration whose 0-3 sibling tags carry options of their own, in any order; "
                 "the commands fabio derives are loaded and the Location must follow the redirect tag's own options only; routes shorter than their strip path with the stripped piece at the front, further down or absent. Main-wiring form (mainpkg): redirect routes (codes 300-399) and forwarded requests through a fabio that main.go wired with metrics.target=prometheus (config.Load, metrics.Initialize, startServers): status and Location reach the client."),
        "technique": "rapid property tests against a string-level Location model; concurrent per-goroutine oracle under the race detector",
        "level_text": "Redirect responses produced by HTTPProxy + Table.Lookup for generated routes and requests are compared with a model of the documented template semantics, sequentially and under concurrent load with the race detector. Exploration only.",
        "level_note": "Request paths are ASCII with percent-encoded octets (raw non-ASCII bytes are re-encoded by net/url and are not 'the client's percent-encoding'). When a self-redirect has no other matching host the statement does not say what answers; only 'no upstream contacted' is asserted there.",
        "assumptions": COMMON_ASSUME,
    },
    "C12": {
        "units": [{"pkg": "./c12", "shards": 8, "shards_thorough": 16, "timeout": 300},
                  {"pkg": "./mainpkg", "run": "^TestC12", "shards": 2, "shards_thorough": 4, "timeout": 300}],
        "rule": ("rapid-generated allow=/deny= lists of 1-6 items (IPv4/IPv6 addresses and CIDR blocks incl. /0, /32, /128, 4-in-6, host bits set; 'ip:' in any case and spacing; malformed items: mask 33/129, "
                 "missing octet, no/unknown type, empty, zone; allow and deny together), peers inside / at both edges of / just outside each block, IPv4, IPv6, 4-in-6 and zone-scoped, X-Forwarded-For chains of 0-4 "
                 "elements (valid, garbage, peer repeated, padded). HTTP decisions through HTTPProxy.ServeHTTP with a hit-counting RoundTripper, TCP through AccessDeniedTCP on a stub conn and end to end through "
                 "tcp.Server (tcp and tcp-dynamic handlers) from 127.0.0.1 and ::1 with a counting upstream listener; auth= routes with two htpasswd ({SHA}) schemes, unknown scheme names and right/wrong/unknown/"
                 "malformed/absent credentials. Oracle: net/netip evaluation: exact (iff) for fully well-formed rules; with a malformed item only the must-deny direction (never wider than the well-formed blocks); "
                 "403/401 imply zero upstream hits, 200 exactly one. Non-trivial = rule with >=2 items whose decision differs from that of some single item, or a rule with a malformed item; auth cases with a scheme."),
        "technique": "rapid property tests, differential against a net/netip reference evaluation; upstream hit counting",
        "level_text": "Generated rules, peers and X-Forwarded-For chains are decided by fabio (HTTP handler, TCP predicate, real TCP listeners) and by an independent net/netip evaluation; denied requests are checked to leave the upstream untouched; authentication outcomes are compared with the credential file. Exploration only.",
        "level_note": "For rules containing a malformed item the statement only forbids widening, so only the must-deny direction is asserted there.",
        "assumptions": COMMON_ASSUME,
    },
    "C10": {
        "units": [
            {"pkg": "./c10", "shards": 8, "shards_thorough": 16, "timeout": 300},
            {"pkg": "./mainpkg", "run": "^TestC10", "race": True, "shards": 2, "shards_thorough": 4, "timeout": 300},
            {"pkg": "./c09", "run": "TestC09ConcurrentConnections", "race": True, "shards": 2, "shards_thorough": 4, "timeout": 300},
        ],
        "fuzz": [{"pkg": "./c10", "target": "FuzzC10ReadServerName", "time": "600s"}],
        "rule": ("(1) ClientHellos emitted by crypto/tls clients with rapid-generated configs (server names 1-249 bytes in any case, underscores, punycode, trailing dot, IP literal => no SNI; ALPN lists; "
                 "cipher-suite and curve subsets incl. X25519MLKEM768; min/max version 1.0-1.3; tickets on/off; resumption hellos carrying a ticket/PSK from an in-process server); (2) hellos marshalled by a harness "
                 "builder from crypto/tls extension payloads: arbitrary extension order, GREASE/unknown types, padding 0-4000 bytes, SNI lists with foreign name types, no SNI, no extension block, record longer than the "
                 "handshake; (3) 1-4 byte corruptions inside the handshake body; (4) every truncation point of every hello of (1)-(2); (5) arbitrary 0-12 byte record/handshake headers. Oracle: the same bytes fed to a "
                 "crypto/tls server (GetConfigForClient records ServerName): whenever it accepts, fabio must accept with the same name; builder knows the name it wrote; buffer size == 9 + handshake length <= 5 + record "
                 "length and accepted iff the header is a valid single-record ClientHello header; no panic anywhere; (6) edits of +-1..4/255 to one or two of the nested length fields around the name (record, handshake, "
                 "extension block, SNI extension, name list, name), with the SNI extension last, first or in the middle. The parser is always given an exact-capacity copy of the buffered bytes (a read past them panics), "
                 "and every non-empty name it returns must be the bytes of a host_name entry lying, by its own length field, inside a server_name extension (independent walker). Non-trivial = well-formed hello with >=3 extensions (distinct by bytes after the random), plus distinct "
                 "corrupted bodies and accepted headers. Routing form: the extracted name is put to a routing table with one tcp route per (lower-cased) generator name through LookupHost: names are routed whatever their letter case; main.go's per-listener lookup function "
                 "(lookupHostFn) is called by 2-16 goroutines at once for routed and unrouted names (-race): each call answers for its own name."),
        "technique": "rapid property tests, differential against crypto/tls on generated, built, corrupted and truncated ClientHellos; native go fuzzing (thorough)",
        "level_text": "Differential testing of fabio's ClientHello parser against the Go TLS stack over generated client configurations, harness-built hellos and corruptions, plus an exhaustive truncation sweep per hello and header-space sampling of the buffer-size function. Exploration only.",
        "level_note": "Single-record hellos only (fabio documents that fragmentation is unsupported); 'well-formed' = accepted by crypto/tls's parser far enough to call GetConfigForClient.",
        "assumptions": COMMON_ASSUME + ["crypto/tls of the pinned Go toolchain is the reference TLS stack"],
    },
    "C02": {
        "units": [
            {"pkg": "./c02", "shards": 6, "shards_thorough": 16, "timeout": 300},
            {"pkg": "./c02c", "race": True, "shards": 2, "shards_thorough": 4, "timeout": 300},
            {"pkg": "./sysbin", "run": "^TestC02", "shards": 1, "shards_thorough": 2, "timeout": 300},
            {"pkg": "./mainpkg", "run": "^TestC02b|^TestC02Pipeline", "shards": 2, "shards_thorough": 4, "timeout": 300},
        ],
        "fuzz": [{"pkg": "./c02", "target": "FuzzC02NewTable", "time": "300s"}],
        "rule": ("(a) rapid-generated route-config texts from a line grammar (add/del/weight, comments, flexible spacing, CRLF) salted with hostile tokens: non-finite/huge/denormal/hex weights, "
                 "glob metacharacters in hosts and paths, malformed URLs, junk allow/deny/redirect options, NUL / invalid UTF-8, lines > 64 KiB; plus []RouteDef values with extreme floats for NewTableCustom. "
                 "Oracle: NewTable/NewTableCustom return exactly one of (table, error) and never panic; String/Dump and lookups with every picker x matcher x glob on/off x TLS on every host never panic; "
                 "accepted tables have finite non-negative weights summing to 1; sentinel relation: text + one more 'route add' line, when accepted, contains that route (no partial table). "
                 "(b) histories of 3-30 valid/invalid service and manual updates through the real main.go update loop fed by a fake registry backend: the active table always equals the table of the last valid "
                 "combined text; SetTable(nil) ignored; custom-backend histories (valid / malformed / rejected / null / HTTP 500 payloads) whose definitions carry weight, tags and opts only now and then and leave unset "
                 "fields out of the JSON: the active table equals the table of the last good payload incl. fixed weights, tags and opts. (c) under -race: a writer installs generation-stamped tables while 2-16 readers look up every (host,path) from one snapshot: one generation per snapshot, "
                 "complete and sorted, generations monotone and within the writer's window. Non-trivial = (a) text with >=2 commands and >=1 hostile token that passes the line grammar; (b) history containing "
                 "invalid followed by valid; (c) workload with >=2 readers and >=2 routes. Thorough adds native fuzzing of the text oracle."),
        "technique": "rapid grammar-based robustness + metamorphic sentinel test; model-based update histories through the real loop; race-detector workload with generation oracle; native go fuzzing (thorough)",
        "level_text": "Hostile configuration texts and RouteDef slices are searched for panics and partial acceptance; update histories are replayed through the unmodified watchBackend loop (package-main copy) against a last-good model; concurrent readers check snapshot consistency while tables are replaced, under the race detector. Exploration only.",
        "level_note": "The scheduler is not controlled: interleavings are sampled on 16 cores, the race detector flags unsynchronised pairs that execute. The loop's validity oracle is the harness's own line-shape model.",
        "assumptions": COMMON_ASSUME + ["the copy of main.go compiled into the harness is refreshed from /repo on every run"],
    },
    "C05": {
        "units": [
            {"pkg": "./c05", "shards": 4, "shards_thorough": 16, "timeout": 300},
            {"pkg": "./mainpkg", "run": "^TestC05", "shards": 2, "shards_thorough": 4, "timeout": 300},
            {"pkg": "./c02", "run": "^TestC05", "shards": 2, "shards_thorough": 4, "timeout": 300},
        ],
        "rule": ("rapid-generated programs of 1-25 well-formed route add/del/weight commands (all documented forms, flexible spacing) over 3 services, 6 hosts in random letter case, "
                 "4 paths, 4 targets, tags incl. backslash and non-ASCII, option maps, weights with <=4 decimals. Oracle: independent in-harness model of the documented semantics "
                 "(idempotent add, exact del selection + no empty routes/hosts, weight w/n on exactly the matching targets, case-insensitive hosts), compared with Table/Route/Target fields; "
                 "round trip NewTable(t.String()) compared with the same model for tables without weight-only twins and with 4-decimal weights; add-idempotence metamorphic check. "
                 "Non-trivial = program contains a del or weight that selects a strict non-empty subset of the existing targets; distinct by program text. Update-loop form (mainpkg): histories of service-side and manual-side updates through main.go's watchBackend; the active table equals NewTable(service text + manual text) whichever side changed last."),
        "technique": "rapid model-based test: command programs against an independent reference model, plus text round trip",
        "level_text": "Generated command programs are applied by fabio and by an independent model of the documented semantics; every route, target, tag list, option map, fixed and effective weight is compared, then the table's text rendering is re-parsed and compared again. Exploration only.",
        "level_note": "A 'route weight' that matches nothing is expected to be rejected (current documented behaviour in TestTableParse); tags containing a double quote or comma cannot be written in the language and are not generated.",
        "assumptions": COMMON_ASSUME,
    },
    "C04": {
        "units": [
            {"pkg": "./c04", "shards": 8, "shards_thorough": 16, "timeout": 300},
            {"pkg": "./mainpkg", "run": "^TestC04", "shards": 4, "shards_thorough": 8, "timeout": 300},
            {"pkg": "./c02", "run": "^TestC04", "shards": 2, "shards_thorough": 4, "timeout": 300},
        ],
        "rule": ("rapid-generated routes with 1-40 targets, each fixed weight in {0, k/10000, tiny, >1 up to 10, negative} or dynamic, built by 'route add ... weight' lines and "
                 "0-6 'route weight' commands over services and tag sets. Oracle: float64 reference arithmetic from the statement (tolerance 1e-9 on Target.Weight, sum 1); "
                 "two full round-robin cycles through Table.Lookup from a generated offset: periodic, share within (2+N)/(10000-N) of the weight, positive weight never starved, "
                 "zero weight never picked, equal-weight routes exactly uniform; rnd picker driven through every ring index gives the same multiset. "
                 "Non-trivial = >=3 targets mixing fixed and dynamic weights, or a 'route weight' matching >=2 targets; distinct by sorted fixed-weight vector. Listener level (mainpkg): http, tcp, tcp+sni and https+tcp+sni listeners wired the way main.go wires them (lookupHostFn, lookupHostMatcher, configured picker), 2-4 equally weighted upstreams, "
                 "3-12 full round-robin cycles of sequential connections counted per upstream: every upstream gets exactly its share (+-1 for the readiness probe). From-tags form: 2-5 instances with 1-3 urlprefix tags each, every tag with or without weight=, turned into commands by fabio; per route the effective weights equal the reference for that prefix's tags."),
        "technique": "rapid property test against reference weight arithmetic; full-cycle round-robin counting",
        "level_text": "Effective weights of generated target sets are compared with reference arithmetic and the round-robin/rnd pickers are driven through complete cycles and counted. Exploration only.",
        "level_note": "Ring length is read through a verif hook (VerifRingLen) and independently bounded to 10000±N (or N for equal weights); weights are finite and <= 10 (non-finite/huge weights belong to C02).",
        "assumptions": COMMON_ASSUME,
    },
    "C03": {
        "units": [
            {"pkg": "./c03", "shards": 4, "shards_thorough": 16, "timeout": 300},
            {"pkg": "./mainpkg", "run": "^TestC03", "shards": 2, "shards_thorough": 4, "timeout": 300},
            {"pkg": "./c08", "run": "^TestC03", "shards": 1, "shards_thorough": 2, "timeout": 300},
        ],
        "rule": ("rapid-generated (table, requests) pairs: 1-12 routes over a colliding universe of hosts (exact names sharing suffixes, *.x wildcards at several depths, "
                 "host:80/:443/:8080, host-less, written in mixed case) and nested paths; requests = route hosts / wildcard instances / unrelated names in random letter case "
                 "with optional :80/:443/:other port, TLS on/off, paths extended/truncated/case-flipped; all three matchers, glob matching on and off, both pickers, small glob caches; "
                 "plus LookupHost for tcp/sni names. Oracle: brute-force reference ranking (exact > wildcard by literal suffix length > host-less; longest path within a host; "
                 "ties between equally ranked hosts accepted); routed iff a candidate exists. Non-trivial = the request has candidates on >=2 different (host rank, path length) levels; "
                 "distinct by hash of (table text, request). Every-pick sub-check: a most specific route with 2-5 targets and fixed weights (incl. < 0.0001) next to less specific ones is looked up for a full round-robin cycle (+3) and for every slot the random picker "
                 "can draw: each answer is non-nil and a target of the most specific route. Main-wiring form (mainpkg): proxy.matcher x glob.matching.disabled given as options to config.Load; the Lookup function of the proxy main.go builds answers every generated request like Table.Lookup called with exactly those options."),
        "technique": "rapid property test, differential against a brute-force reference ranking model",
        "level_text": "Every generated (table, request) is looked up with fabio's Table.Lookup/LookupHost and compared against an independent brute-force model of the specificity order in both directions (routed iff a candidate exists; the answer belongs to a top-ranked candidate). Exploration only.",
        "level_note": "Glob path specificity is asserted only for literal and literal+'*' patterns; wildcard hosts are generated as '*' and '*.suffix[:port]'. Ties between equally specific host patterns (e.g. foo.com and foo.com:80) accept either.",
        "assumptions": COMMON_ASSUME,
    },
    "C20": {
        "units": [
            {"pkg": "./c20", "run": "TestC20LogLine|TestC20EachField|TestC20Uint16|TestC20I32toa|TestC20UUID|TestC20STS|TestC20ProxyLogging|TestC20ProxyFinalStatus|TestC20LogTargetFaults|TestC20RequestURLFields|TestC20FailedUpgradeIsLogged|TestC20LogAfterSkippedRedirect|TestC20BodySizeWhenTheClientGoesAway", "shards": 4, "shards_thorough": 16, "timeout": 300},
            {"pkg": "./mainpkg", "run": "^TestC20", "shards": 2, "shards_thorough": 4, "timeout": 300},
            {"pkg": "./c20", "run": "TestC20ConcurrentLogging|TestC20ConcurrentUUID", "race": True, "shards": 2, "shards_thorough": 4, "timeout": 300},
        ],
        "fuzz": [],
        "rule": ("rapid-generated (format, event) pairs: format = random sequence over logger.Fields, $header.<Name> and literal text "
                 "(plus the two shipped formats); event = End in [1970,2262) with any ns and fixed zone offset, duration 0..10^6 s, status 100-999, "
                 "size 0..2^63-1, IPv4/IPv6 remote and upstream addresses with/without port. Oracle: line rendered with time.UTC().Format, strconv, fmt, "
                 "net.SplitHostPort, net/url; exactly one write per Log call; no panic. Non-trivial = format with >=3 fields of >=2 kinds among "
                 "{time, number, address}; distinct = distinct (format, event) by hash. Formatters: all 65536 uint16 (exhaustive), int32 edges + random "
                 "(thorough: all 2^32), random UUID bytes; proxy integration with canned RoundTripper and port-less upstream addresses."),
        "technique": "rapid property tests against a standard-library reference renderer; exhaustive sweep of the 16-bit (thorough: 32-bit) formatter domains",
        "level_text": "Generated (format, event) pairs are rendered by fabio's logger and by an independent reference built on time/strconv/fmt/net/url and compared byte for byte; formatter functions are compared with the standard library exhaustively (uint16) or by sweep/sample (int32, UUID); the proxy is driven with generated formats and port-less upstream addresses. Held-on-everything-explored, not a proof.",
        "level_note": "Trusted: Go standard library as oracle; the documented field list in logger.go. Formats are restricted to documented fields with at least one literal character.",
        "assumptions": COMMON_ASSUME + ["IPv6 brackets in $*_host fields are accepted either way (documentation silent), consistently per line"],
    },
}

# Forms added after the fifth set of independently written breaking changes (DESIGN.md section 11.1)
_LATER = {
    "C01": "Histories also: the Consul index goes backwards (snapshot restore) at a generated point; prefixes that differ only in letter case on one host.",
    "C03": "Main-wiring differential: lookups through the functions main.go builds from config.Load (every proxy.matcher x glob.matching.disabled combination) against Table.Lookup with the requested options.",
    "C04": "Also: a target added again with another weight as the last command of the route; shares per listener through main.go's wiring (HTTP and gRPC targets on one host with different ports, equal weights, full cycles, +-1).",
    "C05": "Rendering is also taken through the admin API (/api/routes?raw) and parsed back; NewTable builds run concurrently under the race detector.",
    "C06": "Also: the rnd picker under concurrency (every pick must be a target of the route, shares within tolerance), main.go's lookup closures incl. the no-route path.",
    "C07": "Also: routes generated from service tags of one instance with several urlprefix- tags (options stay with their tag); authorized exchanges on routes with auth= (upstream's WWW-Authenticate and other headers unchanged); concurrent exchanges under the race detector.",
    "C10": "Also: many connections accepted back to back on one listener, each must be routed by its own server name (race detector on).",
    "C11": "Also: the consul certificate source behind the fake Consul incl. index rewinds; path sources behind a release symlink in a parent directory, renewed by switching the link.",
    "C12": "Also: auth= routes with no scheme configured at all, schemes built from option text by config.Load (htpasswd files with refresh= and default realm, credentials removed from the file between rounds).",
    "C13": "Also: the whole pipeline fake Consul -> table with registry.consul.serviceMonitors > 1 under the race detector (no route line may be lost); redirect routes under every matcher / glob.matching.disabled combination through main.go's wiring.",
    "C14": "Also: an agent that refuses the registration of an alias (updates of other services must go on); malformed allow=/deny= items in tags (the table must still be accepted).",
    "C15": "Also: tracing.SpanName/SpanHost templates accepted by Load must render on every request; values that look like meta syntax (quotes, ';', '=', '$') mean the same from every source.",
    "C16": "Also: proxy.grpcshutdowntimeout in {0, small, default} by shard; real binary: its gRPC listener runs out of file descriptors (RLIMIT_NOFILE lowered with prlimit while 1-4 clients connect, 50-1200 ms), afterwards calls must be proxied again and the process must be alive.",
    "C17": "Also: clients that go away in the middle of a compressed response followed by overlapping responses (each must decode to its own upstream bytes); status codes 600-999.",
    "C18": "Also: two listeners on the same port of different loopback addresses; the admin (ui) listener started by main.go must refuse connections after shutdown as well.",
    "C19": "Also: routes with a per-route transport (tlsskipverify / host options) that exist at start-up of the real binary; an upstream that sends 103 and then stalls past the response-header timeout (the client must get the 504).",
    "C20": "Also: log.access.format taken through config.Load from command line, plain and FABIO_ environment (quotes and non-ASCII literal text kept); concurrent logging and UUID rendering under the race detector; failing log targets.",
}
for _k, _v in _LATER.items():
    PROPS[_k]["rule"] += " " + _v

# Forms added after the sixth set (DESIGN.md section 11.1, round 6)
_ROUND6 = {
    "C01": "Also: the agent refuses registrations while register= aliases come and go; an update loop that stops following the registry for 48 s is a violation (not a time-out); the operator adds the https form of an announced target (with the instance's tags) and may delete the http one; instances re-register in place on another port or address.",
    "C02": "Also: a rejected text stays rejected when it is delivered again with a valid line appended (the verdict on a line does not depend on earlier builds).",
    "C03": "Also: route paths written with empty, '.' and '..' segments and trailing slashes; the update-loop histories (active table = last good table, lookups agree) once more.",
    "C04": "Also: the table is replaced while the listener is up (shares of the new table on every listener kind incl. tcp and tcp+sni); Consul KV outage with an operator's 'route weight' in force.",
    "C05": "Also: the custom backend's JSON definitions (add, del in its three forms, weight) against the same commands as text.",
    "C06": "Also: tables with host patterns that are no valid globs in the cache-size workload; htpasswd file histories (a decision does not depend on what earlier requests presented).",
    "C07": "Also: option values with upper-case letters (strip=/Files, host=Backend.Internal); no-route after every route has been withdrawn (SetTable with an empty table).",
    "C08": "Also: routes with an access rule that admits the peer (forged non-IP X-Forwarded-For elements included); 101 answers to upgrades to protocols other than websocket carry the response headers.",
    "C09": "Also: targets built from the route language, incl. routes marked TCP by proto=tcp on a destination with another scheme, with pxyproto=true.",
    "C10": "Also: peers that go away after 0-12 bytes (or any prefix) of their hello through SNIProxy.ServeTCP: no panic, nothing routed.",
    "C11": "Also: http sources whose list download is cut off after one complete pair; http sources with one directory per site and the same file names in each.",
    "C12": "Also: allow=/deny=/auth= options arriving from service tags through the real Consul backend incl. values with unexpanded $variables (route stays closed); update-loop histories.",
    "C13": "Also: registrations without a port that only carry redirect tags; Consul KV outage with an operator's redirect route in force.",
    "C15": "Also: listener lists written with blanks around the separators (every accepted listener address can be bound as it stands); a properties file from a URL whose download breaks off mid-body must not be accepted.",
    "C16": "Also: the pipeline histories incl. in-place re-registrations; two gRPC listeners (grpc and grpcs, either order) started by startServers with a plain and a TLS backend.",
    "C17": "Also: the upstream's own Vary / Cache-Control survive; an upstream that dies mid-body (compressed or not) never yields a complete response; going-away clients hit compressed responses; the recorder reports headers as committed.",
    "C18": "Also: real SIGTERM/SIGINT (optionally after SIGHUP) to a process with 1-4 exit handlers one of which is main.go's drain: every handler runs once, exit.Wait returns within the wait, the listener refuses afterwards; real binary with an https+tcp+sni / https listener that was left without file descriptors for a moment (prlimit) before the shutdown: a request in flight on a connection accepted earlier completes.",
    "C19": "Also: a header in time followed by a body that streams 2.5-3.5 times the limit is delivered completely; limits given through the environment next to unusable neighbour settings (Load refuses, or keeps the limits).",
    "C20": "Also: $request_url / $request_scheme on routes that replace the Host header and with client-sent X-Forwarded-Proto / Forwarded; a websocket upgrade whose upstream refuses or closes yields exactly one line.",
}
for _k, _v in _ROUND6.items():
    PROPS[_k]["rule"] += " " + _v

# Forms added after the seventh set (DESIGN.md section 11.1, round 7)
_ROUND7 = {
    "C01": "Also: IPv6 service addresses; the operator pins an instance (route del <svc> + the registry's own line for one instance, letter for letter).",
    "C02": "Also: the pipeline histories with odd registrations (incl. redirect options without their second half) once more.",
    "C03": "Also: host names and addresses that end in the digits of a default port (web80:80, 10.0.0.43:443, node0).",
    "C04": "Also: the custom backend's definitions with and without weights (an omitted weight is no weight).",
    "C05": "Also: an earlier add repeated letter for letter after a del; weights that are multiples of ten in the rendering round trip.",
    "C06": "Also: per-route transports (host= on https upstreams, tlsskipverify on/off) across table replacements and between routes; gRPC calls reach their own target when instances differ only in the port.",
    "C07": "Also: the fronts listen through proxy.ListenAndServeHTTP; queries with ';' and other legal characters; 103 Early Hints before any final status.",
    "C08": "Also: the Connection header on several lines; the client's X-Forwarded-For chain is kept in front of the peer (when another header is the client-IP header).",
    "C10": "Also: on an https+tcp+sni listener wired as in main.go a name is tunnelled exactly while the table has a tcp route for it (route added, removed, added again between connections).",
    "C11": "Also: sources without refresh whose first load fails (missing key, broken PEM, server unreachable) get their set as soon as a load succeeds; a certificate server that answers with 404/500/503 error pages removes nothing.",
    "C12": "Also: rules and auth= next to a redirect option fabio cannot use.",
    "C13": "Also: redirect routes delivered by the file and static backends ($path / $host are fabio's templates, also when such environment variables exist).",
    "C14": "Also: proto=https host=<name> with / without tlsskipverify means the same whatever was registered before (per-route transport histories).",
    "C15": "Also: a proto=prometheus listener with every accepted metrics.prometheus.path starts and serves the metrics there.",
    "C17": "Also: proxy.gzip.contenttype given in file / plain env / FABIO_ env / command line with empty values switching it off again: the proxy built by newHTTPProxy compresses exactly when the effective expression says so.",
    "C18": "Also: an agent that answers deregistrations with an error while aliases come and go and at DeregisterAll.",
    "C19": "Also: a listener's rt (without wt) does not limit an upstream that answers inside the response-header timeout; uploads with Expect: 100-continue to a silent upstream get the 504 on time.",
}
for _k, _v in _ROUND7.items():
    PROPS[_k]["rule"] += " " + _v

# Forms added after the eighth set (DESIGN.md section 11.1, round 8)
_ROUND8 = {
    "C02": "Also: real binary with a tcp-dynamic listener (any refresh value Load accepts) and a tcp route whose port is taken by another process: the process stays up and serves.",
    "C03": "Also: tables built from the custom backend's definitions; default port (443 on TLS kinds, 80 on http) through fabio's own http / https / https+tcp+sni listeners with the PROXY protocol on and off.",
    "C04": "Also: proxy.strategy in every spelling Load accepts through main.go's proxy (rr exact, rnd everybody served, no panic); lookups on 2-4 routes interleaved at random: every route keeps its own cycle.",
    "C06": "Also: tcp.DynamicProxy with an ip:port route and a :port route on one port: connections served by one route do not use up places in the other's cycle.",
    "C07": "Also: fabio's own transport (transport.NewTransport) between proxy and upstream; response header blocks of 70-300 KB.",
    "C09": "Also: a reply of 3-6 MiB to a client that starts reading 300-700 ms later, through a listener opened by proxy.ListenAndServeTCP; record versions 3.2 / 3.3 in the hello's record header; one tunnel on the shared port of an https+tcp+sni listener that is silent for 10.5 s and carries bytes afterwards.",
    "C10": "Also: record versions 3.0-3.4 in the record header of built hellos; tcp:// routes with other options (pxyproto, allow, tags) on the shared port.",
    "C11": "Also: hidden neighbours of the certificate files (editor swap file, ..data symlink); clients without server name before and after a renewal through a listener opened with the listener's TLS configuration.",
    "C12": "Also: deny lists as an operator types them into a route command (blank after the comma, doubled or trailing comma): a peer inside any written block is refused.",
    "C13": "Also: tracing.SpanName templates have no say in the answer (same request with and without); custom backend payloads that differ from the previous one in an option value only.",
    "C15": "Also: real binary with a tcp-dynamic listener without / with zero / negative / positive refresh.",
    "C16": "Also: the admin endpoints read the table between calls.",
    "C17": "Also: expressions with a blank (\"^text/plain; charset=utf-8$\") from every source.",
    "C18": "Also: clients that have connected to a listener and say nothing are open work like any other (all listener kinds); profiling switched on and SIGINT instead of SIGTERM for the real binary.",
    "C19": "Also: a listener's idle timeout (it=) next to its rt / wt.",
    "C20": "Also: host and port as the client wrote them after the lookup passed over a redirect route that would have redirected the request to itself.",
}
for _k, _v in _ROUND8.items():
    PROPS[_k]["rule"] += " " + _v

# Forms added after the ninth set (DESIGN.md section 11.1, round 9)
_ROUND9 = {
    "C02": "Also: updates in which only the options of a route's targets change: every target a lookup returns carries the new options.",
    "C09": "Also: one-way streams (the client only listens) that outlast the listener's rt / wt / it as config.Load reads them from proxy.addr.",
    "C19": "Also: an https upstream whose TLS handshake starts later than proxy.dialtimeout and that answers inside the response-header timeout is served (default, skip-verify and per-route transports).",
    "C03": "Also: Host forms through main.go's proxy (underscores, leading hyphen, trailing dot, upper case, ports, IP literals): routed, never refused.",
    "C04": "Also: the routes API filtered by each service of the table and the table's log renderings between cycles.",
    "C05": "Also: bare hosts (no slash) in any letter case; weights such as 33.333, 12.3456, 123456.",
    "C06": "Also: the table's log renderings (String, Dump) and filtered API listings between and alongside lookups.",
    "C07": "Also: the upstream's own Strict-Transport-Security / Accept-Ranges / Alt-Svc headers with proxy.header.sts configured on a plain listener; the Host header as the client wrote it (trailing dot, underscores, ports) through main.go's proxy.",
    "C10": "Also: complete records with consistent but tiny lengths (handshake message of 0-8 bytes).",
    "C11": "Also: type=file sources whose two files have any names (server.crt/server.key, one combined file, the documented pair).",
    "C12": "Also: every request method incl. OPTIONS with CORS preflight headers against auth= routes.",
    "C13": "Also: request queries with ';' and a bare '%'; strip= and prepend= written with trailing slashes.",
    "C17": "Also: Accept-Encoding values that refuse gzip through '*;q=0' or name other codings only; the upstream's Accept-Ranges.",
    "C18": "Also: proxy.Shutdown(0) (the default wait) with silent clients on a gRPC and an http listener returns at once and leaves nothing listening.",
    "C20": "Also: headers on several lines (the field is the first value), header values and queries of 4-25 KB (one line each, never glued together).",
}
for _k, _v in _ROUND9.items():
    PROPS[_k]["rule"] += " " + _v

_ROUND10 = {
    "C01": "Also: the accepted states as config.Load reads them from a list option written with blank items; odd registrations coming and going in the same histories; pairs of instances on one node whose ids start alike (web / web-canary) with maintenance, check changes and de-/re-registration of either.",
    "C02": "Also: the route answering each lookup (not only whether there is one) compared between the active and the last good table, with the admin endpoints listing the active table in between.",
    "C03": "Also: host patterns without a star ({eu,us}.foo.com, api[0-9].foo.com, app?.example.org) against request hosts longer or shorter than the pattern text; glob.cache.size values through main.go's wiring (a size start-up accepts must route).",
    "C04": "Also: hosts that the add and weight commands spell in their own mix of cases; a tcp-dynamic listener with a route for one exact address and a :port route with 2-4 targets, connections to both in generated orders.",
    "C05": "Also: del/weight selectors that name a tag twice.",
    "C06": "Also: shares per upstream on tcp, tcp+sni, https+tcp+sni and http listeners (one lookup per connection).",
    "C07": "Also: a websocket upgrade the upstream refuses (status, X-Why header and body reach the client); no-route pages with leading/trailing white space, also as the file backend delivers them.",
    "C09": "Also: websocket tunnels through a proxy with proxy.dialtimeout configured, quiet for longer than that.",
    "C11": "Also: type=vault-pki against a minimal Vault: the certificate the source renews on its own timer is what later handshakes present.",
    "C14": "Also: pairs of instances on one node whose ids start alike, with maintenance of either.",
    "C15": "Also: proxy.auth schemes with refresh=-5s / 0s / 3s in the run-ability domain.",
    "C18": "Also: a deregistration grace period longer than the wait configured next to it.",
    "C20": "Also: $response_body_size when the client connection stops taking bytes in the middle of the body.",
}
for _k, _v in _ROUND10.items():
    PROPS[_k]["rule"] += " " + _v
