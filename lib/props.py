"""Per-property configuration of the driver: which harness packages decide a
property, with which flags, and the evidence rule text."""

COMMON_ASSUME = [
    "Go toolchain, race detector and standard library are correct",
    "pgregory.net/rapid v1.3.0 generates and shrinks as documented",
    "hooks under build tag 'verif' only expose unexported functions/state and do not change behaviour",
]

PROPS = {
    "C20": {
        "units": [{"pkg": "./c20", "shards": 4, "shards_thorough": 16, "timeout": 600}],
        "fuzz": [],
        "rule": ("rapid-generated (format, event) pairs: format = random sequence over logger.Fields, $header.<Name> and literal text "
                 "(plus the two shipped formats); event = End in [1970,2262) with any ns and fixed zone offset, duration 0..10^6 s, status 100-999, "
                 "size 0..2^63-1, IPv4/IPv6 remote and upstream addresses with/without port. Oracle: line rendered with time.UTC().Format, strconv, fmt, "
                 "net.SplitHostPort, net/url; exactly one write per Log call; no panic. Non-trivial = format with >=3 fields of >=2 kinds among "
                 "{time, number, address}; distinct = distinct (format, event) by hash. Formatters: all 65536 uint16 (exhaustive), int32 edges + random "
                 "(thorough: all 2^32), random UUID bytes; proxy integration with canned RoundTripper and port-less upstream addresses."),
        "technique": "rapid property tests against a standard-library reference renderer; exhaustive sweep of the 16-bit (thorough: 32-bit) formatter domains",
        "level_text": "Generated (format, event) pairs are rendered by fabio's logger and by an independent reference built on time/strconv/fmt/net/url and compared byte for byte; formatter functions are compared with the standard library exhaustively (uint16) or by sweep/sample (int32, UUID); the proxy is driven with generated formats and port-less upstream addresses. Held-on-everything-explored, not a proof.",
        "level_note": "Trusted: Go standard library as oracle; the documented field list in logger.go. Formats are restricted to documented fields with at least one literal character.",
        "assumptions": COMMON_ASSUME + ["IPv6 brackets in $*_host fields are accepted either way (documentation silent), consistently per line"],
    },
}
