package c04

import (
	"bytes"
	"fmt"
	"net/http"
	"net/url"
	"strings"
	"testing"

	"github.com/fabiolb/fabio/route"
	"pgregory.net/rapid"

	"verifharness/hx"
)

// Every route keeps its own place in its own cycle: lookups on other routes (HTTP, TCP by
// host, in any interleaving) do not move it.  Over whole cycles of a route each of its targets
// gets exactly its slots, however the traffic on the other routes is interleaved.
func TestC04RoutesDoNotShareTheirPosition(t *testing.T) {
	hx.Check(t, hx.Scale(1500, 30000), func(t *rapid.T) {
		nroutes := rapid.IntRange(2, 4).Draw(t, "routes")
		var text strings.Builder
		ntg := make([]int, nroutes)
		for r := 0; r < nroutes; r++ {
			ntg[r] = rapid.IntRange(2, 5).Draw(t, "targets")
			tcpRoute := r == nroutes-1 && rapid.Bool().Draw(t, "last-route-is-tcp")
			for k := 0; k < ntg[r]; k++ {
				if tcpRoute {
					fmt.Fprintf(&text, "route add svc%d :%d tcp://10.%d.0.%d:9000\n", r, 7000+r, r, k)
				} else {
					fmt.Fprintf(&text, "route add svc%d /r%d http://10.%d.0.%d:80/\n", r, r, r, k)
				}
			}
		}
		tbl, err := route.NewTable(bytes.NewBufferString(text.String()))
		if err != nil {
			t.Fatalf("%v\n%s", err, text.String())
		}
		cache := route.NewGlobCache(10)
		cycles := rapid.IntRange(1, 4).Draw(t, "cycles")
		left := make([]int, nroutes)
		total := 0
		for r := range left {
			left[r] = cycles * ntg[r] // equal weights: a cycle has one slot per target
			total += left[r]
		}
		counts := make([]map[string]int, nroutes)
		for r := range counts {
			counts[r] = map[string]int{}
		}
		isTCP := strings.Contains(text.String(), "tcp://")
		for i := 0; i < total; i++ {
			// which route gets the next lookup
			var open []int
			for r := range left {
				if left[r] > 0 {
					open = append(open, r)
				}
			}
			r := rapid.SampledFrom(open).Draw(t, "next-lookup-on-route")
			left[r]--
			var tg *route.Target
			if isTCP && r == nroutes-1 {
				tg = tbl.LookupHost(fmt.Sprintf(":%d", 7000+r), route.Picker["rr"])
			} else {
				req := &http.Request{Host: "h", URL: &url.URL{Path: fmt.Sprintf("/r%d/x", r)}, Header: http.Header{}}
				tg = tbl.Lookup(req, "", route.Picker["rr"], route.Matcher["prefix"], cache, false)
			}
			if tg == nil {
				t.Fatalf("lookup on route %d returned nothing\n%s", r, text.String())
			}
			counts[r][tg.URL.Host]++
		}
		hx.EvalN(total)
		for r := range counts {
			if len(counts[r]) != ntg[r] {
				t.Fatalf("route %d has %d targets, %d of them were picked in %d whole cycles (lookups on the routes were interleaved): %v\n%s", r, ntg[r], len(counts[r]), cycles, counts[r], text.String())
			}
			for h, c := range counts[r] {
				if c != cycles {
					t.Fatalf("route %d: target %s was picked %d times in %d whole cycles of its route (lookups on the other routes were interleaved): %v\n%s", r, h, c, cycles, counts[r], text.String())
				}
			}
		}
		hx.Class("interleaved-lookups-on-several-routes")
		hx.NonTrivial(fmt.Sprintf("interleave|%v|%d|%v", ntg, cycles, isTCP))
	})
}
