package c04

import (
	"bytes"
	"fmt"
	"math"
	"net/http"
	"net/url"
	"sort"
	"strconv"
	"strings"
	"testing"

	"github.com/fabiolb/fabio/route"
	"pgregory.net/rapid"

	"verifharness/hx"
	"verifharness/observe"
	"verifharness/wire"
)

func TestMain(m *testing.M) { wire.Init(false); hx.Main(m) }

type tgt struct {
	svc   string
	url   string
	tags  []string
	fixed float64 // <= 0: dynamic
}

func fmtW(w float64) string { return strconv.FormatFloat(w, 'f', -1, 64) }

func genWeight(t *rapid.T) float64 {
	switch rapid.IntRange(0, 9).Draw(t, "wkind") {
	case 0, 1, 2:
		return 0 // dynamic
	case 3:
		return float64(rapid.IntRange(1, 100000).Draw(t, "wbig")) / 10000 // up to 10
	case 4:
		return rapid.SampledFrom([]float64{0.00001, 0.000001, 0.00005, 1e-9, 0.00009999}).Draw(t, "wtiny")
	case 5:
		return rapid.SampledFrom([]float64{-1, -0.5, 1, 0.5, 0.25, 0.1, 0.9999, 0.0001, 0.3333, 0.29, 0.57, 0.07}).Draw(t, "wedge")
	default:
		return float64(rapid.IntRange(1, 10000).Draw(t, "w4")) / 10000
	}
}

var tagSets = [][]string{nil, {"x"}, {"y"}, {"x", "y"}, {"z"}, {"x", "z"}, {"x", "y", "z"}}

// model of 'route weight': sets fixed = w/n on the n matching targets.
func contains(src, want []string) bool {
	for _, w := range want {
		ok := false
		for _, s := range src {
			if s == w {
				ok = true
			}
		}
		if !ok {
			return false
		}
	}
	return true
}

func refWeights(ts []tgt) []float64 {
	n := len(ts)
	nF, sumF := 0, 0.0
	for _, x := range ts {
		if x.fixed > 0 {
			nF++
			sumF += x.fixed
		}
	}
	w := make([]float64, n)
	switch {
	case nF == 0:
		for i := range w {
			w[i] = 1 / float64(n)
		}
	case sumF > 1:
		for i, x := range ts {
			if x.fixed > 0 {
				w[i] = x.fixed / sumF
			}
		}
	case nF == n: // all fixed, sum <= 1: scaled up
		for i, x := range ts {
			w[i] = x.fixed / sumF
		}
	default:
		dyn := (1 - sumF) / float64(n-nF)
		for i, x := range ts {
			if x.fixed > 0 {
				w[i] = x.fixed
			} else {
				w[i] = dyn
			}
		}
	}
	return w
}

func TestC04Weights(t *testing.T) {
	hx.Check(t, hx.Scale(8000, 100000), func(t *rapid.T) {
		n := rapid.IntRange(1, 40).Draw(t, "ntargets")
		if rapid.IntRange(0, 2).Draw(t, "small") > 0 {
			n = rapid.IntRange(1, 6).Draw(t, "nsmall")
		}
		var ts []tgt
		var cfg strings.Builder
		// the route's host: none, or a name that the commands spell in their own mix of cases
		// (hosts are case-insensitive; the table stores them lower-cased)
		host := rapid.SampledFrom([]string{"", "", "www.example.com", "api.example.com:8443"}).Draw(t, "host")
		src := func() string {
			if host == "" {
				return "/p"
			}
			b := []byte(host)
			for i := range b {
				if b[i] >= 'a' && b[i] <= 'z' && rapid.IntRange(0, 3).Draw(t, "upper") == 0 {
					b[i] -= 'a' - 'A'
				}
			}
			if string(b) != host {
				hx.Class("command-spells-the-host-with-upper-case-letters")
			}
			return string(b) + "/p"
		}
		for i := 0; i < n; i++ {
			x := tgt{
				svc:   rapid.SampledFrom([]string{"svc-a", "svc-b", "svc-c", "svc-d"}).Draw(t, "svc"),
				url:   fmt.Sprintf("http://h%d:80/", i),
				tags:  rapid.SampledFrom(tagSets).Draw(t, "tags"),
				fixed: genWeight(t),
			}
			ts = append(ts, x)
			fmt.Fprintf(&cfg, "route add %s %s %s", x.svc, src(), x.url)
			if x.fixed != 0 {
				fmt.Fprintf(&cfg, " weight %s", fmtW(x.fixed))
			}
			if len(x.tags) > 0 {
				fmt.Fprintf(&cfg, " tags %q", strings.Join(x.tags, ","))
			}
			cfg.WriteString("\n")
		}
		// the same target announced once more with another weight: that is a further target of the route
		// (only an identical announcement is a duplicate); as the last command it must still be weighed in
		if rapid.IntRange(0, 2).Draw(t, "readd") == 0 {
			i := rapid.IntRange(0, n-1).Draw(t, "readd-target")
			w := genWeight(t)
			was := ts[i].fixed
			if was < 0 {
				was = 0
			}
			now := w
			if now < 0 {
				now = 0
			}
			if was != now {
				x := ts[i]
				x.fixed = w
				ts = append(ts, x)
				n++
				hx.Class("target-added-again-with-another-weight-as-the-last-command")
			}
			fmt.Fprintf(&cfg, "route add %s %s %s", ts[i].svc, src(), ts[i].url)
			if w != 0 {
				fmt.Fprintf(&cfg, " weight %s", fmtW(w))
			}
			if len(ts[i].tags) > 0 {
				fmt.Fprintf(&cfg, " tags %q", strings.Join(ts[i].tags, ","))
			}
			cfg.WriteString("\n")
		}
		// 'route weight' programs
		ncmd := rapid.IntRange(0, 6).Draw(t, "nweightcmds")
		multi := false
		for c := 0; c < ncmd; c++ {
			svc := rapid.SampledFrom([]string{"", "svc-a", "svc-b", "svc-c", "svc-d"}).Draw(t, "wsvc")
			tags := rapid.SampledFrom(tagSets).Draw(t, "wtags")
			if svc == "" && len(tags) == 0 {
				tags = []string{"x"}
			}
			w := genWeight(t)
			var idx []int
			for i, x := range ts {
				if (svc == "" || x.svc == svc) && contains(x.tags, tags) {
					idx = append(idx, i)
				}
			}
			if len(idx) == 0 {
				continue // would be an error; the error cases belong to C05
			}
			if len(idx) >= 2 {
				multi = true
			}
			for _, i := range idx {
				ts[i].fixed = w / float64(len(idx))
			}
			if svc != "" {
				fmt.Fprintf(&cfg, "route weight %s %s weight %s", svc, src(), fmtW(w))
				if len(tags) > 0 {
					fmt.Fprintf(&cfg, " tags %q", strings.Join(tags, ","))
				}
			} else {
				fmt.Fprintf(&cfg, "route weight %s weight %s tags %q", src(), fmtW(w), strings.Join(tags, ","))
			}
			cfg.WriteString("\n")
		}
		// model: negative weights mean dynamic
		for i := range ts {
			if ts[i].fixed < 0 {
				ts[i].fixed = 0
			}
		}

		tbl, err := route.NewTable(bytes.NewBufferString(cfg.String()))
		if err != nil {
			t.Fatalf("NewTable: %v\n%s", err, cfg.String())
		}
		hx.Eval()
		if len(tbl[host]) != 1 {
			t.Fatalf("the table has %d routes for host %q, want 1\n%s", len(tbl[host]), host, cfg.String())
		}
		r := tbl[host][0]
		if len(r.Targets) != n {
			t.Fatalf("want %d targets, got %d\n%s", n, len(r.Targets), cfg.String())
		}
		want := refWeights(ts)
		sum := 0.0
		byURL := map[*route.Target]int{} // (keyed by the target itself: the same URL may be on a route twice)
		for i, tg := range r.Targets {
			byURL[tg] = i
			if tg.URL.String() != ts[i].url {
				t.Fatalf("target order changed")
			}
			if tg.Weight < 0 || math.IsNaN(tg.Weight) {
				t.Fatalf("target %d has weight %v\n%s", i, tg.Weight, cfg.String())
			}
			if math.Abs(tg.Weight-want[i]) > 1e-9 {
				t.Fatalf("target %d (%s fixed=%v): effective weight %v, reference %v\n%s", i, ts[i].url, ts[i].fixed, tg.Weight, want[i], cfg.String())
			}
			sum += tg.Weight
		}
		if math.Abs(sum-1) > 1e-9 {
			t.Fatalf("weights sum to %v\n%s", sum, cfg.String())
		}

		// ---- round robin: one full cycle, then a second one
		nFixed := 0
		for _, x := range ts {
			if x.fixed > 0 {
				nFixed++
			}
		}
		ring := r.VerifRingLen()
		if n > 1 {
			if ring < n || ring > 1<<22 {
				t.Fatalf("implausible cycle length %d for %d targets", ring, n)
			}
			reqHost := "h"
			if host != "" {
				reqHost = host
			}
			req := &http.Request{Host: reqHost, URL: &url.URL{Path: "/p/x"}, Header: http.Header{}}
			cache := route.NewGlobCache(10)
			cycle := func() []int {
				cnt := make([]int, n)
				for k := 0; k < ring; k++ {
					tg := tbl.Lookup(req, "", route.Picker["rr"], route.Matcher["prefix"], cache, false)
					if tg == nil {
						t.Fatalf("lookup returned nil")
					}
					cnt[byURL[tg]]++
				}
				return cnt
			}
			// start the cycle at a generated offset
			off := rapid.IntRange(0, 50).Draw(t, "offset")
			for k := 0; k < off; k++ {
				tbl.Lookup(req, "", route.Picker["rr"], route.Matcher["prefix"], cache, false)
			}
			c1 := cycle()
			if rapid.IntRange(0, 2).Draw(t, "admin-looks-at-the-table") == 0 {
				// the admin API / UI lists the table between two cycles
				observe.Poke(tbl)
				hx.Class("admin-endpoints-read-the-table-between-two-cycles")
			}
			c2 := cycle()
			tol := float64(2+n) / float64(10000-n)
			for i := range c1 {
				if c1[i] != c2[i] {
					t.Fatalf("round robin is not periodic with the ring size: target %d got %d then %d", i, c1[i], c2[i])
				}
				share := float64(c1[i]) / float64(ring)
				switch {
				case want[i] == 0 && c1[i] != 0:
					t.Fatalf("zero-weight target %d picked %d times\n%s", i, c1[i], cfg.String())
				case want[i] > 0 && c1[i] == 0:
					t.Fatalf("target %d with weight %v starved in a full cycle of %d\n%s", i, want[i], ring, cfg.String())
				case nFixed == 0 && c1[i] != c1[0]:
					t.Fatalf("equal-weight route not uniform: target %d picked %d times per cycle, target 0 %d times", i, c1[i], c1[0])
				case math.Abs(share-want[i]) > tol:
					t.Fatalf("target %d: share %v in a cycle of %d, weight %v (tolerance %v)\n%s", i, share, ring, want[i], tol, cfg.String())
				}
			}
			// ---- random picker: every index of the ring once gives the same multiset
			if rapid.IntRange(0, 3).Draw(t, "rndcheck") == 0 {
				next := 0
				restore := route.VerifSetRandIntn(func(k int) int {
					if k != ring {
						panic(fmt.Sprintf("rnd picker draws from %d slots, ring has %d", k, ring))
					}
					v := next
					next++
					return v % k
				})
				cr := make([]int, n)
				for k := 0; k < ring; k++ {
					tg := tbl.Lookup(req, "", route.Picker["rnd"], route.Matcher["prefix"], cache, false)
					cr[byURL[tg]]++
				}
				restore()
				for i := range cr {
					if cr[i] != c1[i] {
						t.Fatalf("rnd picker over every slot: target %d got %d, rr cycle gave %d", i, cr[i], c1[i])
					}
				}
				hx.Class("rnd-picker-swept")
			}
		}
		mixed := nFixed > 0 && nFixed < n
		if (n >= 3 && mixed) || multi {
			var key []string
			for _, x := range ts {
				key = append(key, fmtW(x.fixed))
			}
			sort.Strings(key)
			hx.NonTrivial(strings.Join(key, ","))
			hx.Class("nontrivial")
		}
		switch {
		case nFixed == 0:
			hx.Class("all-dynamic")
		case nFixed == n:
			hx.Class("all-fixed")
		default:
			hx.Class("mixed")
		}
		if multi {
			hx.Class("route-weight-matching>=2")
		}
		if hx.WantSample("weights") && n >= 3 && n <= 8 && mixed {
			hx.Sample("weights", map[string]any{"config": strings.Split(strings.TrimSpace(cfg.String()), "\n"), "reference_weights": want, "ring": ring})
		}
	})
}
