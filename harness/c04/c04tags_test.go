package c04

import (
	"bytes"
	"fmt"
	"math"
	"strings"
	"testing"

	"github.com/fabiolb/fabio/registry/consul"
	"github.com/fabiolb/fabio/route"
	"github.com/hashicorp/consul/api"
	"pgregory.net/rapid"

	"verifharness/hx"
)

// Fixed weights usually come from service registrations: a urlprefix- tag may
// carry weight=<w>.  Instances advertise several prefixes, each tag with or
// without its own weight; on every route the effective weights are the
// reference weights for exactly the fixed weights the tags of THAT prefix carry.
func TestC04WeightsFromServiceTags(t *testing.T) {
	hx.Check(t, hx.Scale(3000, 60000), func(t *rapid.T) {
		prefixes := []string{"/a", "/b", "/c"}
		ninst := rapid.IntRange(2, 5).Draw(t, "instances")
		fixed := map[string][]tgt{} // per prefix, in instance order
		var all []string
		for i := 0; i < ninst; i++ {
			var tags []string
			order := rapid.Permutation(prefixes).Draw(t, "tagorder")[:rapid.IntRange(1, 3).Draw(t, "ntags")]
			for _, p := range order {
				tag := "urlprefix-" + p
				w := 0.0
				if rapid.IntRange(0, 2).Draw(t, "hasweight") == 0 {
					w = rapid.SampledFrom([]float64{0.1, 0.2, 0.25, 0.5, 0.05}).Draw(t, "w")
					tag += " weight=" + fmtW(w)
				}
				if rapid.IntRange(0, 3).Draw(t, "otheropt") == 0 {
					tag += " strip=" + p
				}
				tags = append(tags, tag)
				fixed[p] = append(fixed[p], tgt{url: fmt.Sprintf("http://10.0.0.%d:80/", i+1), fixed: w})
			}
			svc := &api.CatalogService{Node: "n", Address: "10.9.9.9", ServiceID: fmt.Sprintf("web-%d", i), ServiceName: "web", ServiceAddress: fmt.Sprintf("10.0.0.%d", i+1), ServicePort: 80, ServiceTags: tags}
			all = append(all, consul.VerifRouteCmds(svc, "urlprefix-", nil)...)
		}
		cfg := strings.Join(all, "\n")
		tbl, err := route.NewTable(bytes.NewBufferString(cfg))
		if err != nil {
			t.Fatalf("%v\n%s", err, cfg)
		}
		hx.Eval()
		mixed := false
		for _, r := range tbl[""] {
			ts := fixed[r.Path]
			if len(ts) != len(r.Targets) {
				t.Fatalf("route %s has %d targets, %d instances advertise it\n%s", r.Path, len(r.Targets), len(ts), cfg)
			}
			want := refWeights(ts)
			byURL := map[string]float64{}
			nf := 0
			for i, x := range ts {
				byURL[x.url] = want[i]
				if x.fixed > 0 {
					nf++
				}
			}
			if nf > 0 && nf < len(ts) {
				mixed = true
			}
			for _, tg := range r.Targets {
				if w, ok := byURL[tg.URL.String()]; !ok || math.Abs(tg.Weight-w) > 1e-9 {
					t.Fatalf("route %s target %s: effective weight %v, the tags of this prefix give %v\n%s", r.Path, tg.URL, tg.Weight, w, cfg)
				}
			}
		}
		if mixed {
			hx.NonTrivial("tags|" + cfg)
			hx.Class("weights-from-service-tags:mixed")
		}
		hx.Class("weights-from-service-tags")
	})
}
