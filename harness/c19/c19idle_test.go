package c19

import (
	"bytes"
	"crypto/tls"
	"fmt"
	"io"
	"net"
	"net/http"
	"net/http/httptest"
	"net/url"
	"strings"
	"sync"
	"sync/atomic"
	"testing"
	"time"

	"github.com/fabiolb/fabio/config"
	"github.com/fabiolb/fabio/proxy"
	"github.com/fabiolb/fabio/route"
	"github.com/fabiolb/fabio/transport"
	"pgregory.net/rapid"

	"verifharness/hx"
	"verifharness/wire"
)

// "idle connections per host" observed from the upstreams' side: with
// proxy.maxconn=m and H upstream hosts, m simultaneous requests per host leave
// m idle connections per host behind, so a second wave of the same shape needs
// no new connection to any of them - whatever the other hosts hold.
func TestC19IdleConnsPerHost(t *testing.T) {
	const maxHosts = 4
	type upstream struct {
		srv     *httptest.Server
		opened  int64
		release chan struct{}
		arrived chan struct{}
	}
	var ups []*upstream
	for i := 0; i < maxHosts; i++ {
		u := &upstream{}
		u.srv = httptest.NewUnstartedServer(http.HandlerFunc(func(w http.ResponseWriter, r *http.Request) {
			u.arrived <- struct{}{}
			<-u.release
			io.WriteString(w, "ok")
		}))
		u.srv.Config.ConnState = func(c net.Conn, st http.ConnState) {
			if st == http.StateNew {
				atomic.AddInt64(&u.opened, 1)
			}
		}
		u.srv.Start()
		defer u.srv.Close()
		ups = append(ups, u)
	}
	defer transport.SetConfig(&config.Config{})
	hx.Check(t, hx.Scale(12, 150), func(t *rapid.T) {
		H := rapid.IntRange(2, maxHosts).Draw(t, "hosts")
		m := rapid.IntRange(1, 6).Draw(t, "maxconn")
		cfg := &config.Config{}
		cfg.Proxy.MaxConn = m
		cfg.Proxy.IdleConnTimeout = time.Duration(rapid.SampledFrom([]int{0, 30, 90}).Draw(t, "idletimeout_s")) * time.Second
		cfg.Proxy.KeepAliveTimeout = 30 * time.Second
		cfg.Proxy.DialTimeout = 5 * time.Second
		transport.SetConfig(cfg)
		var text strings.Builder
		for i := 0; i < H; i++ {
			fmt.Fprintf(&text, "route add svc%d /h%d/ %s/\n", i, i, ups[i].srv.URL)
		}
		tbl, err := route.NewTable(bytes.NewBufferString(text.String()))
		if err != nil {
			t.Fatal(err)
		}
		cache := route.NewGlobCache(10)
		p := &proxy.HTTPProxy{
			Stats:             wire.Stats(),
			Transport:         transport.NewTransport(nil),
			InsecureTransport: transport.NewTransport(&tls.Config{InsecureSkipVerify: true}),
			Lookup: func(r *http.Request) *route.Target {
				return tbl.Lookup(r, "", route.Picker["rr"], route.Matcher["prefix"], cache, false)
			},
		}
		wave := func() (bad string) {
			var wg sync.WaitGroup
			var fail atomic.Value
			for i := 0; i < H; i++ {
				ups[i].release = make(chan struct{})
				ups[i].arrived = make(chan struct{}, m)
			}
			for i := 0; i < H; i++ {
				for k := 0; k < m; k++ {
					wg.Add(1)
					go func(i int) {
						defer wg.Done()
						rec := httptest.NewRecorder()
						req := httptest.NewRequest("GET", fmt.Sprintf("http://example.com/h%d/x", i), nil)
						req.RemoteAddr = "192.0.2.1:1234"
						p.ServeHTTP(rec, req)
						if rec.Code != 200 {
							fail.Store(fmt.Sprintf("request to host %d answered %d", i, rec.Code))
						}
					}(i)
				}
			}
			// all H*m requests are at their upstream at the same time
			for i := 0; i < H; i++ {
				for k := 0; k < m; k++ {
					select {
					case <-ups[i].arrived:
					case <-time.After(10 * time.Second):
						return fmt.Sprintf("VERIF-INCONCLUSIVE request %d of %d never reached upstream %d", k, m, i)
					}
				}
			}
			for i := 0; i < H; i++ {
				close(ups[i].release)
			}
			wg.Wait()
			if s, ok := fail.Load().(string); ok {
				return s
			}
			return ""
		}
		for i := 0; i < H; i++ {
			atomic.StoreInt64(&ups[i].opened, 0)
		}
		if bad := wave(); bad != "" {
			t.Fatalf("%s", bad)
		}
		time.Sleep(30 * time.Millisecond) // connections are put back into the idle pool
		first := make([]int64, H)
		for i := 0; i < H; i++ {
			first[i] = atomic.LoadInt64(&ups[i].opened)
		}
		if bad := wave(); bad != "" {
			t.Fatalf("%s", bad)
		}
		hx.EvalN(2 * H * m)
		for i := 0; i < H; i++ {
			if d := atomic.LoadInt64(&ups[i].opened) - first[i]; d != 0 {
				var all []int64
				for j := 0; j < H; j++ {
					all = append(all, atomic.LoadInt64(&ups[j].opened)-first[j])
				}
				t.Fatalf("proxy.maxconn=%d (idle connections per host), %d upstream hosts: after a wave of %d simultaneous requests per host, the same wave again opened %v new connections per host (first wave: %v); every host should have kept its %d idle connections", m, H, m, all, first, m)
			}
		}
		p.Transport.(*http.Transport).CloseIdleConnections()
		hx.Class("idle-per-host")
		hx.NonTrivial(fmt.Sprintf("idle|%d|%d|%v", H, m, cfg.Proxy.IdleConnTimeout))
	})
}

var _ = url.Parse
