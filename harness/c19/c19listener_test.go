package c19

import (
	"bufio"
	"crypto/tls"
	"fmt"
	"io"
	"net"
	"net/http"
	"net/http/httptest"
	"net/url"
	"strings"
	"sync/atomic"
	"testing"
	"time"

	"github.com/fabiolb/fabio/config"
	"github.com/fabiolb/fabio/proxy"
	"github.com/fabiolb/fabio/route"
	"github.com/fabiolb/fabio/transport"
	"pgregory.net/rapid"

	"verifharness/hx"
	"verifharness/wire"
)

// The limits on the upstream are the configured ones.  A listener's own read timeout (rt=, with
// or without a write timeout) is about the client side: an upstream that answers within
// proxy.responseheadertimeout but later than rt is served, one that stays silent gets the 504
// when the response-header timeout is over.
func TestC19ListenerTimeoutsAreNotUpstreamLimits(t *testing.T) {
	var delay int64
	up := httptest.NewServer(http.HandlerFunc(func(w http.ResponseWriter, r *http.Request) {
		select {
		case <-time.After(time.Duration(atomic.LoadInt64(&delay))):
		case <-r.Context().Done():
			return
		}
		io.WriteString(w, "upstream-body")
	}))
	defer up.Close()
	upURL, _ := url.Parse(up.URL)
	defer transport.SetConfig(&config.Config{})
	hx.Check(t, hx.Scale(6, 60), func(t *rapid.T) {
		rt := time.Duration(rapid.IntRange(150, 300).Draw(t, "listener_rt_ms")) * time.Millisecond
		wt := time.Duration(0)
		if rapid.IntRange(0, 2).Draw(t, "listener-has-wt") == 0 {
			wt = 10 * time.Second
		}
		// ... and so is its idle timeout (it=): it is about connections between requests
		it := time.Duration(0)
		if rapid.IntRange(0, 2).Draw(t, "listener-has-no-it") == 0 {
			it = 0
		} else {
			it = rt
		}
		T := 4 * rt // proxy.responseheadertimeout
		slow := rapid.Bool().Draw(t, "upstream-silent")
		D := 2 * rt // later than the listener's read timeout, well inside the limit
		if slow {
			D = 3 * T
		}
		atomic.StoreInt64(&delay, int64(D))
		cfg := &config.Config{}
		cfg.Proxy.ResponseHeaderTimeout = T
		transport.SetConfig(cfg)
		tg := &route.Target{Service: "svc", URL: upURL}
		p := &proxy.HTTPProxy{Stats: wire.Stats(), Transport: transport.NewTransport(nil), InsecureTransport: transport.NewTransport(&tls.Config{InsecureSkipVerify: true}),
			Lookup: func(*http.Request) *route.Target { return tg }}
		addr := hx.FreeAddr()
		go proxy.ListenAndServeHTTP(config.Listen{Addr: addr, Proto: "http", ReadTimeout: rt, WriteTimeout: wt, IdleTimeout: it}, p, nil)
		var c net.Conn
		var err error
		for i := 0; i < 400; i++ {
			if c, err = net.DialTimeout("tcp", addr, 100*time.Millisecond); err == nil {
				break
			}
			time.Sleep(5 * time.Millisecond)
		}
		if err != nil {
			t.Fatalf("VERIF-INCONCLUSIVE listener did not come up: %v", err)
		}
		defer c.Close()
		c.SetDeadline(time.Now().Add(T + 10*time.Second))
		start := time.Now()
		fmt.Fprintf(c, "GET / HTTP/1.1\r\nHost: example.com\r\nConnection: close\r\n\r\n")
		resp, err := http.ReadResponse(bufio.NewReader(c), &http.Request{Method: "GET"})
		took := time.Since(start)
		hx.Eval()
		ctx := fmt.Sprintf("listener rt=%v wt=%v it=%v, proxy.responseheadertimeout=%v, upstream answers after %v", rt, wt, it, T, D)
		if err != nil {
			t.Fatalf("no response (%v after %v)\n%s", err, took.Round(time.Millisecond), ctx)
		}
		body, _ := io.ReadAll(resp.Body)
		if slow {
			if resp.StatusCode != 504 || took > T+1500*time.Millisecond {
				t.Fatalf("silent upstream: status %d after %v, want 504 after about %v\n%s", resp.StatusCode, took.Round(time.Millisecond), T, ctx)
			}
			hx.Class("listener-rt:silent-upstream-504")
		} else {
			if resp.StatusCode != 200 || string(body) != "upstream-body" {
				t.Fatalf("upstream inside the limit: status %d body %q after %v, want 200\n%s", resp.StatusCode, body, took.Round(time.Millisecond), ctx)
			}
			hx.Class("listener-rt:upstream-later-than-rt-served")
		}
		hx.NonTrivial(ctx)
	})
}

// The response-header timeout starts when the request has been sent, whatever the request
// looks like: a client that uploads with "Expect: 100-continue" to an upstream that stays
// silent gets its 504 when the timeout is over, not later.
func TestC19ExpectContinue(t *testing.T) {
	up := httptest.NewUnstartedServer(http.HandlerFunc(func(w http.ResponseWriter, r *http.Request) {
		<-r.Context().Done() // never reads the body, never answers
	}))
	up.Start()
	defer up.CloseClientConnections()
	upURL, _ := url.Parse(up.URL)
	defer transport.SetConfig(&config.Config{})
	hx.Check(t, hx.Scale(2, 12), func(t *rapid.T) {
		T := time.Duration(rapid.IntRange(1200, 1600).Draw(t, "T_ms")) * time.Millisecond
		// (rapid's first cases draw small values: the Expect header is the usual case here)
		expect := rapid.IntRange(0, 3).Draw(t, "plain-upload-instead") != 3
		cfg := &config.Config{}
		cfg.Proxy.ResponseHeaderTimeout = T
		transport.SetConfig(cfg)
		tg := &route.Target{Service: "svc", URL: upURL}
		p := &proxy.HTTPProxy{Stats: wire.Stats(), Transport: transport.NewTransport(nil), InsecureTransport: transport.NewTransport(&tls.Config{InsecureSkipVerify: true}),
			Lookup: func(*http.Request) *route.Target { return tg }}
		req := httptest.NewRequest("POST", "http://example.com/upload", strings.NewReader(strings.Repeat("x", 2000)))
		req.RemoteAddr = "192.0.2.1:1234"
		if expect {
			req.Header.Set("Expect", "100-continue")
		}
		rec := &finalRecorder{ResponseRecorder: httptest.NewRecorder()}
		start := time.Now()
		p.ServeHTTP(rec, req)
		took := time.Since(start)
		hx.Eval()
		if rec.Code != 504 || took > T+1000*time.Millisecond {
			t.Fatalf("upload (Expect: 100-continue sent: %v) to an upstream that stays silent: status %d after %v, want 504 after about %v", expect, rec.Code, took.Round(time.Millisecond), T)
		}
		hx.Class(fmt.Sprintf("silent-upstream:upload-with-expect-continue=%v", expect))
		hx.NonTrivial(fmt.Sprintf("expect|%v|%v", expect, T))
	})
}
