package c19

import (
	"bytes"
	"compress/gzip"
	"crypto/tls"
	"fmt"
	"io"
	"math"
	"net"
	"net/http"
	"net/http/httptest"
	"net/url"
	"regexp"
	"strings"
	"sync/atomic"
	"syscall"
	"testing"
	"time"

	"github.com/fabiolb/fabio/config"
	"github.com/fabiolb/fabio/proxy"
	"github.com/fabiolb/fabio/route"
	"github.com/fabiolb/fabio/transport"
	"pgregory.net/rapid"

	"verifharness/hx"
	"verifharness/wire"
)

func TestMain(m *testing.M) { wire.Init(true); hx.Main(m) }

func genDur(t *rapid.T, label string) time.Duration {
	switch rapid.IntRange(0, 4).Draw(t, label+"kind") {
	case 0:
		return 0
	case 1:
		return time.Duration(rapid.IntRange(1, 120).Draw(t, label+"s")) * time.Second
	case 2:
		return time.Duration(rapid.IntRange(1, 5000).Draw(t, label+"ms")) * time.Millisecond
	case 3:
		return rapid.SampledFrom([]time.Duration{time.Second, 15 * time.Second, 37 * time.Second, 1500 * time.Millisecond, time.Nanosecond, time.Hour}).Draw(t, label+"edge")
	default:
		return time.Duration(rapid.Int64Range(1, int64(10*time.Minute)).Draw(t, label+"ns"))
	}
}

func genProxyCfg(t *rapid.T) *config.Config {
	cfg := &config.Config{}
	cfg.Proxy.DialTimeout = genDur(t, "dial")
	cfg.Proxy.ResponseHeaderTimeout = genDur(t, "rht")
	cfg.Proxy.KeepAliveTimeout = genDur(t, "ka")
	cfg.Proxy.IdleConnTimeout = genDur(t, "idle")
	cfg.Proxy.MaxConn = rapid.SampledFrom([]int{0, 1, 2, 100, 10000, -1}).Draw(t, "maxconn")
	return cfg
}

func nonZero(cfg *config.Config) int {
	n := 0
	for _, b := range []bool{cfg.Proxy.DialTimeout != 0, cfg.Proxy.ResponseHeaderTimeout != 0, cfg.Proxy.KeepAliveTimeout != 0, cfg.Proxy.IdleConnTimeout != 0, cfg.Proxy.MaxConn != 0} {
		if b {
			n++
		}
	}
	return n
}

func describe(cfg *config.Config) string {
	p := cfg.Proxy
	return fmt.Sprintf("dialtimeout=%v responseheadertimeout=%v keepalivetimeout=%v idleconntimeout=%v maxconn=%d", p.DialTimeout, p.ResponseHeaderTimeout, p.KeepAliveTimeout, p.IdleConnTimeout, p.MaxConn)
}

// keepAliveOf dials the listener through the transport's own Dial and reads
// the keep-alive settings of the resulting socket.
func keepAliveOf(tr *http.Transport, addr string) (on bool, idle int, err error) {
	var c net.Conn
	switch {
	case tr.Dial != nil:
		c, err = tr.Dial("tcp", addr)
	case tr.DialContext != nil:
		c, err = tr.DialContext(nil, "tcp", addr)
	default:
		return false, 0, fmt.Errorf("transport has no dialer configured")
	}
	if err != nil {
		return false, 0, err
	}
	defer c.Close()
	tc, ok := c.(*net.TCPConn)
	if !ok {
		return false, 0, fmt.Errorf("not a TCP connection: %T", c)
	}
	rc, err := tc.SyscallConn()
	if err != nil {
		return false, 0, err
	}
	var v1, v2 int
	var e1, e2 error
	rc.Control(func(fd uintptr) {
		v1, e1 = syscall.GetsockoptInt(int(fd), syscall.SOL_SOCKET, syscall.SO_KEEPALIVE)
		v2, e2 = syscall.GetsockoptInt(int(fd), syscall.IPPROTO_TCP, syscall.TCP_KEEPIDLE)
	})
	if e1 != nil {
		return false, 0, e1
	}
	if e2 != nil {
		return false, 0, e2
	}
	return v1 != 0, v2, nil
}

type transportKind struct {
	name string
	get  func(t *rapid.T) *http.Transport
}

func checkTransport(t *rapid.T, kind string, tr *http.Transport, cfg *config.Config, lnAddr string) {
	p := cfg.Proxy
	ctx := fmt.Sprintf("%s transport built after SetConfig(%s)", kind, describe(cfg))
	if tr == nil {
		t.Fatalf("no transport: %s", ctx)
	}
	if tr.ResponseHeaderTimeout != p.ResponseHeaderTimeout {
		t.Fatalf("ResponseHeaderTimeout is %v\n%s", tr.ResponseHeaderTimeout, ctx)
	}
	if tr.IdleConnTimeout != p.IdleConnTimeout {
		t.Fatalf("IdleConnTimeout is %v\n%s", tr.IdleConnTimeout, ctx)
	}
	if tr.MaxIdleConnsPerHost != p.MaxConn {
		t.Fatalf("MaxIdleConnsPerHost is %d\n%s", tr.MaxIdleConnsPerHost, ctx)
	}
	on, idle, err := keepAliveOf(tr, lnAddr)
	if err != nil {
		if ne, ok := err.(net.Error); ok && ne.Timeout() && p.DialTimeout > 0 && p.DialTimeout < 200*time.Millisecond {
			hx.Class("tiny-dial-timeout-expired") // the configured dial timeout at work
			return
		}
		t.Fatalf("dial through the transport failed: %v\n%s", err, ctx)
	}
	switch ka := p.KeepAliveTimeout; {
	case ka > 0:
		want := int(math.Ceil(ka.Seconds()))
		if !on || idle != want {
			t.Fatalf("socket keep-alive on=%v idle=%ds, configured keep-alive %v (want %ds)\n%s", on, idle, ka, want, ctx)
		}
	case ka == 0:
		if !on || idle != 15 {
			t.Fatalf("socket keep-alive on=%v idle=%ds, want Go's default (15s) for keepalivetimeout=0\n%s", on, idle, ctx)
		}
	}
}

func TestC19Structural(t *testing.T) {
	ln, err := hx.Listen("tcp", "127.0.0.1:0")
	if err != nil {
		// an environment problem (e.g. no free ephemeral port), not a verdict on fabio
		t.Skipf("VERIF-INCONCLUSIVE cannot listen: %v", err)
	}
	defer ln.Close()
	go func() {
		for {
			c, err := ln.Accept()
			if err != nil {
				return
			}
			c.Close()
		}
	}()
	defer transport.SetConfig(&config.Config{})
	hx.Check(t, hx.Scale(2000, 50000), func(t *rapid.T) {
		cfg := genProxyCfg(t)
		transport.SetConfig(cfg)
		kind := rapid.SampledFrom([]string{"default", "skip-verify", "per-route"}).Draw(t, "kind")
		var tr *http.Transport
		switch kind {
		case "default":
			tr = transport.NewTransport(nil)
		case "skip-verify":
			tr = transport.NewTransport(&tls.Config{InsecureSkipVerify: true})
			if tr.TLSClientConfig == nil || !tr.TLSClientConfig.InsecureSkipVerify {
				t.Fatalf("TLS config not passed on")
			}
		case "per-route":
			host := rapid.SampledFrom([]string{"sni.example.com", "other.internal"}).Draw(t, "hostopt")
			form := rapid.SampledFrom([]string{"https://10.0.0.1:443/", "http://10.0.0.1:443/ proto"}).Draw(t, "form")
			opts := "host=" + host
			dst := "https://10.0.0.1:443/"
			if form != dst {
				dst, opts = "http://10.0.0.1:443/", opts+" proto=https"
			}
			if rapid.Bool().Draw(t, "skipverify") {
				opts += " tlsskipverify=true"
			}
			tbl, err := route.NewTable(bytes.NewBufferString(fmt.Sprintf("route add svc / %s opts \"%s\"", dst, opts)))
			if err != nil {
				t.Fatal(err)
			}
			tg := tbl[""][0].Targets[0]
			tr = tg.Transport
			if tr == nil {
				t.Fatalf("route with host=%s on an https target has no transport of its own", host)
			}
			if tr.TLSClientConfig == nil || tr.TLSClientConfig.ServerName != host {
				t.Fatalf("per-route transport does not carry the server name %q", host)
			}
		}
		hx.Eval()
		checkTransport(t, kind, tr, cfg, ln.Addr().String())
		hx.Class("transport:" + kind)
		if nonZero(cfg) >= 2 {
			hx.NonTrivial(kind + "|" + describe(cfg))
			hx.Class("nontrivial")
		}
		if hx.WantSample("structural") {
			hx.Sample("structural", kind+": "+describe(cfg))
		}
	})
}

// ---------------------------------------------------------------------------
// behaviour: the response-header timeout produces a 504 in time

func TestC19ResponseHeaderTimeout(t *testing.T) {
	var delay, earlyHints, stream int64
	up := httptest.NewServer(http.HandlerFunc(func(w http.ResponseWriter, r *http.Request) {
		if atomic.LoadInt64(&earlyHints) != 0 {
			// an informational response is not the response header the timeout waits for
			w.Header().Set("Link", "</style.css>; rel=preload")
			w.WriteHeader(http.StatusEarlyHints)
			w.Header().Del("Link")
		}
		if d := time.Duration(atomic.LoadInt64(&delay)); d > 0 {
			select {
			case <-time.After(d):
			case <-r.Context().Done():
				return
			}
		}
		if s := time.Duration(atomic.LoadInt64(&stream)); s > 0 {
			// the header goes out at once, the body takes its time (a download, an event stream)
			io.WriteString(w, "upstream-")
			w.(http.Flusher).Flush()
			select {
			case <-time.After(s):
			case <-r.Context().Done():
				return
			}
			io.WriteString(w, "body")
			return
		}
		io.WriteString(w, "upstream-body")
	}))
	defer up.Close()
	upURL, _ := url.Parse(up.URL)
	defer transport.SetConfig(&config.Config{})
	hx.Check(t, hx.Scale(40, 300), func(t *rapid.T) {
		T := time.Duration(rapid.IntRange(150, 400).Draw(t, "T_ms")) * time.Millisecond
		slow := rapid.Bool().Draw(t, "slow")
		D := time.Duration(0)
		if slow {
			D = time.Duration(float64(T) * (2.5 + float64(rapid.IntRange(0, 15).Draw(t, "factor10"))/10))
		}
		cfg := genProxyCfg(t)
		cfg.Proxy.ResponseHeaderTimeout = T
		if cfg.Proxy.DialTimeout > 0 && cfg.Proxy.DialTimeout < time.Second {
			cfg.Proxy.DialTimeout = time.Second
		}
		kind := rapid.SampledFrom([]string{"default", "skip-verify"}).Draw(t, "kind")
		// the kind of request must not matter (event streams take their own branch in the handler)
		accept := rapid.SampledFrom([]string{"", "text/event-stream", "*/*", "text/html"}).Draw(t, "accept")
		method := rapid.SampledFrom([]string{"GET", "GET", "POST", "HEAD"}).Draw(t, "method")
		// other proxy features on the response path (compression) must not swallow the 504
		acceptEncoding := rapid.SampledFrom([]string{"", "gzip", "gzip, deflate"}).Draw(t, "accept-encoding")
		upgrade := rapid.SampledFrom([]string{"", "", "h2c", "TLS/1.0", "web"}).Draw(t, "upgrade-offer")
		early := rapid.IntRange(0, 3).Draw(t, "upstream-sends-103-first") == 0
		if early {
			atomic.StoreInt64(&earlyHints, 1)
			hx.Class("upstream-sends-103-then-the-rest")
		} else {
			atomic.StoreInt64(&earlyHints, 0)
		}
		// the limit is on the wait for the response header: an upstream that answers in time may take
		// longer than that (here 2.5-3.5 times the limit) to deliver its body
		atomic.StoreInt64(&stream, 0)
		if !slow && method != "HEAD" && rapid.Bool().Draw(t, "body-streams-longer-than-the-limit") {
			atomic.StoreInt64(&stream, int64(float64(T)*(2.5+float64(rapid.IntRange(0, 10).Draw(t, "stream10"))/10)))
			hx.Class("prompt-header-then-a-body-that-streams-longer-than-the-limit")
		}
		var pcfg config.Proxy
		if rapid.Bool().Draw(t, "gzip-configured") {
			pcfg.GZIPContentTypes = regexp.MustCompile(`^(text/.*|application/json)(;.*)?$`)
		}
		newReq := func() *http.Request {
			var body io.Reader
			if method == "POST" {
				body = strings.NewReader("payload")
			}
			req := httptest.NewRequest(method, "http://example.com/", body)
			req.RemoteAddr = "192.0.2.1:1234"
			if accept != "" {
				req.Header.Set("Accept", accept)
			}
			if acceptEncoding != "" {
				req.Header.Set("Accept-Encoding", acceptEncoding)
			}
			if upgrade != "" {
				// an upgrade offer that is not a websocket handshake (curl --http2 sends h2c): an ordinary request
				req.Header.Set("Upgrade", upgrade)
				req.Header.Set("Connection", "Upgrade, HTTP2-Settings")
				req.Header.Set("HTTP2-Settings", "AAMAAABkAAQCAAAAAAIAAAAA")
			}
			return req
		}
		run := func(T time.Duration) (int, string, time.Duration) {
			cfg.Proxy.ResponseHeaderTimeout = T
			transport.SetConfig(cfg)
			tg := &route.Target{Service: "svc", URL: upURL, TLSSkipVerify: kind == "skip-verify"}
			p := &proxy.HTTPProxy{
				Stats:             wire.Stats(),
				Config:            pcfg,
				Transport:         transport.NewTransport(nil),
				InsecureTransport: transport.NewTransport(&tls.Config{InsecureSkipVerify: true}),
				Lookup:            func(*http.Request) *route.Target { return tg },
			}
			atomic.StoreInt64(&delay, int64(D))
			rec := &finalRecorder{ResponseRecorder: httptest.NewRecorder()}
			req := newReq()
			start := time.Now()
			p.ServeHTTP(rec, req)
			body := rec.Body.String()
			if rec.Header().Get("Content-Encoding") == "gzip" {
				if zr, err := gzip.NewReader(rec.Body); err == nil {
					b, _ := io.ReadAll(zr)
					body = string(b)
				}
			}
			return rec.Code, body, time.Since(start)
		}
		// more simultaneous requests than idle connections per host must not queue behind each other
		if slow && rapid.Bool().Draw(t, "burst") {
			cfg.Proxy.MaxConn = rapid.IntRange(1, 2).Draw(t, "maxconn_small")
			if T < 300*time.Millisecond {
				T += 200 * time.Millisecond // queueing behind K/maxconn rounds must stand out from the slack
				D = T * 3
			}
			cfg.Proxy.ResponseHeaderTimeout = T
			transport.SetConfig(cfg)
			tg := &route.Target{Service: "svc", URL: upURL}
			p := &proxy.HTTPProxy{Stats: wire.Stats(), Config: pcfg, Transport: transport.NewTransport(nil), InsecureTransport: transport.NewTransport(&tls.Config{InsecureSkipVerify: true}), Lookup: func(*http.Request) *route.Target { return tg }}
			atomic.StoreInt64(&delay, int64(D))
			const K = 16
			type r struct {
				code int
				took time.Duration
			}
			res := make(chan r, K)
			for i := 0; i < K; i++ {
				go func() {
					rec := &finalRecorder{ResponseRecorder: httptest.NewRecorder()}
					req := newReq()
					t0 := time.Now()
					p.ServeHTTP(rec, req)
					res <- r{rec.Code, time.Since(t0)}
				}()
			}
			for i := 0; i < K; i++ {
				x := <-res
				hx.Eval()
				if x.code != 504 || x.took > T+1000*time.Millisecond {
					t.Fatalf("%d simultaneous requests to a slow upstream with proxy.maxconn=%d: one was answered %d after %v, want 504 after about %v", K, cfg.Proxy.MaxConn, x.code, x.took, T)
				}
			}
			hx.Class("slow-upstream:burst-above-maxconn")
		}
		code, body, took := run(T)
		hx.Eval()
		ctx := fmt.Sprintf("responseheadertimeout=%v upstream delay=%v transport=%s request=%s Accept=%q Accept-Encoding=%q Upgrade=%q 103-first=%v gzip-configured=%v (%s)", T, D, kind, method, accept, acceptEncoding, upgrade, early, pcfg.GZIPContentTypes != nil, describe(cfg))
		if slow {
			if code != 504 {
				t.Fatalf("upstream answers after %v but the client got %d after %v, want 504\n%s", D, code, took, ctx)
			}
			if took > T+1500*time.Millisecond {
				t.Fatalf("504 after %v, configured response-header timeout %v\n%s", took, T, ctx)
			}
			hx.Class("slow-upstream:504")
			if accept == "text/event-stream" {
				hx.Class("slow-upstream:504:event-stream-request")
			}
		} else {
			// a loaded machine can make a prompt upstream look slow: retry with doubled limits before reporting
			for i := 0; i < 2 && code == 504; i++ {
				T *= 2
				code, body, took = run(T)
			}
			if method == "HEAD" {
				body = "upstream-body" // no body on HEAD
			}
			if code != 200 || body != "upstream-body" {
				t.Fatalf("prompt upstream not served normally: %d %q after %v\n%s", code, body, took, ctx)
			}
			hx.Class("prompt-upstream:200")
		}
		hx.NonTrivial(ctx)
	})
}

// finalRecorder records the final status: informational responses pass by, as they do on a connection.
type finalRecorder struct {
	*httptest.ResponseRecorder
}

func (r *finalRecorder) WriteHeader(code int) {
	if code >= 100 && code < 200 && code != http.StatusSwitchingProtocols {
		return
	}
	r.ResponseRecorder.WriteHeader(code)
}

// dial timeout: a connect to a listener whose accept queue is full stalls and
// must give up after about the configured time.
func TestC19DialTimeout(t *testing.T) {
	fd, err := syscall.Socket(syscall.AF_INET, syscall.SOCK_STREAM, 0)
	if err != nil {
		t.Skip("no raw socket: " + err.Error())
	}
	defer syscall.Close(fd)
	if err := syscall.Bind(fd, &syscall.SockaddrInet4{Addr: [4]byte{127, 0, 0, 1}}); err != nil {
		t.Skip(err.Error())
	}
	if err := syscall.Listen(fd, 0); err != nil {
		t.Skip(err.Error())
	}
	sa, _ := syscall.Getsockname(fd)
	addr := fmt.Sprintf("127.0.0.1:%d", sa.(*syscall.SockaddrInet4).Port)
	// fill the accept queue (never accepted)
	var keep []net.Conn
	defer func() {
		for _, c := range keep {
			c.Close()
		}
	}()
	stalled := false
	for i := 0; i < 8; i++ {
		c, err := net.DialTimeout("tcp", addr, 300*time.Millisecond)
		if err != nil {
			stalled = true
			break
		}
		keep = append(keep, c)
	}
	if !stalled {
		hx.Note("dial-timeout sub-check skipped: the kernel does not stall connects to a full accept queue here")
		t.Skip("kernel does not stall the SYN")
	}
	defer transport.SetConfig(&config.Config{})
	hx.Check(t, hx.Scale(8, 60), func(t *rapid.T) {
		cfg := genProxyCfg(t)
		T := time.Duration(rapid.IntRange(150, 500).Draw(t, "dial_ms")) * time.Millisecond
		cfg.Proxy.DialTimeout = T
		transport.SetConfig(cfg)
		tr := transport.NewTransport(nil)
		start := time.Now()
		type dialRes struct {
			c   net.Conn
			err error
		}
		ch := make(chan dialRes, 1)
		go func() {
			c, err := tr.Dial("tcp", addr)
			ch <- dialRes{c, err}
		}()
		var c net.Conn
		var err error
		select {
		case r := <-ch:
			c, err = r.c, r.err
		case <-time.After(T + 3*time.Second):
			t.Fatalf("dial still pending %v after the configured dial timeout %v", 3*time.Second, T)
		}
		took := time.Since(start)
		hx.Eval()
		if err == nil {
			c.Close()
			t.Skip("connect succeeded: queue drained")
		}
		if took < T*8/10 || took > T+2*time.Second {
			t.Fatalf("dial gave up after %v, configured dial timeout %v (%v)", took, T, err)
		}
		hx.NonTrivial(fmt.Sprintf("dial|%v", T))
		hx.Class("dial-timeout-observed")
	})
}
