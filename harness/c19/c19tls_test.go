package c19

import (
	"bufio"
	"crypto/tls"
	"fmt"
	"net/http"
	"net/http/httptest"
	"net/url"
	"testing"
	"time"

	"github.com/fabiolb/fabio/config"
	"github.com/fabiolb/fabio/proxy"
	"github.com/fabiolb/fabio/route"
	"github.com/fabiolb/fabio/transport"
	"pgregory.net/rapid"

	"verifharness/hx"
	"verifharness/wire"
)

// The dial timeout is about establishing the connection, the response-header timeout about the
// wait for the answer.  An https upstream that accepts at once, is slow with its TLS handshake
// (longer than proxy.dialtimeout) and then answers well inside proxy.responseheadertimeout is
// served normally.
func TestC19SlowTLSHandshakeIsNotADialTimeout(t *testing.T) {
	crt := httptest.NewTLSServer(nil) // only for its certificate
	cert := crt.TLS.Certificates[0]
	crt.Close()
	defer transport.SetConfig(&config.Config{})
	hx.Check(t, hx.Scale(3, 24), func(t *rapid.T) {
		dial := time.Duration(rapid.IntRange(200, 400).Draw(t, "dialtimeout_ms")) * time.Millisecond
		lag := 2 * dial // the handshake starts this late
		ln, err := hx.Listen("tcp", "127.0.0.1:0")
		if err != nil {
			t.Fatalf("VERIF-INCONCLUSIVE %v", err)
		}
		defer ln.Close()
		go func() {
			for {
				c, err := ln.Accept()
				if err != nil {
					return
				}
				go func() {
					defer c.Close()
					time.Sleep(lag)
					tc := tls.Server(c, &tls.Config{Certificates: []tls.Certificate{cert}})
					tc.SetDeadline(time.Now().Add(10 * time.Second))
					if err := tc.Handshake(); err != nil {
						return
					}
					if _, err := http.ReadRequest(bufio.NewReader(tc)); err != nil {
						return
					}
					fmt.Fprint(tc, "HTTP/1.1 200 OK\r\nContent-Length: 13\r\nConnection: close\r\n\r\nupstream-body")
				}()
			}
		}()
		cfg := &config.Config{}
		cfg.Proxy.DialTimeout = dial
		cfg.Proxy.ResponseHeaderTimeout = 10 * dial
		transport.SetConfig(cfg)
		// (the small end of the draw: the route's own transport, host= on an https upstream)
		perRoute := rapid.IntRange(0, 2).Draw(t, "skip-verify-transport-instead") != 2
		tg := &route.Target{Service: "svc", URL: &url.URL{Scheme: "https", Host: ln.Addr().String()}, TLSSkipVerify: true}
		if perRoute {
			tg.Transport = transport.NewTransport(&tls.Config{ServerName: "example.com", InsecureSkipVerify: true})
		}
		p := &proxy.HTTPProxy{Stats: wire.Stats(), Transport: transport.NewTransport(nil), InsecureTransport: transport.NewTransport(&tls.Config{InsecureSkipVerify: true}),
			Lookup: func(*http.Request) *route.Target { return tg }}
		req := httptest.NewRequest("GET", "http://example.com/", nil)
		req.RemoteAddr = "192.0.2.1:1234"
		rec := &finalRecorder{ResponseRecorder: httptest.NewRecorder()}
		start := time.Now()
		p.ServeHTTP(rec, req)
		hx.Eval()
		if rec.Code != 200 || rec.Body.String() != "upstream-body" {
			t.Fatalf("https upstream that starts its TLS handshake %v after accepting (proxy.dialtimeout=%v, proxy.responseheadertimeout=%v, route's own transport: %v): answered %d %q after %v, want 200", lag, dial, 10*dial, perRoute, rec.Code, rec.Body.String(), time.Since(start).Round(time.Millisecond))
		}
		hx.Class("slow-tls-handshake-inside-the-limits")
		hx.NonTrivial(fmt.Sprintf("slowtls|%v|%v", dial, perRoute))
	})
}
