package c14

import (
	"bytes"
	"fmt"
	"math"
	"net"
	"reflect"
	"strconv"
	"strings"
	"sync"
	"testing"

	"github.com/fabiolb/fabio/registry/consul"
	"github.com/fabiolb/fabio/route"
	"github.com/hashicorp/consul/api"
	"pgregory.net/rapid"

	"verifharness/hx"
	"verifharness/wire"
)

// (the metrics provider of the process - discard, prometheus or statsd_raw by shard - names a
// timer after every route the tables get, as in a running fabio)
func TestMain(m *testing.M) { wire.Init(true); hx.Main(m) }

const prefix = "urlprefix-"

// ---------------------------------------------------------------------------
// a generated registration and what it denotes

type routeTag struct {
	host, path string // as written in the tag
	opts       []string
	text       string
	// denotation (filled by the generator)
	proto       string
	weight      string // "" = none
	redirect    string // url
	redirCode   string
	plainOpts   []string // options passed through to 'opts'
	expressible bool
}

type registration struct {
	name        string
	svcAddr     string
	nodeAddr    string
	port        int
	routeTags   []routeTag
	otherTags   []string
	expressible bool // name and other tags can be written in the command language
	odd         bool // contains something outside [A-Za-z0-9._/:=-]
}

var oddNames = []string{"svc with space", "svc\ttab", "", "svc\"quote", "ünï-svc", "svc\\back", "svc'q", "svc\nnl", "a", "route", "tags"}
var plainNames = []string{"web", "api-v2", "my.service", "db_1", "svc-a"}
var oddTags = []string{`has"quote`, `back\slash`, "ünïcode", "with space", " padded ", "tab\there", "new\nline", "new\nroute add evil / http://evil/", "comma,inside", `"`, `\`, "", "'single'", "emoji-🚀", "ctrl-\x01", "a=b", "#hash", "tags", "opts \"x\""}
var plainTags = []string{"v1", "blue", "prod", "dc1", "canary-2"}

func genRouteTag(t *rapid.T) routeTag {
	rt := routeTag{proto: "http", expressible: true}
	if rapid.IntRange(0, 5).Draw(t, "tcp") == 0 {
		rt.host = ":" + strconv.Itoa(rapid.IntRange(1, 65535).Draw(t, "port"))
	} else {
		rt.host = rapid.SampledFrom([]string{"", "", "example.com", "Example.COM", "api.example.com:8443", "*.example.com", "$DC.example.com", "${DC}.x", "[v2.example.com", "{a.example.com", "v[12].example.com", "a{b,c}.example.com", "a\\b.example.com"}).Draw(t, "host")
		rt.path = rapid.SampledFrom([]string{"/", "/a", "/A", "/a/b", "/Foo", "/foo", "/FOO", "/ü", "/a*", "/[a", "/{x", "/a b"[:2], "/$DC/x"}).Draw(t, "path")
	}
	for i, n := 0, rapid.IntRange(0, 3).Draw(t, "nopts"); i < n; i++ {
		switch rapid.IntRange(0, 9).Draw(t, "optkind") {
		case 0:
			p := rapid.SampledFrom([]string{"tcp", "https", "grpc", "grpcs", "http", "bogus"}).Draw(t, "proto")
			rt.opts = append(rt.opts, "proto="+p)
		case 1:
			w := rapid.SampledFrom([]string{"0.5", "0.25", "1", "0", "abc", "Inf", "NaN", "-1", "1e308", "0,5", "", "0.1.2"}).Draw(t, "weight")
			rt.opts = append(rt.opts, "weight="+w)
		case 2:
			rt.opts = append(rt.opts, "strip="+rapid.SampledFrom([]string{"/a", "/foo", ""}).Draw(t, "strip"))
		case 3:
			rt.opts = append(rt.opts, "prepend="+rapid.SampledFrom([]string{"/p", "/x/y"}).Draw(t, "prepend"))
		case 4:
			rt.opts = append(rt.opts, "host="+rapid.SampledFrom([]string{"dst", "internal.example"}).Draw(t, "hostopt"))
		case 5:
			rt.opts = append(rt.opts, "redirect="+rapid.SampledFrom([]string{"301,https://www.example.com$path", "302,http://h/x", "301", "abc,http://h/", "301,http://%zz/", "308,https://$host$path", "301,/new", "302,/a/b?x=1", "307,//other.example/p"}).Draw(t, "redirect"))
		case 6:
			rt.opts = append(rt.opts, rapid.SampledFrom([]string{"allow=ip:10.0.0.0/8", "pxyproto=true", "register=alias", "tlsskipverify=true", "auth=basic1",
				// access rules an operator may get wrong: they may close the route, they must not hurt anybody else
				"allow=10.0.0.0/8", "deny=ip:1.2.3.4,", "allow=ip:", "allow=", "deny=ip:10.0.0.0/33", "allow=ip:1.2.3.4,10.0.0.1", "deny=,"}).Draw(t, "known"))
		case 7:
			rt.opts = append(rt.opts, rapid.SampledFrom([]string{`q="x"`, `"`, `a\b`, "ü=é", "flag", "k=v=w", "=", "x="}).Draw(t, "oddopt"))
		default:
			rt.opts = append(rt.opts, "tag"+strconv.Itoa(i)+"=v")
		}
	}
	rt.text = prefix + rt.host + rt.path
	if len(rt.opts) > 0 {
		rt.text += " " + strings.Join(rt.opts, " ")
	}
	// denotation: mirrors the documentation of the urlprefix- tag options
	for _, o := range rt.opts {
		switch {
		case o == "proto=tcp" || o == "proto=https" || o == "proto=grpc" || o == "proto=grpcs":
			rt.proto = o[len("proto="):]
			rt.redirect = ""
		case strings.HasPrefix(o, "weight="):
			rt.weight = o[len("weight="):]
		case strings.HasPrefix(o, "redirect="):
			p := strings.Split(o[len("redirect="):], ",")
			if len(p) == 2 {
				rt.redirCode, rt.redirect = p[0], p[1]
				rt.plainOpts = append(rt.plainOpts, "redirect="+p[0])
			} // otherwise the option is ignored (documented: needs <code>,<url>)
		default:
			rt.plainOpts = append(rt.plainOpts, o)
		}
	}
	if rt.weight != "" {
		f, err := strconv.ParseFloat(rt.weight, 64)
		if err != nil || math.IsInf(f, 0) || math.IsNaN(f) {
			rt.expressible = false
		}
	}
	for _, o := range rt.plainOpts {
		if strings.Contains(o, `"`) {
			rt.expressible = false
		}
	}
	if strings.ContainsAny(rt.path, "[{") || strings.ContainsAny(rt.host, "[{\\") || strings.Contains(rt.redirect, "%zz") {
		rt.expressible = false // judged by the parser/table, not by the harness
	}
	return rt
}

func genRegistration(t *rapid.T, forcePlain bool) registration {
	r := registration{expressible: true}
	if !forcePlain && rapid.IntRange(0, 3).Draw(t, "oddname") == 0 {
		r.name = rapid.SampledFrom(oddNames).Draw(t, "name")
	} else {
		r.name = rapid.SampledFrom(plainNames).Draw(t, "name")
	}
	if r.name == "" || strings.ContainsAny(r.name, " \t\n") {
		r.expressible = false
	}
	r.svcAddr = rapid.SampledFrom([]string{"10.0.0.5", "", "2001:db8::5", "backend.internal", "192.168.1.9"}).Draw(t, "svcaddr")
	r.nodeAddr = rapid.SampledFrom([]string{"10.9.9.9", "fd00::9", "node1.internal"}).Draw(t, "nodeaddr")
	r.port = rapid.IntRange(1, 65535).Draw(t, "port")
	for i, n := 0, rapid.IntRange(1, 3).Draw(t, "nroutetags"); i < n; i++ {
		r.routeTags = append(r.routeTags, genRouteTag(t))
	}
	for i, n := 0, rapid.IntRange(0, 4).Draw(t, "nother"); i < n; i++ {
		if !forcePlain && rapid.IntRange(0, 2).Draw(t, "oddtag") == 0 {
			r.otherTags = append(r.otherTags, rapid.SampledFrom(oddTags).Draw(t, "tag"))
		} else {
			r.otherTags = append(r.otherTags, rapid.SampledFrom(plainTags).Draw(t, "tag"))
		}
	}
	for _, tg := range r.otherTags {
		if strings.Contains(tg, `"`) || strings.Contains(strings.TrimSpace(tg), "\n") {
			r.expressible = false
		}
	}
	all := r.name + strings.Join(r.otherTags, "")
	for _, rt := range r.routeTags {
		all += strings.Join(rt.opts, "")
	}
	for _, c := range all {
		if !(c >= 'a' && c <= 'z' || c >= 'A' && c <= 'Z' || c >= '0' && c <= '9' || strings.ContainsRune("._/:=-,$*", c)) {
			r.odd = true
		}
	}
	for _, rt := range r.routeTags {
		if rt.weight != "" {
			if _, err := strconv.ParseFloat(rt.weight, 64); err != nil {
				r.odd = true
			}
		}
	}
	return r
}

func (r registration) catalog() *api.CatalogService {
	var tags []string
	for _, rt := range r.routeTags {
		tags = append(tags, rt.text)
	}
	tags = append(tags, r.otherTags...)
	return &api.CatalogService{ServiceName: r.name, ServiceAddress: r.svcAddr, Address: r.nodeAddr, ServicePort: r.port, ServiceTags: tags, Node: "node1", ServiceID: r.name + "-1"}
}

func (r registration) addr() string {
	a := r.svcAddr
	if a == "" {
		a = r.nodeAddr
	}
	return net.JoinHostPort(a, strconv.Itoa(r.port))
}

// wantDst: the destination the documentation prescribes for the tag.
func (r registration) wantDst(rt routeTag) string {
	if rt.redirect != "" {
		return rt.redirect
	}
	switch rt.proto {
	case "tcp", "https", "grpc", "grpcs":
		return rt.proto + "://" + r.addr()
	}
	return "http://" + r.addr() + "/"
}

func (r registration) wantSrc(rt routeTag, dc string) string {
	exp := func(s string) string {
		s = strings.ReplaceAll(s, "${DC}", dc)
		return strings.ReplaceAll(s, "$DC", dc)
	}
	if strings.HasPrefix(rt.host, ":") {
		return rt.host
	}
	return strings.ToLower(exp(rt.host)) + exp(rt.path)
}

// wantTags: the non-route tags as the command language can carry them
// (trimmed, comma separated: a comma inside a tag splits it).
func (r registration) wantTags() []string {
	var tags []string
	for _, t := range r.otherTags {
		tags = append(tags, strings.TrimSpace(t))
	}
	if len(tags) == 0 {
		return nil
	}
	if strings.Join(tags, ",") == "" {
		return nil // 'tags ""' is the language's way of saying "no tags"
	}
	var out []string
	for _, p := range strings.Split(strings.Join(tags, ","), ",") {
		out = append(out, strings.TrimSpace(p))
	}
	return out
}

func optsMap(opts []string) map[string]string {
	if len(opts) == 0 {
		return nil
	}
	m := map[string]string{}
	for _, o := range opts {
		p := strings.SplitN(o, "=", 2)
		if len(p) == 2 {
			m[p[0]] = p[1]
		} else {
			m[o] = ""
		}
	}
	return m
}

// checkCommands: every emitted command parses to exactly one 'route add'
// denoting one of the registration's route tags; expressible tags of an
// expressible registration are all present.
func checkCommands(fatalf func(string, ...any), r registration, cmds []string, dc string) (emitted int) {
	ctx := fmt.Sprintf("registration: name=%q addr=%q node=%q port=%d tags=%q\ncommands: %q", r.name, r.svcAddr, r.nodeAddr, r.port, r.catalog().ServiceTags, cmds)
	matched := make([]bool, len(r.routeTags))
	for _, c := range cmds {
		defs, err := route.Parse(bytes.NewBufferString(c))
		if err != nil {
			fatalf("fabio's parser rejects a command fabio generated: %v\ncommand: %q\n%s", err, c, ctx)
		}
		if len(defs) != 1 || defs[0].Cmd != route.RouteAddCmd {
			fatalf("generated text %q is not exactly one 'route add' (%d commands)\n%s", c, len(defs), ctx)
		}
		d := defs[0]
		if _, err := route.NewTable(bytes.NewBufferString(c)); err != nil {
			fatalf("generated command cannot be added to a table: %v\ncommand: %q\n%s", err, c, ctx)
		}
		found := false
		for i, rt := range r.routeTags {
			if matched[i] || d.Src != r.wantSrc(rt, dc) {
				continue
			}
			w := 0.0
			if rt.weight != "" {
				var err error
				if w, err = strconv.ParseFloat(rt.weight, 64); err != nil {
					continue // a tag with such a weight cannot be what a command denotes
				}
			}
			if d.Service == r.name && d.Dst == r.wantDst(rt) && d.Weight == w && reflect.DeepEqual(d.Tags, r.wantTags()) && reflect.DeepEqual(d.Opts, optsMap(rt.plainOpts)) {
				matched[i], found = true, true
				break
			}
		}
		if !found {
			fatalf("generated command does not denote any route tag of the registration\ncommand: %q\nparsed: service=%q src=%q dst=%q weight=%v tags=%q opts=%v\nwant tags %q\n%s", c, d.Service, d.Src, d.Dst, d.Weight, d.Tags, d.Opts, r.wantTags(), ctx)
		}
		emitted++
	}
	// must-emit is asserted for registrations made of plain characters only;
	// for odd ones dropping is allowed, emitting something wrong is not
	if r.expressible && !r.odd {
		for i, rt := range r.routeTags {
			if rt.expressible && !matched[i] {
				fatalf("well-formed route tag %q produced no command\n%s", rt.text, ctx)
			}
		}
	}
	return
}

func TestC14Commands(t *testing.T) {
	hx.Check(t, hx.Scale(80000, 1000000), func(t *rapid.T) {
		dc := "dc1"
		odd := genRegistration(t, false)
		var neighbours []registration
		for i, n := 0, rapid.IntRange(0, 3).Draw(t, "nneighbours"); i < n; i++ {
			nb := genRegistration(t, true)
			nb.name = fmt.Sprintf("%s-n%d", nb.name, i)
			neighbours = append(neighbours, nb)
		}
		hx.Eval()
		var all []string
		cmds := consul.VerifRouteCmds(odd.catalog(), prefix, map[string]string{"DC": dc})
		checkCommands(func(f string, a ...any) { t.Fatalf(f, a...) }, odd, cmds, dc)
		all = append(all, cmds...)
		want := map[string]bool{}
		for _, nb := range neighbours {
			c := consul.VerifRouteCmds(nb.catalog(), prefix, map[string]string{"DC": dc})
			checkCommands(func(f string, a ...any) { t.Fatalf(f, a...) }, nb, c, dc)
			all = append(all, c...)
			for _, rt := range nb.routeTags {
				if rt.expressible {
					want[nb.name+"|"+nb.wantSrc(rt, dc)] = true
				}
			}
		}
		// the combined service configuration is a valid table containing every neighbour
		tbl, err := route.NewTable(bytes.NewBufferString(strings.Join(all, "\n")))
		if err != nil {
			t.Fatalf("the route commands of %d services do not form a valid table: %v\nodd registration: %q %q\ncommands:\n%s", 1+len(neighbours), err, odd.name, odd.catalog().ServiceTags, strings.Join(all, "\n"))
		}
		have := map[string]bool{}
		for h, rs := range tbl {
			for _, r := range rs {
				for _, tg := range r.Targets {
					have[tg.Service+"|"+h+r.Path] = true
				}
			}
		}
		for k := range want {
			if !have[k] {
				t.Fatalf("route %s of a well-formed neighbour is missing from the table\ncommands:\n%s", k, strings.Join(all, "\n"))
			}
		}
		if odd.odd {
			hx.NonTrivial(fmt.Sprintf("%q|%q|%d", odd.name, odd.catalog().ServiceTags, len(neighbours)))
			hx.Class("nontrivial")
		}
		if !odd.expressible {
			hx.Class("inexpressible-registration")
		}
		if len(cmds) == 0 {
			hx.Class("dropped-entirely")
		}
		if hx.WantSample("registration") && odd.odd && len(cmds) > 0 {
			hx.Sample("registration", map[string]any{"name": odd.name, "tags": odd.catalog().ServiceTags, "commands": cmds})
		}
	})
}

// TestC14ConcurrentBuild: fabio derives the commands of several services at the
// same time (registry.consul.serviceMonitors > 1).  What a registration yields
// must not depend on what is being derived next to it: the commands computed
// by concurrent workers equal the ones computed one after the other.
func TestC14ConcurrentBuild(t *testing.T) {
	hx.Check(t, hx.Scale(150, 3000), func(t *rapid.T) {
		env := map[string]string{"DC": "dc1"}
		n := rapid.IntRange(8, 48).Draw(t, "services")
		regs := make([]registration, n)
		seq := make([][]string, n)
		for i := range regs {
			regs[i] = genRegistration(t, rapid.IntRange(0, 2).Draw(t, "plain") > 0)
			regs[i].name = fmt.Sprintf("%s-%d", regs[i].name, i)
			seq[i] = consul.VerifRouteCmds(regs[i].catalog(), prefix, env)
		}
		workers := rapid.IntRange(2, 16).Draw(t, "monitors")
		rounds := rapid.IntRange(1, 4).Draw(t, "rounds")
		for round := 0; round < rounds; round++ {
			conc := make([][]string, n)
			var wg sync.WaitGroup
			start := make(chan struct{})
			for w := 0; w < workers; w++ {
				wg.Add(1)
				go func(w int) {
					defer wg.Done()
					<-start
					for i := w; i < n; i += workers {
						conc[i] = consul.VerifRouteCmds(regs[i].catalog(), prefix, env)
					}
				}(w)
			}
			close(start)
			wg.Wait()
			hx.EvalN(n)
			for i := range regs {
				if !reflect.DeepEqual(seq[i], conc[i]) {
					t.Fatalf("%d monitors deriving %d services at once: service %q (tags %q) yields\n%q\nbut alone it yields\n%q", workers, n, regs[i].name, regs[i].catalog().ServiceTags, conc[i], seq[i])
				}
			}
		}
		total := 0
		for _, c := range seq {
			total += len(c)
		}
		if total >= workers {
			hx.NonTrivial(fmt.Sprintf("conc|%d|%d|%d|%q", n, workers, total, regs[0].catalog().ServiceTags))
			hx.Class("concurrent-derivation")
		}
	})
}
