package c02

import (
	"bytes"
	"crypto/tls"
	"fmt"
	"math"
	"net/http"
	"net/url"
	"strings"
	"testing"

	"github.com/fabiolb/fabio/route"
	"pgregory.net/rapid"

	"verifharness/hx"
	"verifharness/wire"
)

func TestMain(m *testing.M) { wire.Init(false); hx.Main(m) }

// ---------------------------------------------------------------------------
// (a) no configuration text can crash table construction or the lookups on
// the table it produces, and a text is never accepted partially.

var hostileWeights = []string{"Inf", "-Inf", "+Inf", "inf", "Infinity", "NaN", "nan", "1e308", "1.7976931348623157e308", "5e-324", "1e-320", "-0", "1e400", "0x1p-3", "0x1p1023", "1e-400", "9999999999999999999999", "-1e308", "1e-5", "0.00001", "1_0", "١", ""}
var saneWeights = []string{"0.5", "0.25", "1", "0", "0.1", "2", "-1"}
var hostileHosts = []string{"a@b.com", "a|b.com", "[a", "{a,b", "a{", `\`, "*", "**", "?", "[!a]", "[a-", "{", `a\`, "[]", "[^]", "[::1]", "[::1", "a[b]c", "{a,b}.com", "*.{", "\x00", "\xff\xfe", "h x", "é.com", "*.*.*", "a:b:c", ":80", ":", "::", "-", ".", "a..b", "[a][", "{{}}", "{,}", "[\\]", "*[", "?{"}
var saneHosts = []string{"", "foo.com", "*.foo.com", "bar.com:8080", "Foo.COM"}
var hostilePaths = []string{"/@me", "/a|b", "/a@b|c:d", "/~user@host", "/[a", "/{x", `/a\`, "/**", "/?", "/{a,b}", "/[", "/]", "/{", "/a{b", "/\x00", "/\xff", "/%zz", "/[!", "/[a-", "/*[", "/{,", "/\\", "/[\\"}
var sanePaths = []string{"/", "/a", "/a/b", "/x*"}
var hostileDsts = []string{"http://[::1", "%zz", "http://h:1/\x7f", "tcp://:0", ":1", "//", "http://h:99999/", "http://%41/", "http://h/%zz", "http://h:1/$path", "https://$host$path", "http://[fe80::1%25eth0]:80/", "http://user:pass@h:1/", "h:1", "/only/path", "http://h:x/", "http://", "?", "#", "http://h:1/?a=%zz", "ht!tp://x", "\x00", "http://\xff/", "http://h:1/#frag", "1://x"}
var saneDsts = []string{"http://10.0.0.1:80/", "https://h.example:443/", "tcp://10.0.0.2:5000", "http://10.0.0.3:8080/base?x=1"}
var hostileOpts = []string{"redirect=abc", "redirect=99999999999999999999", "redirect=301", "redirect=299", "redirect=-1", "allow=ip:10.0.0.0/33", "allow=ip:", "allow=", "allow=x", "deny=ip:1.2.3.4,ip:::1/129", "allow=ip:1.2.3.4 deny=ip:1.2.3.4", "strip=", "host=dst proto=https", "host=x proto=https", "=x", "=", "proto=", "tlsskipverify=TRUE", "pxyproto=true", "auth=", "auth=nope", "register=", "k=\x00", "\xff=\xfe", "strip=/a prepend=/b", "weight=Inf"}
var hostileTags = []string{"", ",", ",,", "a,,b", " a , b ", `\`, `a\"b`, "\x00", "\xff", "ü,é", "tags", "opts"}
var services = []string{"svc-a", "svc-b", "tags", "weight", "opts", "svc\x00", "svc\xff", `svc"q`, "svc\\", "サービス", "*"}

type gen struct {
	t       *rapid.T
	hostile int
	cmds    int
}

func (g *gen) pick(label string, sane, hostile []string, pHostile int) string {
	if rapid.IntRange(0, 99).Draw(g.t, label+"?") < pHostile {
		g.hostile++
		return rapid.SampledFrom(hostile).Draw(g.t, label+"!")
	}
	return rapid.SampledFrom(sane).Draw(g.t, label)
}

func (g *gen) sp() string {
	return rapid.SampledFrom([]string{" ", " ", " ", "  ", "\t"}).Draw(g.t, "sp")
}

func (g *gen) src() string {
	return g.pick("host", saneHosts, hostileHosts, 25) + g.pick("path", sanePaths, hostilePaths, 15)
}

func (g *gen) line() string {
	t := g.t
	switch rapid.IntRange(0, 19).Draw(t, "linekind") {
	case 0:
		return rapid.SampledFrom([]string{"", "   ", "# comment", "// comment", "#", "\t"}).Draw(t, "blank")
	case 1: // junk
		g.hostile++
		return rapid.SampledFrom([]string{"route", "route add", "route  add   x", "route del", "route weight", "rout add a b c", "route add a b", "route add a b c d",
			"route add a b c weight", "route add a b c tags", `route add a b c tags "`, `route add a b c opts "x`, "route del a b c d", "route weight a weight 1",
			"route\tadd\ta\t/\thttp://h:1/", "ROUTE ADD a / http://h:1/", "route add a / http://h:1/ weight 1 weight 2", "\x00", "\xff\xfe\xfd", "route add \x00 / http://h:1/"}).Draw(t, "junk")
	case 2: // very long line (the scanner's default token limit is 64 KiB)
		g.hostile++
		n := rapid.SampledFrom([]int{65535, 65536, 65537, 70000, 131072, 300000}).Draw(t, "longlen")
		switch rapid.IntRange(0, 2).Draw(t, "longkind") {
		case 0:
			return "# " + strings.Repeat("x", n)
		case 1:
			return `route add svc-long /long http://10.9.9.9:80/ tags "` + strings.Repeat("t", n) + `"`
		default:
			return "route add svc-long /" + strings.Repeat("p", n) + " http://10.9.9.9:80/"
		}
	case 3, 4, 5: // del
		g.cmds++
		s := "route" + g.sp() + "del" + g.sp() + g.pick("svc", services[:2], services, 20)
		switch rapid.IntRange(0, 3).Draw(t, "delform") {
		case 1:
			s += g.sp() + g.src()
		case 2:
			s += g.sp() + g.src() + g.sp() + g.pick("dst", saneDsts, hostileDsts, 30)
		case 3:
			s += g.sp() + `tags "` + g.pick("tags", []string{"a", "a,b"}, hostileTags, 30) + `"`
		}
		return s
	case 6, 7, 8: // weight
		g.cmds++
		s := "route" + g.sp() + "weight" + g.sp()
		if rapid.Bool().Draw(t, "wsvc") {
			s += g.pick("svc", services[:2], services, 20) + g.sp()
		}
		s += g.src() + g.sp() + "weight" + g.sp() + g.pick("weight", saneWeights, hostileWeights, 60)
		if rapid.Bool().Draw(t, "wtags") {
			s += g.sp() + `tags "` + g.pick("tags", []string{"a", "a,b"}, hostileTags, 30) + `"`
		}
		return s
	default: // add
		g.cmds++
		s := "route" + g.sp() + "add" + g.sp() + g.pick("svc", services[:2], services, 20) + g.sp() + g.src() + g.sp() + g.pick("dst", saneDsts, hostileDsts, 25)
		if rapid.IntRange(0, 2).Draw(t, "hasw") > 0 {
			s += g.sp() + "weight" + g.sp() + g.pick("weight", saneWeights, hostileWeights, 60)
		}
		if rapid.IntRange(0, 2).Draw(t, "hastags") == 0 {
			s += g.sp() + `tags "` + g.pick("tags", []string{"a", "a,b"}, hostileTags, 30) + `"`
		}
		if rapid.IntRange(0, 2).Draw(t, "hasopts") == 0 {
			s += g.sp() + `opts "` + g.pick("opts", []string{"strip=/a", "proto=https"}, hostileOpts, 60) + `"`
		}
		return s
	}
}

const sentinel = "route add zz-sentinel zz-sentinel.example/zz-sentinel http://sentinel:1/"

func hasSentinel(tbl route.Table) bool {
	for _, r := range tbl["zz-sentinel.example"] {
		if r.Path == "/zz-sentinel" {
			for _, tg := range r.Targets {
				if tg.Service == "zz-sentinel" {
					return true
				}
			}
		}
	}
	return false
}

// guard runs f and converts a panic into an error string.
func guard(f func()) (p any) {
	defer func() { p = recover() }()
	f()
	return nil
}

// exercise performs lookups with every picker x matcher x glob on/off on
// every host of the table (and on an instance of every wildcard).
func exercise(tbl route.Table) (lookups int) {
	_ = tbl.String()
	_ = tbl.Dump()
	cache := route.NewGlobCache(3)
	for h, rs := range tbl {
		hostsToTry := []string{h, strings.ToUpper(h), strings.Replace(h, "*", "x", -1), "unrelated.example"}
		for _, r := range rs {
			for _, p := range []string{r.Path, r.Path + "/x", "/"} {
				for _, hh := range hostsToTry {
					for pn := range route.Picker {
						for mn := range route.Matcher {
							for _, gd := range []bool{false, true} {
								for _, useTLS := range []bool{false, true} {
									req := &http.Request{Host: hh, URL: &url.URL{Path: p}, Header: http.Header{}}
									if useTLS {
										req.TLS = &tls.ConnectionState{}
									}
									tbl.Lookup(req, "", route.Picker[pn], route.Matcher[mn], cache, gd)
									lookups++
								}
							}
						}
					}
				}
			}
		}
		tbl.LookupHost(h, route.Picker["rr"])
		tbl.LookupHost(h, route.Picker["rnd"])
	}
	return
}

func checkText(fail func(format string, args ...any), text string) (accepted bool, lookups int) {
	var tbl route.Table
	var err error
	if p := guard(func() { tbl, err = route.NewTable(bytes.NewBufferString(text)) }); p != nil {
		fail("NewTable panicked: %v\ntext:\n%s", p, hx.Trunc(text, 4000))
	}
	if (tbl == nil) == (err == nil) {
		fail("NewTable returned table=%v err=%v (want exactly one)\n%s", tbl != nil, err, hx.Trunc(text, 4000))
	}
	if err == nil {
		accepted = true
		if p := guard(func() { lookups = exercise(tbl) }); p != nil {
			fail("table accepted by NewTable panics when used: %v\ntext:\n%s", p, hx.Trunc(text, 4000))
		}
		for h, rs := range tbl {
			for _, r := range rs {
				sum := 0.0
				for _, tg := range r.Targets {
					if math.IsNaN(tg.Weight) || math.IsInf(tg.Weight, 0) || tg.Weight < 0 {
						fail("accepted table has target weight %v on %s%s\ntext:\n%s", tg.Weight, h, r.Path, hx.Trunc(text, 4000))
					}
					sum += tg.Weight
				}
				if math.Abs(sum-1) > 1e-6 {
					fail("accepted table: weights of %s%s sum to %v\ntext:\n%s", h, r.Path, sum, hx.Trunc(text, 4000))
				}
			}
		}
	}
	// sentinel: a text that is accepted is applied completely
	var tbl2 route.Table
	var err2 error
	with := text + "\n" + sentinel
	if p := guard(func() { tbl2, err2 = route.NewTable(bytes.NewBufferString(with)) }); p != nil {
		fail("NewTable panicked: %v\ntext:\n%s", p, hx.Trunc(with, 4000))
	}
	if err2 == nil && !hasSentinel(tbl2) {
		fail("partial table: NewTable accepted the text but the route on its last line is missing (text of %d bytes, first lines:\n%s)", len(with), hx.Trunc(text, 600))
	}
	if err == nil && err2 != nil {
		fail("appending a valid route add made an accepted text invalid: %v", err2)
	}
	if err != nil && err2 == nil {
		// the verdict on a line does not depend on what was seen before: a text with an unusable line
		// stays unusable when it is delivered again with another line added
		fail("a text that was rejected (%v) is accepted when it is delivered again with a valid route add appended\ntext:\n%s", err, hx.Trunc(text, 4000))
	}
	return
}

func TestC02aHostileTexts(t *testing.T) {
	hx.Check(t, hx.Scale(4000, 300000), func(t *rapid.T) {
		g := &gen{t: t}
		n := rapid.IntRange(1, 10).Draw(t, "nlines")
		var lines []string
		for i := 0; i < n; i++ {
			lines = append(lines, g.line())
		}
		text := strings.Join(lines, rapid.SampledFrom([]string{"\n", "\n", "\r\n", "\n\n"}).Draw(t, "eol"))
		hx.Eval()
		accepted, lookups := checkText(func(f string, a ...any) { t.Fatalf(f, a...) }, text)
		_, perr := route.Parse(bytes.NewBufferString(text))
		if perr == nil {
			hx.Class("passes-line-grammar")
		}
		if accepted {
			hx.Class("accepted")
			hx.ClassN("lookups-on-accepted-tables", lookups)
		} else {
			hx.Class("rejected")
		}
		if g.cmds >= 2 && g.hostile >= 1 && perr == nil {
			hx.NonTrivial(text)
			hx.Class("nontrivial")
			if hx.WantSample("text") && len(text) < 600 {
				hx.Sample("text", map[string]any{"text": lines, "accepted": accepted})
			}
		}
	})
}

// NewTableCustom receives RouteDef values directly (custom backend): floats
// that no text can spell are possible here.
var extremeFloats = []float64{math.Inf(1), math.Inf(-1), math.NaN(), math.MaxFloat64, math.MaxFloat64 / 2, math.SmallestNonzeroFloat64, 1e-320, 1e308, 9e307, -math.MaxFloat64, 0, 1, 0.5, 1e-5, 2, math.Nextafter(1, 2), math.Nextafter(1, 0), 1e-300, 1e300}

func TestC02aCustomDefs(t *testing.T) {
	hx.Check(t, hx.Scale(6000, 300000), func(t *rapid.T) {
		n := rapid.IntRange(1, 8).Draw(t, "ndefs")
		var defs []route.RouteDef
		hostile := 0
		for i := 0; i < n; i++ {
			d := route.RouteDef{
				Cmd:     rapid.SampledFrom([]route.Cmd{route.RouteAddCmd, route.RouteAddCmd, route.RouteAddCmd, route.RouteDelCmd, route.RouteWeightCmd, "route nope", ""}).Draw(t, "cmd"),
				Service: rapid.SampledFrom([]string{"svc-a", "svc-b", ""}).Draw(t, "svc"),
			}
			g := &gen{t: t}
			d.Src = g.src()
			if rapid.IntRange(0, 9).Draw(t, "emptysrc") == 0 {
				d.Src = ""
			}
			d.Dst = g.pick("dst", saneDsts, append(hostileDsts, ""), 25)
			if rapid.Bool().Draw(t, "extreme") {
				d.Weight = rapid.SampledFrom(extremeFloats).Draw(t, "xw")
				hostile++
			} else {
				d.Weight = rapid.Float64Range(-1, 3).Draw(t, "w")
			}
			if rapid.IntRange(0, 3).Draw(t, "tags") == 0 {
				d.Tags = rapid.SliceOfN(rapid.SampledFrom([]string{"a", "b", "", "\x00", `"`}), 0, 3).Draw(t, "tagv")
			}
			if rapid.IntRange(0, 3).Draw(t, "opts") == 0 {
				d.Opts = map[string]string{}
				for _, kv := range strings.Fields(g.pick("opts", []string{"strip=/a"}, hostileOpts, 60)) {
					p := strings.SplitN(kv, "=", 2)
					if len(p) == 2 {
						d.Opts[p[0]] = p[1]
					} else {
						d.Opts[p[0]] = ""
					}
				}
			}
			hostile += g.hostile
			defs = append(defs, d)
		}
		hx.Eval()
		var tbl route.Table
		var err error
		cp := append([]route.RouteDef{}, defs...)
		if p := guard(func() { tbl, err = route.NewTableCustom(&cp) }); p != nil {
			t.Fatalf("NewTableCustom panicked: %v\ndefs: %+v", p, defs)
		}
		if (tbl == nil) == (err == nil) {
			t.Fatalf("NewTableCustom returned table=%v err=%v", tbl != nil, err)
		}
		if err == nil {
			if p := guard(func() { exercise(tbl) }); p != nil {
				t.Fatalf("table accepted by NewTableCustom panics when used: %v\ndefs: %+v", p, defs)
			}
			for h, rs := range tbl {
				for _, r := range rs {
					sum := 0.0
					for _, tg := range r.Targets {
						if math.IsNaN(tg.Weight) || math.IsInf(tg.Weight, 0) || tg.Weight < 0 {
							t.Fatalf("accepted table has target weight %v on %s%s\ndefs: %+v", tg.Weight, h, r.Path, defs)
						}
						sum += tg.Weight
					}
					if math.Abs(sum-1) > 1e-6 {
						t.Fatalf("accepted table: weights of %s%s sum to %v\ndefs: %+v", h, r.Path, sum, defs)
					}
				}
			}
			hx.Class("custom-accepted")
		} else {
			hx.Class("custom-rejected")
		}
		if n >= 2 && hostile >= 1 {
			hx.NonTrivial(fmt.Sprintf("%+v", defs))
		}
	})
}

// Native fuzz target (thorough tier): the same oracle on raw bytes.
func FuzzC02NewTable(f *testing.F) {
	seeds := []string{
		"route add svc / http://foo.com:80",
		"route add svc /foo http://a:1/ weight 0.5 tags \"a,b\" opts \"strip=/foo\"\nroute del svc /foo\nroute weight svc / weight 0.1 tags \"a\"",
		"route add svc *.foo.com/ http://a:1/\nroute add svc [a/ http://a:1/",
		"route add svc / http://a:1/ weight Inf\nroute add svc / http://b:1/ weight 5e-324",
		"route add svc / http://a:1/ weight 1e308\nroute add svc / http://b:1/ weight 1e308",
		"# " + strings.Repeat("x", 66000) + "\nroute add svc / http://a:1/",
		"route add svc / http://a:1/ opts \"redirect=301 allow=ip:10.0.0.0/33\"",
		"route add svc {a,b}.com/{x http://a:1/",
	}
	for _, w := range hostileWeights {
		seeds = append(seeds, "route add a / http://a:1/ weight "+w+"\nroute add b / http://b:1/")
	}
	for _, h := range hostileHosts {
		seeds = append(seeds, "route add a "+h+"/ http://a:1/")
	}
	for _, s := range seeds {
		f.Add([]byte(s))
	}
	f.Fuzz(func(t *testing.T, data []byte) {
		if len(data) > 1<<20 {
			return
		}
		checkText(func(format string, a ...any) { t.Fatalf(format, a...) }, string(data))
		hx.Eval()
	})
}
