package c02

import (
	"bytes"
	"fmt"
	"net/http"
	"net/url"
	"strings"
	"testing"

	"github.com/fabiolb/fabio/route"
	"pgregory.net/rapid"

	"verifharness/hx"
)

// main.go keeps ONE glob cache for the life of the process while tables come
// and go.  Whatever the cache remembers from earlier tables, a lookup must be
// answered from the table that is active now: it equals the same lookup made
// with a cache that has never seen another table.
func TestC02SharedCacheAcrossTables(t *testing.T) {
	hosts := []string{"a.example.com", "b.example.com", "*.example.com", "*.b.example.com", "x.b.example.com", "example.org", "*.org", "other.net"}
	askable := []string{"a.example.com", "b.example.com", "x.b.example.com", "y.b.example.com", "z.example.com", "example.org", "q.org", "other.net", "nobody.io", "A.Example.Com", "b.example.com:80"}
	hx.Check(t, hx.Scale(1500, 40000), func(t *rapid.T) {
		shared := route.NewGlobCache(rapid.SampledFrom([]int{1000, 3, 1}).Draw(t, "cachesize"))
		gens := rapid.IntRange(2, 6).Draw(t, "tables")
		sameCount := rapid.Bool().Draw(t, "same-number-of-hosts")
		nh := rapid.IntRange(1, 4).Draw(t, "hosts-per-table")
		var hist []string
		swapsKeepingCount := 0
		prevCount := -1
		for g := 0; g < gens; g++ {
			if !sameCount {
				nh = rapid.IntRange(1, 5).Draw(t, "nh")
			}
			pick := rapid.Permutation(hosts).Draw(t, "hostsperm")[:nh]
			var cfg strings.Builder
			for i, h := range pick {
				fmt.Fprintf(&cfg, "route add svc%d %s/ http://g%d-%s:80/\n", i, h, g, strings.NewReplacer("*", "wild").Replace(h))
			}
			if rapid.Bool().Draw(t, "catchall") {
				fmt.Fprintf(&cfg, "route add all / http://g%d-catchall:80/\n", g)
			}
			tbl, err := route.NewTable(bytes.NewBufferString(cfg.String()))
			if err != nil {
				t.Fatalf("%v\n%s", err, cfg.String())
			}
			if len(tbl) == prevCount {
				swapsKeepingCount++
			}
			prevCount = len(tbl)
			hist = append(hist, "table "+fmt.Sprint(g)+": "+strings.ReplaceAll(strings.TrimSpace(cfg.String()), "\n", " ; "))
			for i, n := 0, rapid.IntRange(1, 5).Draw(t, "lookups"); i < n; i++ {
				h := rapid.SampledFrom(askable).Draw(t, "ask")
				req := &http.Request{Host: h, URL: &url.URL{Path: "/"}, Header: http.Header{}}
				got := tbl.Lookup(req, "", route.Picker["rr"], route.Matcher["prefix"], shared, false)
				want := tbl.Lookup(req, "", route.Picker["rr"], route.Matcher["prefix"], route.NewGlobCache(1000), false)
				hx.Eval()
				g1, w1 := "<none>", "<none>"
				if got != nil {
					g1 = got.URL.Host
				}
				if want != nil {
					w1 = want.URL.Host
				}
				hist = append(hist, fmt.Sprintf("  lookup %s -> %s", h, g1))
				if g1 != w1 {
					t.Fatalf("lookup for %q with the long-lived glob cache gives %s, the active table alone gives %s\n%s", h, g1, w1, strings.Join(hist, "\n"))
				}
			}
		}
		if swapsKeepingCount > 0 {
			hx.Class("table-swap-keeping-the-number-of-hosts")
			hx.NonTrivial(strings.Join(hist, "|"))
		}
	})
}
