package c02

import (
	"bytes"
	"fmt"
	"net/http"
	"net/url"
	"testing"

	"github.com/fabiolb/fabio/route"
	"pgregory.net/rapid"

	"verifharness/hx"
)

// Never a mixture of two tables: after an update in which only the options of a route's targets
// changed (same services, addresses and weights), every target a lookup returns on the new table
// carries the new options.
func TestC02OptionOnlyUpdateIsNotAMixture(t *testing.T) {
	hx.Check(t, hx.Scale(1500, 30000), func(t *rapid.T) {
		n := rapid.IntRange(2, 4).Draw(t, "targets")
		weighted := rapid.Bool().Draw(t, "fixed-weights")
		text := func(gen int) string {
			var b bytes.Buffer
			for i := 0; i < n; i++ {
				fmt.Fprintf(&b, "route add svc /p http://10.0.0.%d:80/", i)
				if weighted {
					fmt.Fprintf(&b, " weight 0.%d", i+1)
				}
				fmt.Fprintf(&b, " opts \"strip=/v%d host=h%d.example\"\n", gen, gen)
			}
			return b.String()
		}
		cache := route.NewGlobCache(10)
		for gen, gens := 1, rapid.IntRange(2, 4).Draw(t, "updates"); gen <= gens; gen++ {
			tbl, err := route.NewTable(bytes.NewBufferString(text(gen)))
			if err != nil {
				t.Fatalf("%v\n%s", err, text(gen))
			}
			route.SetTable(tbl)
			for k := 0; k < 3*n+5; k++ {
				req := &http.Request{Host: "h", URL: &url.URL{Path: "/p/x"}, Header: http.Header{}}
				tg := route.GetTable().Lookup(req, "", route.Picker[rapid.SampledFrom([]string{"rr", "rnd"}).Draw(t, "picker")], route.Matcher["prefix"], cache, false)
				hx.Eval()
				if tg == nil {
					t.Fatalf("no target\n%s", text(gen))
				}
				if want := fmt.Sprintf("/v%d", gen); tg.StripPath != want || tg.Host != fmt.Sprintf("h%d.example", gen) {
					t.Fatalf("after update %d (only the options changed) a lookup returned a target with strip=%q host=%q, the active table says strip=%q\n%s", gen, tg.StripPath, tg.Host, want, text(gen))
				}
			}
		}
		hx.Class("option-only-update")
		hx.NonTrivial(fmt.Sprintf("optonly|%d|%v", n, weighted))
	})
}
