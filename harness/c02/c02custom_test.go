package c02

import (
	"bytes"
	"encoding/json"
	"fmt"
	"net/http"
	"net/http/httptest"
	"sort"
	"strings"
	"sync"
	"testing"
	"time"

	"github.com/fabiolb/fabio/config"
	"github.com/fabiolb/fabio/registry/custom"
	"github.com/fabiolb/fabio/route"
	"pgregory.net/rapid"

	"verifharness/hx"
)

// The custom backend builds tables from JSON route definitions fetched over
// HTTP and installs them itself. A payload that is not usable (bad JSON, a
// definition NewTableCustom rejects, HTTP error) must leave the last good
// table in place; the next good payload must be applied.

type customServer struct {
	mu      sync.Mutex
	version int
	status  int
	body    string
	served  map[int]int
	srv     *httptest.Server
}

func (c *customServer) set(status int, body string) int {
	c.mu.Lock()
	defer c.mu.Unlock()
	c.version++
	c.status, c.body = status, body
	return c.version
}

func (c *customServer) servedTimes(v int) int {
	c.mu.Lock()
	defer c.mu.Unlock()
	return c.served[v]
}

func dumpCustom(tbl route.Table) string {
	var out []string
	for h, rs := range tbl {
		for i, r := range rs {
			for _, x := range r.Targets {
				var opts []string
				for k, v := range x.Opts {
					opts = append(opts, k+"="+v)
				}
				sort.Strings(opts)
				out = append(out, fmt.Sprintf("%s|%d|%s|%s|%s|weight %.6f (fixed %.6f)|tags %q|opts %q", h, i, r.Path, x.Service, x.URL, x.Weight, x.FixedWeight, x.Tags, opts))
			}
		}
	}
	sort.Strings(out)
	return strings.Join(out, "\n")
}

// marshalDefs writes the definitions the way a backend would that leaves out what is not set.
func marshalDefs(defs []route.RouteDef) ([]byte, error) {
	out := []map[string]any{}
	for _, d := range defs {
		m := map[string]any{"cmd": d.Cmd, "service": d.Service, "src": d.Src, "dst": d.Dst}
		if d.Weight != 0 {
			m["weight"] = d.Weight
		}
		if len(d.Tags) > 0 {
			m["tags"] = d.Tags
		}
		if len(d.Opts) > 0 {
			m["opts"] = d.Opts
		}
		out = append(out, m)
	}
	return json.Marshal(out)
}

func TestC02bCustomBackend(t *testing.T) { customBackendHistory(t) }

// C05: the route commands mean the same whether they arrive as text or as the custom backend's
// JSON definitions (add, del in its three forms, weight): the same histories once more.
func TestC05CustomBackendCommands(t *testing.T) { customBackendHistory(t) }

// C04: the weights the custom backend's definitions carry (and those they leave out) are the
// weights of the table: the same histories once more (fixed and effective weights are compared).
func TestC04CustomBackendWeights(t *testing.T) { customBackendHistory(t) }

// C13: a redirect route delivered by the custom backend answers with the code and target of the
// LAST payload (also when nothing but an option value changed between two payloads).
func TestC13CustomBackendRedirects(t *testing.T) { customBackendHistory(t) }

// defsText writes definitions in the route-command language.
func defsText(defs []route.RouteDef) string {
	var b strings.Builder
	for _, d := range defs {
		switch d.Cmd {
		case route.RouteAddCmd:
			fmt.Fprintf(&b, "route add %s %s %s", d.Service, d.Src, d.Dst)
		case route.RouteDelCmd:
			fmt.Fprintf(&b, "route del %s", d.Service)
			if d.Src != "" {
				fmt.Fprintf(&b, " %s", d.Src)
				if d.Dst != "" {
					fmt.Fprintf(&b, " %s", d.Dst)
				}
			}
		case route.RouteWeightCmd:
			fmt.Fprintf(&b, "route weight %s %s", d.Service, d.Src)
		}
		if d.Weight != 0 || d.Cmd == route.RouteWeightCmd {
			fmt.Fprintf(&b, " weight %v", d.Weight)
		}
		if len(d.Tags) > 0 {
			fmt.Fprintf(&b, " tags %q", strings.Join(d.Tags, ","))
		}
		if len(d.Opts) > 0 {
			var kv []string
			for k, v := range d.Opts {
				kv = append(kv, k+"="+v)
			}
			sort.Strings(kv)
			fmt.Fprintf(&b, " opts %q", strings.Join(kv, " "))
		}
		b.WriteString("\n")
	}
	return b.String()
}

func customBackendHistory(t *testing.T) {
	cs := &customServer{served: map[int]int{}, status: 200, body: "[]"}
	cs.srv = httptest.NewServer(http.HandlerFunc(func(w http.ResponseWriter, r *http.Request) {
		cs.mu.Lock()
		v, st, body := cs.version, cs.status, cs.body
		cs.served[v]++
		cs.mu.Unlock()
		w.WriteHeader(st)
		w.Write([]byte(body))
	}))
	defer cs.srv.Close()
	cfg := &config.Custom{Host: strings.TrimPrefix(cs.srv.URL, "http://"), Scheme: "http", Path: "routes", PollInterval: 2 * time.Millisecond, Timeout: 5 * time.Second}
	be, _ := custom.NewBackend(cfg)
	ch := be.WatchServices()
	go func() { // what main.go's watchBackend does for this backend: drain the channel
		for range ch {
		}
	}()
	waitProcessed := func(v int) bool {
		deadline := time.Now().Add(10 * time.Second)
		for cs.servedTimes(v) < 2 { // the poller is sequential: a second fetch means the first was fully processed
			if time.Now().After(deadline) {
				return false
			}
			time.Sleep(500 * time.Microsecond)
		}
		return true
	}
	gen := 0
	hx.Check(t, hx.Scale(60, 2000), func(t *rapid.T) {
		// start from a known good table
		gen++
		// definitions carry a weight, tags and options only now and then; a field that is
		// not set is not in the payload (that is also what marshalling a RouteDef gives for
		// tags and opts)
		mk := func(g, n int) []route.RouteDef {
			var defs []route.RouteDef
			for i := 0; i < n; i++ {
				d := route.RouteDef{Cmd: route.RouteAddCmd, Service: fmt.Sprintf("svc%d", i), Src: fmt.Sprintf("/p%d", i%3), Dst: fmt.Sprintf("http://10.%d.0.%d:80/", g%250, i)}
				switch rapid.IntRange(0, 5).Draw(t, "extras") {
				case 0:
					d.Weight = rapid.SampledFrom([]float64{0.25, 0.5, 0.1}).Draw(t, "weight")
				case 1:
					d.Tags = rapid.SampledFrom([][]string{{"a"}, {"a", "b"}, {"blue"}}).Draw(t, "tags")
				case 2:
					d.Opts = rapid.SampledFrom([]map[string]string{{"strip": "/p"}, {"host": "dst"}, {"allow": "ip:10.0.0.0/8", "strip": "/x"}}).Draw(t, "opts")
				}
				defs = append(defs, d)
			}
			// now and then the backend also sends the other commands: a del in one of its three
			// forms (service / service + source / service + source + destination) or a weight,
			// aimed at what was just added
			for k, m := 0, rapid.IntRange(0, 2).Draw(t, "ncmds"); k < m && n > 0; k++ {
				i := rapid.IntRange(0, n-1).Draw(t, "cmdtarget")
				svc, src, dst := fmt.Sprintf("svc%d", i), fmt.Sprintf("/p%d", i%3), fmt.Sprintf("http://10.%d.0.%d:80/", g%250, i)
				switch rapid.IntRange(0, 3).Draw(t, "cmdkind") {
				case 0:
					defs = append(defs, route.RouteDef{Cmd: route.RouteDelCmd, Service: svc})
				case 1:
					defs = append(defs, route.RouteDef{Cmd: route.RouteDelCmd, Service: svc, Src: src})
				case 2:
					defs = append(defs, route.RouteDef{Cmd: route.RouteDelCmd, Service: svc, Src: src, Dst: dst})
				default:
					still := false // a weight command needs a target that is still there
					if cp := append([]route.RouteDef{}, defs...); true {
						if tb, err := route.NewTableCustom(&cp); err == nil {
							for _, rs := range tb {
								for _, r := range rs {
									for _, x := range r.Targets {
										still = still || (x.Service == svc && r.Path == src)
									}
								}
							}
						}
					}
					if still {
						defs = append(defs, route.RouteDef{Cmd: route.RouteWeightCmd, Service: svc, Src: src, Weight: rapid.SampledFrom([]float64{0.2, 0.5}).Draw(t, "cmdweight")})
					}
				}
				hx.Class("custom-backend:del-or-weight-definitions")
			}
			return defs
		}
		good := mk(gen, rapid.IntRange(1, 4).Draw(t, "n0"))
		b, _ := marshalDefs(good)
		if !waitProcessed(cs.set(200, string(b))) {
			t.Fatalf("VERIF-INCONCLUSIVE custom backend does not poll")
		}
		lastGood := good
		var hist []string
		sawBadThenGood, sawBad := false, false
		for i, n := 0, rapid.IntRange(2, 10).Draw(t, "nsteps"); i < n; i++ {
			gen++
			status, body, valid, what := 200, "", true, ""
			stepKind := rapid.IntRange(0, 7).Draw(t, "step")
			var onlyAdds []route.RouteDef
			for _, d := range lastGood {
				if d.Cmd == route.RouteAddCmd {
					onlyAdds = append(onlyAdds, d)
				}
			}
			if stepKind == 7 && len(onlyAdds) == 0 {
				stepKind = 6
			}
			switch stepKind {
			case 7:
				// the same definitions once more; only the VALUE of one option differs from the last
				// payload (the code of a redirect, the prefix to strip)
				defs := append([]route.RouteDef{}, lastGood...)
				for k := range defs {
					if defs[k].Cmd != route.RouteAddCmd {
						continue
					}
					o := map[string]string{}
					for kk, vv := range defs[k].Opts {
						o[kk] = vv
					}
					switch {
					case o["strip"] != "":
						o["strip"] = fmt.Sprintf("/changed%d", gen)
					case o["host"] != "":
						o["host"] = fmt.Sprintf("h%d.example", gen)
					case o["redirect"] != "":
						o["redirect"] = map[string]string{"301": "302", "302": "301"}[o["redirect"]]
					default:
						o["redirect"] = "302" // (number of options changes: the next round changes the value)
					}
					defs[k].Opts = o
					break
				}
				bb, _ := marshalDefs(defs)
				body, what = string(bb), "the last good definitions with one option value changed"
				lastGood = defs
				hx.Class("custom-backend:only-an-option-value-changes")
			case 0:
				body, valid, what = "{not json", false, "malformed JSON"
			case 1:
				status, body, valid, what = 500, "boom", false, "HTTP 500"
			case 2: // well-formed JSON, definition the table builder rejects, after some good ones
				defs := mk(gen, rapid.IntRange(0, 3).Draw(t, "nbefore"))
				bad := rapid.SampledFrom([]route.RouteDef{
					{Cmd: route.RouteAddCmd, Service: "x", Src: "", Dst: "http://h/"},
					{Cmd: route.RouteAddCmd, Service: "x", Src: "/x", Dst: ""},
					{Cmd: route.RouteWeightCmd, Service: "nobody", Src: "/nowhere", Weight: 0.5},
					{Cmd: "route nope", Service: "x", Src: "/x", Dst: "http://h/"},
					{Cmd: route.RouteAddCmd, Service: "x", Src: "/x", Dst: "http://[::1"},
				}).Draw(t, "baddef")
				defs = append(defs, bad)
				defs = append(defs, mk(gen, 1)...)
				bb, _ := marshalDefs(defs)
				body, valid, what = string(bb), false, fmt.Sprintf("JSON with a rejected definition %+v after %d good ones", bad, len(defs)-2)
			case 3:
				body, valid, what = rapid.SampledFrom([]string{"null", "[]", "[ ]"}).Draw(t, "emptyish"), true, "empty list"
				if body == "null" {
					valid, what = false, "JSON null"
				}
			default:
				defs := mk(gen, rapid.IntRange(1, 5).Draw(t, "n"))
				bb, _ := marshalDefs(defs)
				body, what = string(bb), fmt.Sprintf("%d good definitions (generation %d)", len(defs), gen)
				lastGood = defs
			}
			if what == "empty list" {
				lastGood = nil
			}
			if !waitProcessed(cs.set(status, body)) {
				t.Fatalf("VERIF-INCONCLUSIVE custom backend stopped polling")
			}
			hx.Eval()
			hist = append(hist, fmt.Sprintf("%s (valid=%v)", what, valid))
			if valid && sawBad {
				sawBadThenGood = true
			}
			if !valid {
				sawBad = true
			}
			cp := append([]route.RouteDef{}, lastGood...)
			want, err := route.NewTableCustom(&cp)
			if err != nil {
				t.Fatalf("harness: last good definitions rejected: %v", err)
			}
			if fromText, err := route.NewTable(bytes.NewBufferString(defsText(lastGood))); err != nil {
				t.Fatalf("harness: the same commands as text are rejected: %v\n%s", err, defsText(lastGood))
			} else if got, w := dumpCustom(route.GetTable()), dumpCustom(fromText); got != w {
				t.Fatalf("custom backend: after payload %d (%s) the active table is not what the same commands mean as text\nactive:\n%s\nfrom text:\n%s\ncommands:\n%s", i, what, got, w, defsText(lastGood))
			}
			if got, w := dumpCustom(route.GetTable()), dumpCustom(want); got != w {
				t.Fatalf("custom backend: after payload %d (%s) the active table is not the table of the last good payload\nactive:\n%s\nlast good:\n%s\nhistory:\n%s", i, what, got, w, strings.Join(hist, "\n"))
			}
		}
		if sawBadThenGood {
			hx.NonTrivial("custom|" + strings.Join(hist, ";"))
			hx.Class("custom-backend:invalid-then-valid")
		}
	})
}
