package c12

import (
	"bytes"
	"fmt"
	"net/http"
	"net/http/httptest"
	"net/netip"
	"sync/atomic"
	"testing"

	"github.com/fabiolb/fabio/config"
	"github.com/fabiolb/fabio/proxy"
	"github.com/fabiolb/fabio/route"
	"pgregory.net/rapid"

	"verifharness/hx"
	"verifharness/wire"
)

// Rules as an operator types them into a route command: lists with a blank after the comma, a
// trailing comma, a doubled comma.  However fabio reads such a list, it never admits a peer that
// one of the written blocks denies (a list it cannot read closes the route).
func TestC12DenyListsAsTyped(t *testing.T) {
	hx.Check(t, hx.Scale(3000, 60000), func(t *rapid.T) {
		blocks := []string{"10.0.0.0/8", "192.168.0.0/16", "2001:db8::/32", "172.16.5.5"}
		inside := map[string]string{"10.0.0.0/8": "10.1.2.3", "192.168.0.0/16": "192.168.7.7", "2001:db8::/32": "2001:db8::99", "172.16.5.5": "172.16.5.5"}
		n := rapid.IntRange(2, 4).Draw(t, "blocks")
		list := rapid.Permutation(blocks).Draw(t, "order")[:n]
		// (a blank BEFORE a comma ends the option at a clean item: what follows is another, unknown
		// option by the rules of the language - that form is not part of this check)
		sep := rapid.SampledFrom([]string{",", ", ", ",  ", ",,", ", ,"}).Draw(t, "separator-as-typed")
		tail := rapid.SampledFrom([]string{"", "", ",", ", ", " "}).Draw(t, "tail")
		rule := ""
		for i, b := range list {
			if i > 0 {
				rule += sep
			}
			rule += "ip:" + b
		}
		rule += tail
		text := fmt.Sprintf("route add svc / http://upstream.invalid:80/ opts \"deny=%s\"", rule)
		tbl, err := route.NewTable(bytes.NewBufferString(text))
		hx.Eval()
		if err != nil {
			hx.Class("typed-deny-list:rejected-by-the-parser")
			return // not a table
		}
		rt := &countingRT{}
		cache := route.NewGlobCache(10)
		p := &proxy.HTTPProxy{Stats: wire.Stats(), Config: config.Proxy{}, Transport: rt,
			Lookup: func(r *http.Request) *route.Target {
				return tbl.Lookup(r, "", route.Picker["rr"], route.Matcher["prefix"], cache, false)
			}}
		victim := rapid.SampledFrom(list).Draw(t, "peer-inside-block")
		req := httptest.NewRequest("GET", "http://example.com/x", nil)
		req.RemoteAddr = remoteAddrString(netip.MustParseAddr(inside[victim]), "", 4711)
		rec := httptest.NewRecorder()
		p.ServeHTTP(rec, req)
		if rec.Code != 403 || atomic.LoadInt64(&rt.hits) != 0 {
			t.Fatalf("%s\na peer inside the written block %s (%s) got status %d, upstream contacted %d times; want 403 and no upstream", text, victim, inside[victim], rec.Code, atomic.LoadInt64(&rt.hits))
		}
		hx.Class("typed-deny-list:peer-inside-a-written-block-refused")
		if sep != "," || tail != "" {
			hx.NonTrivial(fmt.Sprintf("typed|%q|%q|%v|%s", sep, tail, list, victim))
		}
	})
}
