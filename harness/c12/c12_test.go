package c12

import (
	"bytes"
	"crypto/sha1"
	"crypto/tls"
	"encoding/base64"
	"fmt"
	"io"
	"net"
	"net/http"
	"net/http/httptest"
	"net/netip"
	"os"
	"path/filepath"
	"sort"
	"strings"
	"sync/atomic"
	"testing"
	"time"

	"github.com/fabiolb/fabio/auth"
	"github.com/fabiolb/fabio/config"
	"github.com/fabiolb/fabio/proxy"
	"github.com/fabiolb/fabio/proxy/tcp"
	"github.com/fabiolb/fabio/route"
	"pgregory.net/rapid"

	"verifharness/hx"
	"verifharness/wire"
)

func TestMain(m *testing.M) { wire.Init(false); hx.Main(m) }

// ---------------------------------------------------------------------------
// reference evaluation with net/netip

type item struct {
	text       string
	wellFormed bool
	prefix     netip.Prefix // valid when wellFormed
	// allow= and deny= together: which of the two lists the item is in
	inAllow, inDeny bool
}

func normAddr(a netip.Addr) netip.Addr { return a.Unmap().WithZone("") }

func normPrefix(p netip.Prefix) netip.Prefix {
	if p.Addr().Is4In6() && p.Bits() >= 96 {
		return netip.PrefixFrom(p.Addr().Unmap(), p.Bits()-96).Masked()
	}
	return p.Masked()
}

func inAny(a netip.Addr, ps []netip.Prefix) bool {
	a = normAddr(a)
	for _, p := range ps {
		if p.Contains(a) {
			return true
		}
	}
	return false
}

type verdict int

const (
	mustAdmit verdict = iota
	mustDeny
	unspecified // a malformed rule: anything that does not widen access
)

// refDecision evaluates the addresses of one request against a rule.
func refDecision(kind string, items []item, addrs []netip.Addr) verdict {
	var blocks []netip.Prefix
	allOK := true
	for _, it := range items {
		if it.wellFormed {
			blocks = append(blocks, it.prefix)
		} else {
			allOK = false
		}
	}
	switch kind {
	case "allow":
		for _, a := range addrs {
			if !inAny(a, blocks) {
				return mustDeny
			}
		}
		if allOK {
			return mustAdmit
		}
		return unspecified
	case "deny":
		for _, a := range addrs {
			if inAny(a, blocks) {
				return mustDeny
			}
		}
		if allOK {
			return mustAdmit
		}
		return unspecified
	case "both": // allow= and deny= on one route: not supported, must not widen either list
		var al, dn []netip.Prefix
		for _, it := range items {
			if it.wellFormed && it.inAllow {
				al = append(al, it.prefix)
			}
			if it.wellFormed && it.inDeny {
				dn = append(dn, it.prefix)
			}
		}
		for _, a := range addrs {
			if !inAny(a, al) || inAny(a, dn) {
				return mustDeny
			}
		}
		return unspecified
	}
	return mustAdmit
}

// ---------------------------------------------------------------------------
// generators

var v4nets = []string{"10.0.0.0/8", "10.1.0.0/16", "192.168.1.0/24", "172.16.0.0/12", "0.0.0.0/0", "203.0.113.7/32", "10.0.0.5/8", "127.0.0.0/8", "198.51.100.128/25"}
var v6nets = []string{"2001:db8::/32", "fe80::/10", "::/0", "::1/128", "2001:db8:1::/48", "::ffff:10.0.0.0/104", "fd00::/8", "2001:db8::1/128"}
var singles = []string{"10.0.0.1", "192.168.1.77", "203.0.113.7", "127.0.0.1", "::1", "2001:db8::1", "fe80::1", "::ffff:192.168.1.5"}
var malformed = []string{"ip:10.0.0.0/33", "ip:2001:db8::/129", "ip:10.0.0", "ip:10.0.0.256", "10.0.0.1", "host:example.com", "ip:", "", "ip:10.0.0.0/", "ip:/8", "ip:10.0.0.0/-1", "ip:abc", "cidr:10.0.0.0/8", "ip:10.0.0.0/8/8", "ip:fe80::1%eth0", "ip:010.0.0.1"}

func genItem(t *rapid.T, allowSpaces bool) item {
	if rapid.IntRange(0, 24).Draw(t, "malformed?") == 13 {
		return item{text: rapid.SampledFrom(malformed).Draw(t, "malformed")}
	}
	k := rapid.IntRange(1, 9).Draw(t, "itemkind")
	var data string
	switch {
	case k <= 3:
		data = rapid.SampledFrom(v4nets).Draw(t, "v4net")
	case k <= 5:
		data = rapid.SampledFrom(v6nets).Draw(t, "v6net")
	case k <= 7:
		data = rapid.SampledFrom(singles).Draw(t, "single")
	default: // a random v4 block
		data = fmt.Sprintf("%d.%d.%d.%d/%d", rapid.IntRange(1, 223).Draw(t, "a"), rapid.IntRange(0, 255).Draw(t, "b"), rapid.IntRange(0, 255).Draw(t, "c"), rapid.IntRange(0, 255).Draw(t, "d"), rapid.IntRange(0, 32).Draw(t, "bits"))
	}
	var p netip.Prefix
	if strings.Contains(data, "/") {
		p = netip.MustParsePrefix(data)
	} else {
		a := netip.MustParseAddr(data)
		p = netip.PrefixFrom(a, a.BitLen())
	}
	typ := rapid.SampledFrom([]string{"ip", "ip", "ip", "IP", "Ip"}).Draw(t, "type")
	text := typ + ":" + data
	if allowSpaces && rapid.IntRange(0, 3).Draw(t, "spaces") == 0 {
		text = " " + typ + " : " + data + " "
	}
	return item{text: text, wellFormed: true, prefix: normPrefix(p)}
}

func genRule(t *rapid.T, allowSpaces bool) (kind string, items []item, opts map[string]string) {
	kind = rapid.SampledFrom([]string{"allow", "allow", "allow", "allow", "deny", "deny", "deny", "deny", "both"}).Draw(t, "rulekind")
	n := rapid.IntRange(1, 6).Draw(t, "nitems")
	for i := 0; i < n; i++ {
		items = append(items, genItem(t, allowSpaces))
	}
	// an empty option value is "no rule" to fabio (and to the config
	// language); a rule always has some text
	if items[0].text == "" {
		items[0] = item{text: "ip:", wellFormed: false}
	}
	var texts []string
	for _, it := range items {
		texts = append(texts, it.text)
	}
	opts = map[string]string{}
	switch kind {
	case "both":
		k := rapid.IntRange(1, len(texts)).Draw(t, "splitat")
		opts["allow"] = strings.Join(texts[:k], ",")
		opts["deny"] = strings.Join(texts[k-1:], ",")
		for i := range items {
			items[i].inAllow, items[i].inDeny = i < k, i >= k-1
		}
	default:
		opts[kind] = strings.Join(texts, ",")
	}
	return
}

// genAddr draws an address that is likely to sit inside / at the edge of / outside the rule's blocks.
func genAddr(t *rapid.T, items []item, label string) netip.Addr {
	var wf []item
	for _, it := range items {
		if it.wellFormed {
			wf = append(wf, it)
		}
	}
	k := rapid.IntRange(0, 9).Draw(t, label+"kind")
	if len(wf) > 0 && k <= 5 {
		p := rapid.SampledFrom(wf).Draw(t, label+"block").prefix
		a := p.Addr()
		switch k {
		case 0: // network address
		case 1, 2: // some host inside: flip bits beyond the mask
			b := a.AsSlice()
			for i := p.Bits(); i < len(b)*8; i++ {
				if rapid.Bool().Draw(t, label+"bit") {
					b[i/8] |= 1 << (7 - uint(i%8))
				}
			}
			a, _ = netip.AddrFromSlice(b)
		case 3: // last address of the block
			b := a.AsSlice()
			for i := p.Bits(); i < len(b)*8; i++ {
				b[i/8] |= 1 << (7 - uint(i%8))
			}
			a, _ = netip.AddrFromSlice(b)
		case 4: // just outside: next address after the block (if any)
			b := a.AsSlice()
			for i := p.Bits(); i < len(b)*8; i++ {
				b[i/8] |= 1 << (7 - uint(i%8))
			}
			last, _ := netip.AddrFromSlice(b)
			if n := last.Next(); n.IsValid() {
				a = n
			}
		default: // just before the block
			if pr := a.Prev(); pr.IsValid() {
				a = pr
			}
		}
		if a.Is4() && rapid.IntRange(0, 5).Draw(t, label+"4in6") == 0 {
			a = netip.AddrFrom16(a.As16())
		}
		return a
	}
	return netip.MustParseAddr(rapid.SampledFrom([]string{"10.0.0.1", "10.1.2.3", "11.0.0.1", "192.168.1.77", "192.168.2.1", "203.0.113.7", "203.0.113.8", "127.0.0.1", "8.8.8.8", "::1", "::2", "2001:db8::1", "2001:db9::1", "fe80::1", "fec0::1", "::ffff:10.0.0.1", "::ffff:11.0.0.1", "fd00::1"}).Draw(t, label+"fixed"))
}

// ---------------------------------------------------------------------------
// plumbing

type countingRT struct{ hits int64 }

func (c *countingRT) RoundTrip(r *http.Request) (*http.Response, error) {
	atomic.AddInt64(&c.hits, 1)
	return &http.Response{StatusCode: 200, Proto: "HTTP/1.1", ProtoMajor: 1, ProtoMinor: 1, Header: http.Header{}, Body: io.NopCloser(strings.NewReader("upstream-ok")), ContentLength: 11, Request: r}, nil
}

// lookupFor builds the route the way a configuration does and answers lookups through
// Table.Lookup, as main.go does (a redirect route is copied per request there).
func lookupFor(t *rapid.T, opts map[string]string, redirect bool) func(*http.Request) *route.Target {
	dst := "http://upstream.invalid:80/"
	o := map[string]string{}
	for k, v := range opts {
		o[k] = v
	}
	if redirect {
		dst = "https://elsewhere.example/$path"
		o["redirect"] = "301"
	} else if rapid.IntRange(0, 4).Draw(t, "unusable-redirect-option-next-to-the-rule") == 0 {
		// a redirect option fabio cannot use (no 3xx code, the tag form with ",<url>"): the route is
		// an ordinary one - with its gate
		o["redirect"] = rapid.SampledFrom([]string{"abc", "200", "999", "301,https://elsewhere.example/", "", "30x"}).Draw(t, "unusable-redirect")
		hx.Class("rule-next-to-an-unusable-redirect-option")
	}
	defs := []route.RouteDef{{Cmd: route.RouteAddCmd, Service: "svc", Src: "/", Dst: dst, Opts: o}}
	tbl, err := route.NewTableCustom(&defs)
	if err != nil {
		t.Fatalf("route with access rule rejected: %v (opts %v)", err, o)
	}
	cache := route.NewGlobCache(10)
	return func(r *http.Request) *route.Target {
		return tbl.Lookup(r, "", route.Picker["rr"], route.Matcher["prefix"], cache, false)
	}
}

func targetFor(t *rapid.T, opts map[string]string, spaces bool) *route.Target {
	defs := []route.RouteDef{{Cmd: route.RouteAddCmd, Service: "svc", Src: "/", Dst: "http://upstream.invalid:80/", Opts: opts}}
	tbl, err := route.NewTableCustom(&defs)
	if err != nil {
		t.Fatalf("route with access rule rejected: %v (opts %v)", err, opts)
	}
	return tbl[""][0].Targets[0]
}

func remoteAddrString(a netip.Addr, zone string, port int) string {
	h := a.String()
	if zone != "" {
		h += "%" + zone
	}
	return net.JoinHostPort(h, fmt.Sprint(port))
}

func TestC12AccessRulesHTTP(t *testing.T) {
	hx.Check(t, hx.Scale(100000, 1000000), func(t *rapid.T) {
		spaces := rapid.Bool().Draw(t, "spaces")
		kind, items, opts := genRule(t, spaces)
		redirect := rapid.IntRange(0, 3).Draw(t, "redirect-route") == 0
		lookup := lookupFor(t, opts, redirect)
		peer := genAddr(t, items, "peer")
		zone := ""
		if peer.Is6() && !peer.Is4In6() && rapid.IntRange(0, 3).Draw(t, "zoned") == 0 {
			zone = rapid.SampledFrom([]string{"eth0", "1", "lo"}).Draw(t, "zone")
		}
		port := rapid.IntRange(1, 65535).Draw(t, "port")
		// 1-3 requests from the same peer on the same target, each with its own
		// X-Forwarded-For chain: the decision belongs to the request
		rounds := rapid.SampledFrom([]int{1, 1, 2, 3}).Draw(t, "requests")
		var addrs []netip.Addr
		var desc string
		var lastCode int
		rt := &countingRT{}
		p := &proxy.HTTPProxy{
			Stats:     wire.Stats(),
			Config:    config.Proxy{},
			Transport: rt,
			Lookup:    lookup,
		}
		for round := 0; round < rounds; round++ {
			addrs = []netip.Addr{peer}
			var xff []string
			for i, n := 0, rapid.IntRange(0, 4).Draw(t, "nxff"); i < n; i++ {
				switch rapid.IntRange(0, 5).Draw(t, "xffkind") {
				case 0:
					xff = append(xff, rapid.SampledFrom([]string{"garbage", "unknown", "", "1.2.3", "_hidden"}).Draw(t, "xffjunk"))
				case 1:
					xff = append(xff, peer.String())
				default:
					a := genAddr(t, items, "xff")
					addrs = append(addrs, a)
					s := a.String()
					if rapid.IntRange(0, 3).Draw(t, "xffspace") == 0 {
						s = "  " + s + " "
					}
					xff = append(xff, s)
				}
			}
			// one proxy for all requests of the case (as in a running fabio); the upstream
			// counter is reset per request
			atomic.StoreInt64(&rt.hits, 0)
			req := httptest.NewRequest("GET", "http://example.com/x", nil)
			req.RemoteAddr = remoteAddrString(peer, zone, port)
			if len(xff) > 0 {
				req.Header.Set("X-Forwarded-For", strings.Join(xff, ","))
			}
			rec := httptest.NewRecorder()
			p.ServeHTTP(rec, req)
			hx.Eval()
			want := refDecision(kind, items, addrs)
			hits := atomic.LoadInt64(&rt.hits)
			desc = fmt.Sprintf("opts=%v redirect-route=%v remote=%s xff=%q (request %d of %d on this target)", opts, redirect, req.RemoteAddr, strings.Join(xff, ","), round+1, rounds)
			lastCode = rec.Code
			switch {
			case rec.Code == 403:
				if hits != 0 {
					t.Fatalf("403 sent but the upstream was contacted %d times\n%s", hits, desc)
				}
				if want == mustAdmit {
					t.Fatalf("request denied although every address is admitted by the (well-formed) rule\n%s", desc)
				}
				hx.Class("http:denied")
			case rec.Code == 200 && !redirect:
				if hits != 1 {
					t.Fatalf("200 but upstream hits = %d\n%s", hits, desc)
				}
				if want == mustDeny {
					t.Fatalf("request forwarded although the access rule does not admit it\n%s", desc)
				}
				hx.Class("http:admitted")
			case rec.Code == 301 && redirect:
				if hits != 0 {
					t.Fatalf("redirect route contacted an upstream\n%s", desc)
				}
				if want == mustDeny {
					t.Fatalf("request answered with the route's redirect (Location %q) although the access rule does not admit it\n%s", rec.Header().Get("Location"), desc)
				}
				hx.Class("http:admitted-on-a-redirect-route")
			default:
				t.Fatalf("unexpected status %d\n%s", rec.Code, desc)
			}
			if round > 0 {
				hx.Class("http:later-request-same-peer-other-xff")
			}
		}
		malformedPresent := false
		for _, it := range items {
			if !it.wellFormed {
				malformedPresent = true
			}
		}
		single := false
		if len(items) >= 2 {
			for _, it := range items {
				if refDecision(kindOr(kind), []item{it}, addrs) != refDecision(kindOr(kind), items, addrs) {
					single = true
				}
			}
		}
		if single || malformedPresent {
			hx.NonTrivial(desc)
			hx.Class("nontrivial")
		}
		if malformedPresent {
			hx.Class("rule-with-malformed-item")
		}
		if zone != "" {
			hx.Class("zone-scoped-peer")
		}
		if kind == "both" {
			hx.Class("allow-and-deny-together")
		}
		if hx.WantSample("http") && single {
			hx.Sample("http", map[string]any{"case": desc, "status": lastCode})
		}
	})
}

func kindOr(k string) string {
	if k == "both" {
		return "allow"
	}
	return k
}

type stubConn struct {
	net.Conn
	remote net.Addr
}

func (s stubConn) RemoteAddr() net.Addr { return s.remote }

func TestC12AccessRulesTCP(t *testing.T) {
	hx.Check(t, hx.Scale(60000, 500000), func(t *rapid.T) {
		kind, items, opts := genRule(t, true)
		tg := targetFor(t, opts, true)
		peer := genAddr(t, items, "peer")
		zone := ""
		if peer.Is6() && !peer.Is4In6() && rapid.IntRange(0, 3).Draw(t, "zoned") == 0 {
			zone = "eth0"
		}
		ip := net.IP(peer.AsSlice())
		if peer.Is4() && rapid.Bool().Draw(t, "ip16") {
			ip = ip.To16()
		}
		c := stubConn{remote: &net.TCPAddr{IP: ip, Port: 4242, Zone: zone}}
		denied := tg.AccessDeniedTCP(c)
		hx.Eval()
		want := refDecision(kind, items, []netip.Addr{peer})
		desc := fmt.Sprintf("opts=%v peer=%s zone=%q", opts, peer, zone)
		if denied && want == mustAdmit {
			t.Fatalf("TCP connection denied although the well-formed rule admits it\n%s", desc)
		}
		if !denied && want == mustDeny {
			t.Fatalf("TCP connection admitted although the access rule does not admit it\n%s", desc)
		}
		if len(items) >= 2 {
			hx.NonTrivial("tcp|" + desc)
		}
		if denied {
			hx.Class("tcp:denied")
		} else {
			hx.Class("tcp:admitted")
		}
	})
}

// ---------------------------------------------------------------------------
// end-to-end TCP: a denied connection is closed without the upstream being dialled

func TestC12TCPEndToEnd(t *testing.T) {
	var accepts int64
	up, err := hx.Listen("tcp", "127.0.0.1:0")
	if err != nil {
		t.Fatal(err)
	}
	defer up.Close()
	go func() {
		for {
			c, err := up.Accept()
			if err != nil {
				return
			}
			atomic.AddInt64(&accepts, 1)
			go func(c net.Conn) {
				// drain what the client sent (e.g. a ClientHello) until it goes away: closing
				// with unread data would reset the connection and could destroy the reply
				defer c.Close()
				c.Write([]byte("hello-from-upstream"))
				c.SetReadDeadline(time.Now().Add(3 * time.Second))
				io.Copy(io.Discard, c)
			}(c)
		}
	}()
	hx.Check(t, hx.Scale(400, 3000), func(t *rapid.T) {
		kind, items, opts := genRule(t, true)
		// make the loopback addresses interesting
		if rapid.Bool().Draw(t, "addloop") {
			extra := rapid.SampledFrom([]string{"ip:127.0.0.1", "ip:127.0.0.0/8", "ip:::1", "ip:::1/128"}).Draw(t, "loop")
			a := strings.TrimPrefix(extra, "ip:")
			var p netip.Prefix
			if strings.Contains(a, "/") {
				p = netip.MustParsePrefix(a)
			} else {
				ad := netip.MustParseAddr(a)
				p = netip.PrefixFrom(ad, ad.BitLen())
			}
			items = append(items, item{text: extra, wellFormed: true, prefix: p})
			for k := range opts {
				opts[k] += "," + extra
			}
		}
		tg := targetFor(t, opts, true)
		tg.URL.Host = up.Addr().String()
		v6 := rapid.Bool().Draw(t, "v6")
		laddr := "127.0.0.1:0"
		peer := netip.MustParseAddr("127.0.0.1")
		if v6 {
			laddr, peer = "[::1]:0", netip.MustParseAddr("::1")
		}
		ln, err := hx.Listen("tcp", laddr)
		if err != nil {
			t.Skip("no listener on " + laddr)
		}
		handler := rapid.SampledFrom([]string{"tcp", "dynamic", "sni"}).Draw(t, "handler")
		var h tcp.Handler
		lookup := func(string) *route.Target { return tg }
		switch handler {
		case "tcp":
			h = &tcp.Proxy{Lookup: lookup, DialTimeout: time.Second}
		case "dynamic":
			h = &tcp.DynamicProxy{Lookup: lookup, DialTimeout: time.Second}
		default:
			h = &tcp.SNIProxy{Lookup: lookup, DialTimeout: time.Second}
		}
		srv := &tcp.Server{Handler: h}
		go srv.Serve(ln)
		defer srv.Close()
		before := atomic.LoadInt64(&accepts)
		c, err := net.Dial("tcp", ln.Addr().String())
		if err != nil {
			t.Fatalf("dial: %v", err)
		}
		c.SetDeadline(time.Now().Add(5 * time.Second))
		if handler == "sni" {
			c.Write(sniHello("tcp.example.com"))
		}
		// read the reply (or EOF when the connection is refused), then hang up
		data := make([]byte, len("hello-from-upstream"))
		n, _ := io.ReadFull(c, data)
		data = data[:n]
		c.Close()
		hx.Eval()
		after := atomic.LoadInt64(&accepts)
		want := refDecision(kind, items, []netip.Addr{peer})
		desc := fmt.Sprintf("opts=%v peer=%s handler=%s", opts, peer, handler)
		got := string(data) == "hello-from-upstream"
		switch {
		case got && want == mustDeny:
			t.Fatalf("TCP tunnel established although the rule does not admit the peer\n%s", desc)
		case !got && want == mustAdmit:
			t.Fatalf("TCP tunnel refused although the rule admits the peer (read %q)\n%s", data, desc)
		case !got && after != before:
			t.Fatalf("connection was denied but the upstream was dialled\n%s", desc)
		case !got && len(data) != 0:
			t.Fatalf("denied connection received data %q\n%s", data, desc)
		}
		hx.NonTrivial("e2e|" + desc)
		if got {
			hx.Class("e2e:tunnelled")
		} else {
			hx.Class("e2e:closed")
		}
	})
}

// ---------------------------------------------------------------------------
// route authentication

func TestC12Auth(t *testing.T) {
	dir := t.TempDir()
	users := map[string]string{"alice": "wonderland", "bob": "builder", "üser": "pässword", "colon": "a:b:c"}
	var lines []string
	for u, p := range users {
		sum := sha1.Sum([]byte(p))
		lines = append(lines, u+":{SHA}"+base64.StdEncoding.EncodeToString(sum[:]))
	}
	file := filepath.Join(dir, "htpasswd")
	if err := os.WriteFile(file, []byte(strings.Join(lines, "\n")+"\n"), 0o600); err != nil {
		t.Fatal(err)
	}
	schemes, err := auth.LoadAuthSchemes(map[string]config.AuthScheme{
		"basic1": {Name: "basic1", Type: "basic", Basic: config.BasicAuth{Realm: "r1", File: file}},
		"basic2": {Name: "basic2", Type: "basic", Basic: config.BasicAuth{Realm: "r2", File: file}},
	})
	if err != nil {
		t.Fatal(err)
	}
	hx.Check(t, hx.Scale(5000, 200000), func(t *rapid.T) {
		scheme := rapid.SampledFrom([]string{"", "basic1", "basic2", "nope", "BASIC1", "basic"}).Draw(t, "scheme")
		opts := map[string]string{}
		if scheme != "" {
			opts["auth"] = scheme
		}
		// optionally combine with an access rule that admits the peer
		if rapid.Bool().Draw(t, "withallow") {
			opts["allow"] = "ip:10.0.0.0/8"
		}
		if rapid.IntRange(0, 4).Draw(t, "unusable-redirect-option-next-to-auth") == 0 {
			opts["redirect"] = rapid.SampledFrom([]string{"abc", "200", "301,https://elsewhere.example/", "999"}).Draw(t, "unusable-redirect")
			hx.Class("auth-next-to-an-unusable-redirect-option")
		}
		tg := targetFor(t, opts, false)
		rt := &countingRT{}
		// a fabio that was started without any proxy.auth has no scheme at all: a route that asks
		// for one is closed to everybody
		configured := schemes
		switch rapid.IntRange(0, 5).Draw(t, "no-schemes-configured") {
		case 0:
			configured = nil
		case 1:
			configured = map[string]auth.AuthScheme{}
		}
		p := &proxy.HTTPProxy{Stats: wire.Stats(), Transport: rt, Lookup: func(*http.Request) *route.Target { return tg }, AuthSchemes: configured}
		// whatever kind of request it is (a CORS preflight is a request like any other)
		req := httptest.NewRequest(rapid.SampledFrom([]string{"GET", "OPTIONS", "GET", "POST", "HEAD", "OPTIONS", "DELETE"}).Draw(t, "method"), "http://example.com/x", nil)
		if rapid.IntRange(0, 2).Draw(t, "cors-headers") == 0 {
			req.Header.Set("Origin", "https://app.example")
			req.Header.Set("Access-Control-Request-Method", "POST")
			req.Header.Set("Access-Control-Request-Headers", "authorization")
		}
		req.RemoteAddr = "10.1.1.1:999"
		user, pass, credKind := "", "", rapid.SampledFrom([]string{"right", "right", "wrongpw", "shiftedsplit", "unknownuser", "none", "malformed", "emptypw", "derivedpw"}).Draw(t, "cred")
		names := []string{"alice", "bob", "üser", "colon"}
		switch credKind {
		case "right":
			user = rapid.SampledFrom(names).Draw(t, "user")
			pass = users[user]
			req.SetBasicAuth(user, pass)
		case "wrongpw":
			user = rapid.SampledFrom(names).Draw(t, "user")
			pass = users[user] + rapid.SampledFrom([]string{"x", " ", "\x00"}).Draw(t, "suffix")
			if rapid.Bool().Draw(t, "otherpw") {
				pass = users["bob"]
				if user == "bob" {
					pass = users["alice"]
				}
			}
			req.SetBasicAuth(user, pass)
		case "unknownuser":
			user, pass = rapid.SampledFrom([]string{"mallory", "Alice", "alice ", ""}).Draw(t, "user"), "wonderland"
			req.SetBasicAuth(user, pass)
		case "emptypw":
			user = "alice"
			req.SetBasicAuth(user, "")
		case "shiftedsplit":
			// the same characters as a valid pair, cut at another place
			u := rapid.SampledFrom(names).Draw(t, "user")
			cat := u + users[u]
			k := rapid.IntRange(0, len(cat)).Draw(t, "cut")
			user, pass = cat[:k], cat[k:]
			req.SetBasicAuth(user, pass)
		case "derivedpw":
			user = rapid.SampledFrom(names).Draw(t, "user")
			pw := users[user]
			pass = rapid.SampledFrom([]string{pw[:len(pw)-1], pw[1:], strings.ToUpper(pw), pw + pw, user, user + ":" + pw, ":" + pw}).Draw(t, "derived")
			req.SetBasicAuth(user, pass)
		case "malformed":
			req.Header.Set("Authorization", rapid.SampledFrom([]string{"Basic", "Basic !!!", "Bearer abc", "Basic " + base64.StdEncoding.EncodeToString([]byte("nocolon")), "basic"}).Draw(t, "hdr"))
		}
		rec := httptest.NewRecorder()
		p.ServeHTTP(rec, req)
		hx.Eval()
		exists := (scheme == "basic1" || scheme == "basic2") && len(configured) > 0
		if len(configured) == 0 && scheme != "" {
			hx.Class("auth:route-asks-for-a-scheme-but-none-is-configured")
		}
		// reference: the pair the Authorization header denotes (cut at the first
		// colon) is in the file
		valid := false
		if u, pw, ok := req.BasicAuth(); ok {
			want, known := users[u]
			valid = known && want == pw
		}
		if credKind == "right" && !valid {
			t.Fatalf("harness: a right pair is not valid by the reference")
		}
		accept := scheme == "" || (exists && valid)
		hits := atomic.LoadInt64(&rt.hits)
		desc := fmt.Sprintf("auth=%q cred=%s user=%q password=%q", scheme, credKind, user, pass)
		if accept {
			if rec.Code != 200 || hits != 1 {
				t.Fatalf("valid credentials rejected: status %d hits %d\n%s", rec.Code, hits, desc)
			}
			hx.Class("auth:accepted")
		} else {
			if rec.Code != 401 {
				t.Fatalf("want 401, got %d\n%s", rec.Code, desc)
			}
			if hits != 0 {
				t.Fatalf("401 sent but the upstream was contacted\n%s", desc)
			}
			hx.Class("auth:rejected")
		}
		if scheme != "" {
			hx.NonTrivial("auth|" + desc)
		}
	})
}

// ---------------------------------------------------------------------------
// credentials follow the htpasswd file: after the file has been rewritten and
// the refresh interval has passed, exactly the pairs in the new file are accepted

func TestC12AuthFileHistory(t *testing.T) { authFileHistory(t) }

// C06: the access decision for a request depends on that request and the current configuration
// (table, credential file), not on what earlier requests presented: the same histories once more.
func TestC06AuthDecisionsDoNotCarryOver(t *testing.T) { authFileHistory(t) }

func authFileHistory(t *testing.T) {
	dir := t.TempDir()
	hx.Check(t, hx.Scale(60, 600), func(t *rapid.T) {
		file := filepath.Join(dir, fmt.Sprintf("htpasswd-%d", time.Now().UnixNano()))
		model := map[string]string{}
		write := func() {
			var lines []string
			for u, p := range model {
				sum := sha1.Sum([]byte(p))
				lines = append(lines, u+":{SHA}"+base64.StdEncoding.EncodeToString(sum[:]))
			}
			tmp := file + ".tmp"
			os.WriteFile(tmp, []byte(strings.Join(lines, "\n")+"\n"), 0o600)
			os.Rename(tmp, file)
			// the refresher compares modification times: make sure it moves
			mt := time.Now().Add(time.Duration(rapid.IntRange(-3600, 3600).Draw(t, "mtime")) * time.Second)
			os.Chtimes(file, mt, mt)
		}
		users := []string{"alice", "bob", "carol"}
		for _, u := range users[:rapid.IntRange(1, 3).Draw(t, "ninitial")] {
			model[u] = "pw-" + u + "-0"
		}
		write()
		refresh := 8 * time.Millisecond
		schemes, err := auth.LoadAuthSchemes(map[string]config.AuthScheme{"b": {Name: "b", Type: "basic", Basic: config.BasicAuth{Realm: "r", File: file, Refresh: refresh}}})
		if err != nil {
			t.Fatal(err)
		}
		tg := targetFor(t, map[string]string{"auth": "b"}, false)
		rt := &countingRT{}
		p := &proxy.HTTPProxy{Stats: wire.Stats(), Transport: rt, Lookup: func(*http.Request) *route.Target { return tg }, AuthSchemes: schemes}
		try := func(u, pw string) int {
			req := httptest.NewRequest("GET", "http://example.com/x", nil)
			req.RemoteAddr = "10.1.1.1:999"
			req.SetBasicAuth(u, pw)
			rec := httptest.NewRecorder()
			p.ServeHTTP(rec, req)
			return rec.Code
		}
		known := map[string]map[string]bool{} // every password ever valid per user
		var hist []string
		rewrites := 0
		for i, n := 0, rapid.IntRange(6, 16).Draw(t, "nops"); i < n; i++ {
			if rapid.IntRange(0, 3).Draw(t, "rewrite") == 0 {
				u := rapid.SampledFrom(users).Draw(t, "user")
				switch rapid.IntRange(0, 2).Draw(t, "change") {
				case 0:
					delete(model, u)
					hist = append(hist, "remove "+u)
				default:
					model[u] = fmt.Sprintf("pw-%s-%d", u, i)
					hist = append(hist, "set password of "+u)
				}
				// a sentinel entry with a fresh password tells when the rewritten file has been loaded
				rewrites++
				sentinelPW := fmt.Sprintf("sentinel-%d", rewrites)
				model["sentinel"] = sentinelPW
				write()
				loaded := false
				for deadline := time.Now().Add(10 * time.Second); time.Now().Before(deadline); time.Sleep(refresh) {
					if try("sentinel", sentinelPW) == 200 {
						loaded = true
						break
					}
				}
				if !loaded {
					t.Fatalf("the rewritten credential file was not picked up within 10s (refresh %v)\nhistory: %s", refresh, strings.Join(hist, "; "))
				}
				continue
			}
			u := rapid.SampledFrom(users).Draw(t, "loginuser")
			if known[u] == nil {
				known[u] = map[string]bool{}
			}
			if pw, ok := model[u]; ok {
				known[u][pw] = true
			}
			// current password, or one that was valid earlier, or garbage
			cands := []string{"garbage"}
			for pw := range known[u] {
				cands = append(cands, pw)
			}
			sort.Strings(cands)
			pw := rapid.SampledFrom(cands).Draw(t, "password")
			if cur, ok := model[u]; ok && rapid.Bool().Draw(t, "usecurrent") {
				pw = cur // a successful login is what a later revocation has to override
			}
			want := 401
			if cur, ok := model[u]; ok && cur == pw {
				want = 200
			}
			got := try(u, pw)
			hx.Eval()
			hist = append(hist, fmt.Sprintf("login %s/%s -> %d", u, pw, got))
			if got != want {
				t.Fatalf("login %s/%s answered %d, the credential file says %d\nhistory: %s", u, pw, got, want, strings.Join(hist, "; "))
			}
		}
		if rewrites > 0 {
			hx.NonTrivial("authfile|" + strings.Join(hist, ";"))
			hx.Class("auth:file-rewritten")
		}
	})
}

type helloSink struct{ w bytes.Buffer }

func (c *helloSink) Read(p []byte) (int, error)       { return 0, io.EOF }
func (c *helloSink) Write(p []byte) (int, error)      { return c.w.Write(p) }
func (c *helloSink) Close() error                     { return nil }
func (c *helloSink) LocalAddr() net.Addr              { return &net.TCPAddr{} }
func (c *helloSink) RemoteAddr() net.Addr             { return &net.TCPAddr{} }
func (c *helloSink) SetDeadline(time.Time) error      { return nil }
func (c *helloSink) SetReadDeadline(time.Time) error  { return nil }
func (c *helloSink) SetWriteDeadline(time.Time) error { return nil }

// sniHello returns a ClientHello record carrying the given server name.
func sniHello(name string) []byte {
	cc := &helloSink{}
	tls.Client(cc, &tls.Config{ServerName: name, InsecureSkipVerify: true, CurvePreferences: []tls.CurveID{tls.X25519}}).Handshake()
	b := cc.w.Bytes()
	n := int(b[3])<<8 | int(b[4])
	return append([]byte(nil), b[:5+n]...)
}

// A TCP route with two instances whose access rules differ: the one that admits
// the peer is down, the one that is up rejects the peer.  However the proxy
// deals with the failed dial, the rejecting instance's upstream must never see
// the peer.
func TestC12TCPInstancesWithDifferentRules(t *testing.T) {
	var accepts int64
	up, err := hx.Listen("tcp", "127.0.0.1:0")
	if err != nil {
		t.Fatal(err)
	}
	defer up.Close()
	go func() {
		for {
			c, err := up.Accept()
			if err != nil {
				return
			}
			atomic.AddInt64(&accepts, 1)
			go func(c net.Conn) {
				defer c.Close()
				c.Write([]byte("hello-from-upstream"))
				c.SetReadDeadline(time.Now().Add(2 * time.Second))
				io.Copy(io.Discard, c)
			}(c)
		}
	}()
	hx.Check(t, hx.Scale(60, 600), func(t *rapid.T) {
		deadAddr := hx.FreeAddr() // nothing listens there: dials are refused
		ln, err := hx.Listen("tcp", "127.0.0.1:0")
		if err != nil {
			t.Skip("no port")
		}
		_, port, _ := net.SplitHostPort(ln.Addr().String())
		admit := rapid.SampledFrom([]string{"allow=ip:127.0.0.0/8", "deny=ip:10.0.0.0/8", ""}).Draw(t, "admitting-rule")
		reject := rapid.SampledFrom([]string{"deny=ip:127.0.0.0/8", "allow=ip:10.0.0.0/8", "allow=ip:203.0.113.0/24,ip:::1"}).Draw(t, "rejecting-rule")
		line := func(dst, opt string) string {
			s := fmt.Sprintf("route add svc :%s tcp://%s", port, dst)
			if opt != "" {
				s += ` opts "` + opt + `"`
			}
			return s + "\n"
		}
		lines := []string{line(deadAddr, admit), line(up.Addr().String(), reject)}
		if rapid.Bool().Draw(t, "order") {
			lines[0], lines[1] = lines[1], lines[0]
		}
		tbl, err := route.NewTable(bytes.NewBufferString(lines[0] + lines[1]))
		if err != nil {
			t.Fatalf("%v\n%s%s", err, lines[0], lines[1])
		}
		lookup := func(h string) *route.Target { return tbl.LookupHost(h, route.Picker["rr"]) }
		handler := rapid.SampledFrom([]string{"tcp", "dynamic"}).Draw(t, "handler")
		var h tcp.Handler = &tcp.Proxy{Lookup: lookup, DialTimeout: time.Second}
		if handler == "dynamic" {
			h = &tcp.DynamicProxy{Lookup: lookup, DialTimeout: time.Second}
		}
		srv := &tcp.Server{Handler: h}
		go srv.Serve(ln)
		defer srv.Close()
		before := atomic.LoadInt64(&accepts)
		for k, n := 0, rapid.IntRange(2, 6).Draw(t, "connections"); k < n; k++ {
			c, err := net.Dial("tcp", ln.Addr().String())
			if err != nil {
				t.Fatalf("VERIF-INCONCLUSIVE dial: %v", err)
			}
			c.SetDeadline(time.Now().Add(5 * time.Second))
			data, _ := io.ReadAll(c)
			c.Close()
			hx.Eval()
			if len(data) != 0 || atomic.LoadInt64(&accepts) != before {
				t.Fatalf("connection %d from 127.0.0.1 reached the upstream of an instance whose rule (%s) rejects it (received %q); the instance that admits it (%s) is down\n%s%s", k, reject, data, admit, lines[0], lines[1])
			}
		}
		hx.NonTrivial(fmt.Sprintf("two-instances|%s|%s|%s", admit, reject, handler))
		hx.Class("tcp:instances-with-different-rules")
	})
}

// The scheme comes from the command line (proxy.auth "name=..;type=basic;file=..;refresh=..[;realm=..]"):
// whatever else the option text says or leaves out, credentials removed from the file stop working
// after the refresh interval.
func TestC12AuthFromOptions(t *testing.T) {
	dir := t.TempDir()
	hx.Check(t, hx.Scale(3, 24), func(t *rapid.T) {
		file := filepath.Join(dir, fmt.Sprintf("htpasswd-opt-%d", time.Now().UnixNano()))
		write := func(model map[string]string) {
			var lines []string
			for u, p := range model {
				sum := sha1.Sum([]byte(p))
				lines = append(lines, u+":{SHA}"+base64.StdEncoding.EncodeToString(sum[:]))
			}
			tmp := file + ".tmp"
			os.WriteFile(tmp, []byte(strings.Join(lines, "\n")+"\n"), 0o600)
			os.Rename(tmp, file)
			mt := time.Now().Add(time.Duration(rapid.IntRange(-3600, 3600).Draw(t, "mtime")) * time.Second)
			os.Chtimes(file, mt, mt)
		}
		write(map[string]string{"alice": "secret", "bob": "builder"})
		opt := "name=b;type=basic;file=" + file + ";refresh=1s"
		realm := rapid.SampledFrom([]string{"", ";realm=my realm", ";realm="}).Draw(t, "realm")
		opt += realm
		cfg, err := config.Load([]string{"fabio", "-proxy.auth", opt}, nil)
		if err != nil {
			t.Fatalf("config rejected: %v (%q)", err, opt)
		}
		schemes, err := auth.LoadAuthSchemes(cfg.Proxy.AuthSchemes)
		if err != nil {
			t.Fatalf("LoadAuthSchemes: %v (%q)", err, opt)
		}
		tg := targetFor(t, map[string]string{"auth": "b"}, false)
		rt := &countingRT{}
		p := &proxy.HTTPProxy{Stats: wire.Stats(), Transport: rt, Lookup: func(*http.Request) *route.Target { return tg }, AuthSchemes: schemes}
		try := func(u, pw string) int {
			req := httptest.NewRequest("GET", "http://example.com/x", nil)
			req.RemoteAddr = "10.1.1.1:999"
			req.SetBasicAuth(u, pw)
			rec := httptest.NewRecorder()
			p.ServeHTTP(rec, req)
			hx.Eval()
			return rec.Code
		}
		if c := try("alice", "secret"); c != 200 {
			t.Fatalf("valid credentials answered %d (proxy.auth %q)", c, opt)
		}
		write(map[string]string{"bob": "builder"}) // alice is removed
		deadline := time.Now().Add(6 * time.Second)
		for try("alice", "secret") != 401 {
			if time.Now().After(deadline) {
				t.Fatalf("proxy.auth %q: a user removed from the htpasswd file is still admitted 6s later (refresh=1s)", opt)
			}
			time.Sleep(50 * time.Millisecond)
		}
		if c := try("bob", "builder"); c != 200 {
			t.Fatalf("a user who is still in the file answered %d after the reload", c)
		}
		hx.NonTrivial("auth-from-options|" + realm)
		hx.Class("auth:scheme-from-option-text")
	})
}
