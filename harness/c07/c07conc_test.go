package c07

import (
	"bufio"
	"bytes"
	"crypto/sha256"
	"fmt"
	"io"
	"net"
	"net/http"
	"net/http/httptest"
	"strconv"
	"strings"
	"sync"
	"testing"
	"time"

	"github.com/fabiolb/fabio/config"
	"github.com/fabiolb/fabio/proxy"
	"github.com/fabiolb/fabio/route"
	"pgregory.net/rapid"

	"verifharness/hx"
	"verifharness/wire"
)

// payload is the body belonging to an id: every 4 KiB block starts with the id,
// so that bytes of one exchange showing up in another are recognisable.
func payload(id, size int) []byte {
	b := make([]byte, size)
	x := uint32(id)*2654435761 + 12345
	for i := range b {
		if i%4096 < 8 {
			b[i] = byte('A' + (id>>(uint(i%4096)*2))&0xf)
			continue
		}
		x = x*1664525 + 1013904223
		b[i] = byte(x >> 24)
	}
	return b
}

type concChain struct {
	up *httptest.Server
	px *frontSrv
	table  route.Table
	mu     sync.Mutex
	got    map[int][32]byte // request body hash seen by the upstream per id
	gotLen map[int]int
}

// upstream protocol: /c/<id>/<respsize>/<writes> ; the request body is recorded under the id.
func newConcChain(flush time.Duration) *concChain {
	c := &concChain{got: map[int][32]byte{}, gotLen: map[int]int{}}
	c.up = httptest.NewServer(http.HandlerFunc(func(w http.ResponseWriter, r *http.Request) {
		f := strings.Split(strings.TrimPrefix(r.URL.Path, "/c/"), "/")
		id, _ := strconv.Atoi(f[0])
		size, _ := strconv.Atoi(f[1])
		writes, _ := strconv.Atoi(f[2])
		body, _ := io.ReadAll(r.Body)
		c.mu.Lock()
		c.got[id], c.gotLen[id] = sha256.Sum256(body), len(body)
		c.mu.Unlock()
		w.Header().Set("X-Id", f[0])
		p := payload(id, size)
		if writes <= 1 {
			w.Header().Set("Content-Length", strconv.Itoa(size))
			w.Write(p)
			return
		}
		per := size/writes + 1
		for len(p) > 0 {
			n := per
			if n > len(p) {
				n = len(p)
			}
			w.Write(p[:n])
			w.(http.Flusher).Flush()
			p = p[n:]
		}
	}))
	tbl, err := route.NewTable(bytes.NewBufferString("route add svc /c http://" + c.up.Listener.Addr().String() + "/"))
	if err != nil {
		panic(err)
	}
	c.table = tbl
	cache := route.NewGlobCache(100)
	c.px = viaListener(&proxy.HTTPProxy{
		Stats:     wire.Stats(),
		Config:    config.Proxy{FlushInterval: flush},
		Transport: &http.Transport{DisableCompression: true, MaxIdleConnsPerHost: 64},
		Lookup: func(r *http.Request) *route.Target {
			return c.table.Lookup(r, "", route.Picker["rr"], route.Matcher["prefix"], cache, false)
		},
	})
	return c
}

type concReq struct {
	id, reqSize, respSize, writes int
	chunked                       bool
}

// TestC07ConcurrentExchanges: exchanges that overlap in time on the same proxy
// must each still see exactly their own bytes in both directions.
func TestC07ConcurrentExchanges(t *testing.T) {
	chains := []*concChain{newConcChain(0), newConcChain(5 * time.Millisecond)}
	nextID := 0
	hx.Check(t, hx.Scale(25, 300), func(t *rapid.T) {
		c := chains[rapid.IntRange(0, 1).Draw(t, "flushinterval")]
		n := rapid.IntRange(2, 12).Draw(t, "clients")
		rounds := rapid.IntRange(1, 3).Draw(t, "rounds") // later rounds run with whatever the earlier ones left pooled
		sizes := []int{0, 1, 100, 4095, 4096, 32767, 32768, 32769, 65536, 100000, 300000, 1 << 20}
		for round := 0; round < rounds; round++ {
			var reqs []concReq
			for i := 0; i < n; i++ {
				nextID++
				reqs = append(reqs, concReq{
					id:       nextID,
					reqSize:  rapid.SampledFrom(sizes).Draw(t, "reqsize"),
					respSize: rapid.SampledFrom(sizes).Draw(t, "respsize") + rapid.IntRange(0, 3).Draw(t, "jitter"),
					writes:   rapid.IntRange(1, 6).Draw(t, "writes"),
					chunked:  rapid.Bool().Draw(t, "chunked"),
				})
			}
			errs := make([]error, n)
			var wg sync.WaitGroup
			start := make(chan struct{})
			for i := range reqs {
				wg.Add(1)
				go func(i int) {
					defer wg.Done()
					<-start
					errs[i] = c.one(reqs[i])
				}(i)
			}
			close(start)
			wg.Wait()
			hx.EvalN(n)
			big := 0
			for i, err := range errs {
				if err != nil {
					t.Fatalf("round %d, %d overlapping exchanges %+v: exchange %d: %v", round, n, reqs, reqs[i].id, err)
				}
				if reqs[i].respSize > 32768 || reqs[i].reqSize > 32768 {
					big++
				}
			}
			if big >= 2 {
				hx.NonTrivial(fmt.Sprintf("%v", reqs))
				hx.Class("overlapping-exchanges-with->=2-bodies>32KiB")
			}
			if round > 0 {
				hx.Class("round-after-earlier-exchanges")
			}
			if hx.WantSample("concurrent") && big >= 2 {
				hx.Sample("concurrent", map[string]any{"overlapping": n, "round": round, "exchanges": fmt.Sprintf("%+v", reqs)})
			}
		}
	})
}

func (c *concChain) one(q concReq) error {
	conn, err := net.Dial("tcp", c.px.Listener.Addr().String())
	if err != nil {
		return fmt.Errorf("VERIF-INCONCLUSIVE dial: %v", err)
	}
	defer conn.Close()
	conn.SetDeadline(time.Now().Add(60 * time.Second))
	body := payload(q.id+1000000, q.reqSize)
	var b bytes.Buffer
	fmt.Fprintf(&b, "POST /c/%d/%d/%d HTTP/1.1\r\nHost: h\r\nConnection: close\r\n", q.id, q.respSize, q.writes)
	if q.chunked {
		b.WriteString("Transfer-Encoding: chunked\r\n\r\n")
		for p := body; len(p) > 0; {
			k := 30000
			if k > len(p) {
				k = len(p)
			}
			fmt.Fprintf(&b, "%x\r\n", k)
			b.Write(p[:k])
			b.WriteString("\r\n")
			p = p[k:]
		}
		b.WriteString("0\r\n\r\n")
	} else {
		fmt.Fprintf(&b, "Content-Length: %d\r\n\r\n", len(body))
		b.Write(body)
	}
	go conn.Write(b.Bytes())
	resp, err := http.ReadResponse(bufio.NewReader(conn), &http.Request{Method: "POST"})
	if err != nil {
		return fmt.Errorf("reading the response: %v", err)
	}
	got, err := io.ReadAll(resp.Body)
	if err != nil {
		return fmt.Errorf("reading the response body: %v", err)
	}
	if resp.StatusCode != 200 || resp.Header.Get("X-Id") != strconv.Itoa(q.id) {
		return fmt.Errorf("status %d, X-Id %q", resp.StatusCode, resp.Header.Get("X-Id"))
	}
	want := payload(q.id, q.respSize)
	if !bytes.Equal(got, want) {
		return fmt.Errorf("client received %d body bytes, upstream sent %d; first difference at offset %d", len(got), len(want), firstDiff(got, want))
	}
	c.mu.Lock()
	h, l := c.got[q.id], c.gotLen[q.id]
	delete(c.got, q.id)
	delete(c.gotLen, q.id)
	c.mu.Unlock()
	if l != len(body) || h != sha256.Sum256(body) {
		return fmt.Errorf("upstream received %d request body bytes with a different digest, client sent %d", l, len(body))
	}
	return nil
}
