package c07

import (
	"bufio"
	"fmt"
	"io"
	"net"
	"net/http"
	"net/http/httptest"
	"net/url"
	"strings"
	"sync"
	"testing"
	"time"

	"github.com/fabiolb/fabio/proxy"
	"github.com/fabiolb/fabio/route"
	"pgregory.net/rapid"

	"verifharness/hx"
	"verifharness/wire"
)

// A websocket upgrade the upstream refuses is an ordinary exchange: the client receives the
// upstream's status, end-to-end headers and body (a small answer, sent in one piece).
func TestC07RefusedUpgradeIsRelayed(t *testing.T) {
	var mu sync.Mutex
	var answer string
	ln, err := hx.Listen("tcp", "127.0.0.1:0")
	if err != nil {
		t.Fatalf("VERIF-INCONCLUSIVE %v", err)
	}
	defer ln.Close()
	go func() {
		for {
			c, err := ln.Accept()
			if err != nil {
				return
			}
			go func() {
				defer c.Close()
				c.SetDeadline(time.Now().Add(5 * time.Second))
				if _, err := http.ReadRequest(bufio.NewReader(c)); err != nil {
					return
				}
				mu.Lock()
				a := answer
				mu.Unlock()
				io.WriteString(c, a)
			}()
		}
	}()
	upURL := &url.URL{Scheme: "http", Host: ln.Addr().String()}
	front := httptest.NewServer(&proxy.HTTPProxy{
		Stats:     wire.Stats(),
		Transport: &http.Transport{},
		Lookup:    func(*http.Request) *route.Target { return &route.Target{Service: "svc", URL: upURL} },
	})
	defer front.Close()
	hx.Check(t, hx.Scale(60, 1500), func(t *rapid.T) {
		status := rapid.SampledFrom([]int{403, 401, 400, 404, 426, 503, 200}).Draw(t, "status")
		body := rapid.StringMatching(`[a-z ]{0,200}`).Draw(t, "body")
		why := rapid.StringMatching(`[a-z0-9-]{1,20}`).Draw(t, "x-why")
		a := fmt.Sprintf("HTTP/1.1 %d %s\r\nContent-Type: text/plain\r\nX-Why: %s\r\nContent-Length: %d\r\nConnection: close\r\n\r\n%s", status, http.StatusText(status), why, len(body), body)
		mu.Lock()
		answer = a
		mu.Unlock()
		c, err := net.DialTimeout("tcp", strings.TrimPrefix(front.URL, "http://"), 2*time.Second)
		if err != nil {
			t.Fatalf("VERIF-INCONCLUSIVE %v", err)
		}
		defer c.Close()
		fmt.Fprintf(c, "GET /chat HTTP/1.1\r\nHost: example.com\r\nUpgrade: websocket\r\nConnection: Upgrade\r\nSec-WebSocket-Key: dGhlIHNhbXBsZSBub25jZQ==\r\nSec-WebSocket-Version: 13\r\n\r\n")
		c.SetReadDeadline(time.Now().Add(5 * time.Second))
		raw, _ := io.ReadAll(c)
		hx.Eval()
		resp, err := http.ReadResponse(bufio.NewReader(strings.NewReader(string(raw))), nil)
		if err != nil {
			t.Fatalf("the upstream refused the websocket upgrade with %d and a %d byte body; the client received %q, which is no response: %v", status, len(body), hx.Trunc(string(raw), 200), err)
		}
		got, _ := io.ReadAll(resp.Body)
		if resp.StatusCode != status || resp.Header.Get("X-Why") != why || resp.Header.Get("Content-Type") != "text/plain" || string(got) != body {
			t.Fatalf("the upstream refused the websocket upgrade with status %d, X-Why %q and body %q; the client received status %d, X-Why %q, Content-Type %q and body %q",
				status, why, body, resp.StatusCode, resp.Header.Get("X-Why"), resp.Header.Get("Content-Type"), got)
		}
		hx.Class("refused-websocket-upgrade-relayed")
		hx.NonTrivial(fmt.Sprintf("wsrefused|%d|%d|%s", status, len(body), why))
	})
}
