package c07

import (
	"bufio"
	"bytes"
	"compress/gzip"
	"fmt"
	"io"
	"math/rand"
	"net"
	"net/http"
	"net/http/httptest"
	"net/url"
	"os"
	"path/filepath"
	"regexp"
	"sort"
	"strconv"
	"strings"
	"sync"
	"sync/atomic"
	"testing"
	"time"

	"github.com/fabiolb/fabio/auth"
	"github.com/fabiolb/fabio/config"
	"github.com/fabiolb/fabio/noroute"
	"github.com/fabiolb/fabio/proxy"
	"github.com/fabiolb/fabio/registry/consul"
	"github.com/fabiolb/fabio/registry/file"
	"github.com/fabiolb/fabio/route"
	"github.com/fabiolb/fabio/transport"
	"github.com/hashicorp/consul/api"
	"pgregory.net/rapid"

	"verifharness/hx"
	"verifharness/wire"
)

func TestMain(m *testing.M) { wire.Init(true); hx.Main(m) }

// ---------------------------------------------------------------------------
// the chain: raw TCP client -> HTTPProxy (real server) -> recording upstream

type seenRequest struct {
	method     string
	requestURI string
	host       string
	header     http.Header
	body       []byte
}

type upstreamResp struct {
	status int
	header [][2]string
	chunks [][]byte
	abort  bool // the upstream dies after the last chunk: the body is never terminated
	early  int  // informational responses (103 Early Hints) sent before the final one
}

type chain struct {
	mu      sync.Mutex
	resp    upstreamResp
	seen    []seenRequest
	hits    int64
	up      *httptest.Server
	px      *frontSrv
	pxz     *frontSrv // compression configured
	pxa     *frontSrv // a basic auth scheme "b1" configured (user u, password password)
	table   atomic.Value     // route.Table
	matcher atomic.Value     // string: the configured proxy.matcher
	noroute int
}

// The proxies listen the way fabio's own HTTP listeners do: through proxy.ListenAndServeHTTP.
type frontLn struct{ a net.Addr }

func (f frontLn) Addr() net.Addr { return f.a }

type frontSrv struct{ Listener frontLn }

func viaListener(h http.Handler) *frontSrv {
	addr, err := net.ResolveTCPAddr("tcp", hx.FreeAddr())
	if err != nil {
		panic(err)
	}
	go func() {
		if err := proxy.ListenAndServeHTTP(config.Listen{Addr: addr.String(), Proto: "http"}, h, nil); err != nil {
			fmt.Println("VERIF-INCONCLUSIVE front listener:", err)
		}
	}()
	for i := 0; i < 400; i++ {
		if c, err := net.DialTimeout("tcp", addr.String(), 100*time.Millisecond); err == nil {
			c.Close()
			return &frontSrv{Listener: frontLn{addr}}
		}
		time.Sleep(5 * time.Millisecond)
	}
	panic("VERIF-INCONCLUSIVE front listener did not come up")
}

func newChain() *chain {
	c := &chain{}
	c.up = httptest.NewServer(http.HandlerFunc(func(w http.ResponseWriter, r *http.Request) {
		atomic.AddInt64(&c.hits, 1)
		body, _ := io.ReadAll(r.Body)
		c.mu.Lock()
		c.seen = append(c.seen, seenRequest{r.Method, r.RequestURI, r.Host, r.Header.Clone(), body})
		resp := c.resp
		c.mu.Unlock()
		for i := 0; i < resp.early; i++ {
			w.Header().Set("Link", "</style.css>; rel=preload; as=style")
			w.WriteHeader(http.StatusEarlyHints)
			w.Header().Del("Link")
		}
		for _, kv := range resp.header {
			w.Header().Add(kv[0], kv[1])
		}
		w.WriteHeader(resp.status)
		for _, ch := range resp.chunks {
			w.Write(ch)
			if f, ok := w.(http.Flusher); ok {
				f.Flush()
			}
		}
		if resp.abort {
			panic(http.ErrAbortHandler) // connection closed without the end of the body
		}
	}))
	cache := route.NewGlobCache(100)
	lookup := func(r *http.Request) *route.Target {
		m, _ := c.matcher.Load().(string)
		if m == "" {
			m = "prefix"
		}
		return c.table.Load().(route.Table).Lookup(r, "", route.Picker["rr"], route.Matcher[m], cache, false)
	}
	// the transport is the one fabio builds for itself (transport.NewTransport), with Go's
	// transparent decompression switched off so that bodies can be compared byte for byte
	transport.SetConfig(&config.Config{})
	ownTransport := transport.NewTransport(nil)
	ownTransport.DisableCompression, ownTransport.MaxIdleConnsPerHost = true, 4
	c.px = viaListener(&proxy.HTTPProxy{
		Stats:     wire.Stats(),
		Config:    config.Proxy{NoRouteStatus: 0},
		Transport: ownTransport,
		Lookup:    lookup,
	})
	// the same proxy with proxy.gzip.contenttype configured
	c.pxz = viaListener(&proxy.HTTPProxy{
		Stats:     wire.Stats(),
		Config:    config.Proxy{GZIPContentTypes: regexp.MustCompile(`^(text/.*|application/json)(;.*)?$`)},
		Transport: &http.Transport{DisableCompression: true, MaxIdleConnsPerHost: 4},
		Lookup:    lookup,
	})
	// the same proxy with an auth scheme for routes that ask for one
	dir, err := os.MkdirTemp("", "verif-c07-")
	if err != nil {
		panic(err)
	}
	htpasswd := filepath.Join(dir, "htpasswd")
	os.WriteFile(htpasswd, []byte("u:{SHA}W6ph5Mm5Pz8GgiULbPgzG37mj9g=\n"), 0o600)
	schemes, err := auth.LoadAuthSchemes(map[string]config.AuthScheme{"b1": {Name: "b1", Type: "basic", Basic: config.BasicAuth{Realm: "r", File: htpasswd}}})
	if err != nil {
		panic(err)
	}
	os.RemoveAll(dir) // the file is read once (no refresh interval)
	c.pxa = viaListener(&proxy.HTTPProxy{
		// (proxy.header.sts.maxage is configured too: on a plain listener fabio adds no such header,
		// and what the upstream says about it is the upstream's business)
		Config:      config.Proxy{STSHeader: config.STSHeader{MaxAge: 31536000, Subdomains: true}},
		Stats:       wire.Stats(),
		Transport:   &http.Transport{DisableCompression: true, MaxIdleConnsPerHost: 4},
		Lookup:      lookup,
		AuthSchemes: schemes,
	})
	return c
}

func (c *chain) upHost() string { return c.up.Listener.Addr().String() }

// ---------------------------------------------------------------------------
// generators

type routeSpec struct {
	strip   string
	prepend string
	hostOpt string // "", "dst", or a name
	query   string // query of the route's target URL
	path    string // route path (== strip when stripping, unless another matcher is used)
	matcher string // proxy.matcher: "" = prefix
}

var segs = []string{"a", "b", "abc", "a%2Fb", "%20", "%41", "%C3%A9", "x%2fy", "%25", "a+b", "a;p=1", "~u", "a=b", "a@b", "a:b", "..", ".", "", "%7Euser", "a%3Fb", "a%23b", "%E2%82%AC"}

func genRoute(t *rapid.T) routeSpec {
	r := routeSpec{path: "/"}
	switch rapid.IntRange(0, 3).Draw(t, "rewrite") {
	case 1:
		r.strip = rapid.SampledFrom([]string{"/api", "/v1/x", "/s", "/Files", "/API/v2"}).Draw(t, "strip")
		r.path = r.strip
	case 2:
		r.prepend = rapid.SampledFrom([]string{"/pre", "/p-1/q", "/~u", "/_x", "/Pre", "/SVC/x"}).Draw(t, "prepend")
	case 3:
		r.strip = rapid.SampledFrom([]string{"/api", "/s", "/Files"}).Draw(t, "strip")
		r.prepend = rapid.SampledFrom([]string{"/pre", "/p_2", "/Pre"}).Draw(t, "prepend")
		r.path = r.strip
	}
	// the other matchers: the route path is then not literally a prefix of the request path,
	// strip and prepend work on the request path all the same
	if r.strip != "" {
		switch rapid.IntRange(0, 5).Draw(t, "matcher") {
		case 0:
			r.matcher, r.path = "iprefix", strings.ToUpper(r.strip)
		case 1:
			r.matcher = "glob"
			r.path = rapid.SampledFrom([]string{"/*", "/?" + r.strip[2:] + "*", r.strip + "*", "/**"}).Draw(t, "globpath")
		case 2:
			r.path = "/" // prefix matcher, route path shorter than the strip path
		}
	}
	r.hostOpt = rapid.SampledFrom([]string{"", "", "dst", "backend.internal", "other.example:8080", "Backend.Internal"}).Draw(t, "hostopt")
	if rapid.IntRange(0, 2).Draw(t, "tq") == 0 {
		r.query = rapid.SampledFrom([]string{"x=1", "token=abc&v=2", "q=%20", "Key=Value"}).Draw(t, "tquery")
	}
	return r
}

func (r routeSpec) line(upHost string) string {
	dst := "http://" + upHost + "/"
	if r.query != "" {
		dst += "?" + r.query
	}
	var opts []string
	if r.strip != "" {
		opts = append(opts, "strip="+r.strip)
	}
	if r.prepend != "" {
		opts = append(opts, "prepend="+r.prepend)
	}
	if r.hostOpt != "" {
		opts = append(opts, "host="+r.hostOpt)
	}
	s := "route add svc " + r.path + " " + dst
	if len(opts) > 0 {
		s += ` opts "` + strings.Join(opts, " ") + `"`
	}
	return s
}

type clientReq struct {
	method   string
	rawPath  string
	query    string // "" = none
	host     string
	headers  [][2]string
	body     []byte
	chunked  bool
	chunkCut []int
}

var hdrNames = []string{"X-Custom", "x-lower-case", "X-UPPER", "Accept", "Accept-Language", "Cookie", "Authorization", "If-None-Match", "Cache-Control", "X-Multi", "X-Multi", "Referer", "User-Agent", "X-Empty", "Range", "Content-Type", "X-Trace-Id"}

var singleton = map[string]bool{"User-Agent": true, "Content-Type": true, "Authorization": true, "Referer": true, "Range": true, "If-None-Match": true, "X-Empty": true}

func hasHeader(hs [][2]string, name string) bool {
	for _, h := range hs {
		if h[0] == name {
			return true
		}
	}
	return false
}

func genBody(t *rapid.T, label string, max int) []byte {
	var n int
	switch rapid.IntRange(0, 5).Draw(t, label+"class") {
	case 0:
		n = 0
	case 1, 2:
		n = rapid.IntRange(1, 2048).Draw(t, label+"small")
	case 3:
		n = rapid.IntRange(2049, 70000).Draw(t, label+"mid")
	case 4:
		n = rapid.SampledFrom([]int{4095, 4096, 4097, 32767, 32768, 32769, 65536}).Draw(t, label+"edge")
	default:
		n = rapid.IntRange(70001, max).Draw(t, label+"large")
	}
	b := make([]byte, n)
	rand.New(rand.NewSource(rapid.Int64().Draw(t, label+"seed"))).Read(b) // deterministic expansion of a drawn seed
	return b
}

func genClientReq(t *rapid.T, rt routeSpec) clientReq {
	q := clientReq{
		method: rapid.SampledFrom([]string{"GET", "GET", "POST", "PUT", "DELETE", "PATCH", "OPTIONS", "HEAD", "PURGE"}).Draw(t, "method"),
		host:   rapid.SampledFrom([]string{"example.com", "Example.COM", "example.com:8080", "api.example.org"}).Draw(t, "host"),
	}
	p := ""
	if rt.strip != "" {
		p = rt.strip
	} else if rt.path != "/" {
		p = rt.path
	}
	for i, n := 0, rapid.IntRange(0, 4).Draw(t, "nseg"); i < n; i++ {
		p += "/" + rapid.SampledFrom(segs).Draw(t, "seg")
	}
	if p == "" || rapid.IntRange(0, 4).Draw(t, "trail") == 0 {
		p += "/"
	}
	q.rawPath = p
	if rapid.IntRange(0, 2).Draw(t, "hasq") > 0 {
		q.query = rapid.SampledFrom([]string{"a=1&b", "a=1", "x=%20y&z=%2F", "q", "a=b=c", "%41=%42", "a=1&a=2", "a+b=c+d", "a=1&", "&a=1", "&&", "&", "a=1&&b=2", "=", "a=1&=",
			// separators and characters that are legal in a query and mean something to some servers
			"a=1;b=2", "id=7;jsessionid=ABC", ";", "a=1;&b=2;", "x=a+b;y=c%3Bd", "p=/a/b?c", "q=a,b,c", "q=a:b@c", "q='x'", "q=(1)", "q=*", "q=!$"}).Draw(t, "query")
	}
	for i, n := 0, rapid.IntRange(0, 8).Draw(t, "nhdr"); i < n; i++ {
		name := rapid.SampledFrom(hdrNames).Draw(t, "hname")
		val := rapid.SampledFrom([]string{"v1", "some value", "a, b", "text/html;q=0.9, */*", "k=v; k2=v2", "W/\"etag\"", "bytes=0-99", "ünicode-ß", "", "Basic dXNlcjpwYXNz", "  padded"}).Draw(t, "hval")
		if name == "X-Empty" {
			val = ""
		}
		if name == "User-Agent" && strings.TrimSpace(val) == "" {
			val = "agent/1.0" // Go's transport does not send an empty User-Agent
		}
		if singleton[name] && hasHeader(q.headers, name) {
			continue // singleton fields are not repeated by any client; Go's transport folds some of them
		}
		q.headers = append(q.headers, [2]string{name, strings.TrimSpace(val)})
	}
	if q.method == "POST" || q.method == "PUT" || q.method == "PATCH" || q.method == "DELETE" || q.method == "PURGE" {
		q.body = genBody(t, "reqbody", hx.Pick(262144, 4<<20))
		q.chunked = rapid.Bool().Draw(t, "chunked")
		if q.chunked && len(q.body) > 0 {
			for i, n := 0, rapid.IntRange(0, 4).Draw(t, "ncuts"); i < n; i++ {
				q.chunkCut = append(q.chunkCut, rapid.IntRange(1, len(q.body)).Draw(t, "cut"))
			}
			sort.Ints(q.chunkCut)
		}
	}
	return q
}

func (q clientReq) wire() []byte {
	var b bytes.Buffer
	target := q.rawPath
	if q.query != "" {
		target += "?" + q.query
	}
	fmt.Fprintf(&b, "%s %s HTTP/1.1\r\nHost: %s\r\nConnection: close\r\n", q.method, target, q.host)
	for _, h := range q.headers {
		fmt.Fprintf(&b, "%s: %s\r\n", h[0], h[1])
	}
	switch {
	case q.chunked && q.body != nil:
		b.WriteString("Transfer-Encoding: chunked\r\n\r\n")
		last := 0
		cuts := append(append([]int{}, q.chunkCut...), len(q.body))
		for _, c := range cuts {
			if c > last {
				fmt.Fprintf(&b, "%x\r\n", c-last)
				b.Write(q.body[last:c])
				b.WriteString("\r\n")
				last = c
			}
		}
		b.WriteString("0\r\n\r\n")
	case q.body != nil:
		fmt.Fprintf(&b, "Content-Length: %d\r\n\r\n", len(q.body))
		b.Write(q.body)
	default:
		b.WriteString("\r\n")
	}
	return b.Bytes()
}

func genUpstreamResp(t *rapid.T, method string) upstreamResp {
	r := upstreamResp{status: rapid.SampledFrom([]int{200, 200, 201, 202, 204, 206, 301, 302, 304, 400, 401, 403, 404, 409, 418, 429, 500, 502, 503, 599}).Draw(t, "status")}
	for i, n := 0, rapid.IntRange(0, 6).Draw(t, "nrh"); i < n; i++ {
		name := rapid.SampledFrom([]string{"Set-Cookie", "Set-Cookie", "X-Up", "Content-Type", "Cache-Control", "Etag", "Location", "X-Multi", "X-Multi", "Www-Authenticate", "Vary", "Content-Language", "Strict-Transport-Security", "Accept-Ranges", "Alt-Svc"}).Draw(t, "rhname")
		val := rapid.SampledFrom([]string{"a=1; Path=/", "b=2; HttpOnly", "v", "text/plain", "no-cache", "\"tag\"", "/elsewhere?x=1", "Basic realm=\"r\"", "Accept", "de, en", "max-age=600", "bytes"}).Draw(t, "rhval")
		r.header = append(r.header, [2]string{name, val})
	}
	if rapid.IntRange(0, 11).Draw(t, "large-response-header-block") == 0 {
		// a session-heavy application: many large cookies (a header block of 70-300 KB)
		for i, n := 0, rapid.SampledFrom([]int{70, 120, 300}).Draw(t, "kb-of-cookies"); i < n; i++ {
			r.header = append(r.header, [2]string{"Set-Cookie", fmt.Sprintf("c%03d=%s; Path=/", i, strings.Repeat("v", 1000))})
		}
	}
	if rapid.IntRange(0, 5).Draw(t, "early-hints") == 0 {
		r.early = rapid.IntRange(1, 2).Draw(t, "nearly")
	}
	if rapid.IntRange(0, 5).Draw(t, "preencoded") == 0 {
		// the upstream's body is already encoded (the bytes are opaque to a proxy)
		r.header = append(r.header, [2]string{"Content-Encoding", rapid.SampledFrom([]string{"br", "deflate", "gzip", "zstd", "identity"}).Draw(t, "cenc")})
	}
	if r.status != 204 && r.status != 304 && method != "HEAD" {
		body := genBody(t, "respbody", hx.Pick(262144, 4<<20))
		n := rapid.IntRange(1, 5).Draw(t, "nwrites")
		if len(body) < n {
			n = 1
		}
		per := len(body) / n
		for i := 0; i < n; i++ {
			end := (i + 1) * per
			if i == n-1 {
				end = len(body)
			}
			r.chunks = append(r.chunks, body[i*per:end])
		}
		if len(body) > 0 && rapid.IntRange(0, 7).Draw(t, "upstream-dies-mid-body") == 0 {
			r.abort = true
		}
	}
	return r
}

// ---------------------------------------------------------------------------
// oracle

var hopByHop = map[string]bool{"Connection": true, "Keep-Alive": true, "Proxy-Authenticate": true, "Proxy-Authorization": true, "Te": true, "Trailer": true, "Transfer-Encoding": true, "Upgrade": true, "Proxy-Connection": true}
var managed = map[string]bool{"X-Forwarded-For": true, "X-Forwarded-Proto": true, "X-Forwarded-Port": true, "X-Forwarded-Host": true, "X-Forwarded-Prefix": true, "Forwarded": true, "X-Real-Ip": true}

func wantPath(rt routeSpec, raw string) string {
	p := raw
	if rt.strip != "" && strings.HasPrefix(p, rt.strip) {
		p = p[len(rt.strip):]
		if !strings.HasPrefix(p, "/") {
			p = "/" + p
		}
	}
	if rt.prepend != "" {
		p = rt.prepend + p
	}
	return p
}

func wantQuery(rt routeSpec, q string) string {
	switch {
	case rt.query == "":
		return q
	case q == "":
		return rt.query
	}
	return rt.query + "&" + q
}

func exchange(addr string, wire []byte, method string) (status int, hdr http.Header, body []byte, err error) {
	c, err := net.Dial("tcp", addr)
	if err != nil {
		return 0, nil, nil, err
	}
	defer c.Close()
	c.SetDeadline(time.Now().Add(60 * time.Second))
	go c.Write(wire)
	br := bufio.NewReader(c)
	resp, err := http.ReadResponse(br, &http.Request{Method: method})
	for err == nil && resp.StatusCode >= 102 && resp.StatusCode < 200 {
		resp, err = http.ReadResponse(br, &http.Request{Method: method}) // informational responses precede the final one
	}
	if err != nil {
		return 0, nil, nil, err
	}
	body, err = io.ReadAll(resp.Body)
	return resp.StatusCode, resp.Header, body, err
}

var (
	chainOnce sync.Once
	theChain  *chain
)

func getChain() *chain {
	chainOnce.Do(func() { theChain = newChain() })
	return theChain
}

func TestC07PassThrough(t *testing.T) {
	c := getChain()
	hx.Check(t, hx.Scale(6000, 50000), func(t *rapid.T) {
		rt := genRoute(t)
		cfg := rt.line(c.upHost())
		if rt.query == "" && rapid.IntRange(0, 3).Draw(t, "route-from-service-tags") == 0 {
			// the route comes from a Consul registration: the instance advertises another prefix with
			// options of its own first, then this one; fabio derives the commands
			host, portStr, _ := net.SplitHostPort(c.upHost())
			port, _ := strconv.Atoi(portStr)
			own := "urlprefix-" + rt.path
			if rt.strip != "" {
				own += " strip=" + rt.strip
			}
			if rt.prepend != "" {
				own += " prepend=" + rt.prepend
			}
			if rt.hostOpt != "" {
				own += " host=" + rt.hostOpt
			}
			sibling := "urlprefix-sibling.example/sib " + rapid.SampledFrom([]string{"prepend=/leaked", "host=leaked.example", "strip=/sib prepend=/leaked host=leaked.example", "strip=/api"}).Draw(t, "siblingopts")
			svc := &api.CatalogService{Node: "n", Address: host, ServiceID: "svc-1", ServiceName: "svc", ServiceAddress: host, ServicePort: port, ServiceTags: []string{sibling, own}}
			cfg = strings.Join(consul.VerifRouteCmds(svc, "urlprefix-", nil), "\n")
			hx.Class("route-derived-from-service-tags")
		}
		tbl, err := route.NewTable(bytes.NewBufferString(cfg))
		if err != nil {
			t.Fatalf("%v\n%s", err, cfg)
		}
		c.table.Store(tbl)
		c.matcher.Store(rt.matcher)
		q := genClientReq(t, rt)
		resp := genUpstreamResp(t, q.method)
		c.mu.Lock()
		c.resp, c.seen = resp, nil
		c.mu.Unlock()
		front, gz := c.px, false
		if rapid.IntRange(0, 2).Draw(t, "gzip-configured") == 0 {
			front, gz = c.pxz, true
			if rapid.IntRange(0, 3).Draw(t, "client-accepts-gzip") > 0 && !hasHeader(q.headers, "Accept-Encoding") {
				q.headers = append(q.headers, [2]string{"Accept-Encoding", rapid.SampledFrom([]string{"gzip", "gzip, deflate, br"}).Draw(t, "ae")})
			}
		}
		if !gz && !strings.Contains(cfg, "\n") && rapid.IntRange(0, 4).Draw(t, "route-with-auth") == 0 && !hasHeader(q.headers, "Authorization") {
			// the route asks for authentication and the client authenticates: an authorized exchange is an
			// exchange like any other
			if strings.Contains(cfg, ` opts "`) {
				cfg = strings.Replace(cfg, ` opts "`, ` opts "auth=b1 `, 1)
			} else {
				cfg += ` opts "auth=b1"`
			}
			tbl, err := route.NewTable(bytes.NewBufferString(cfg))
			if err != nil {
				t.Fatalf("%v\n%s", err, cfg)
			}
			c.table.Store(tbl)
			q.headers = append(q.headers, [2]string{"Authorization", "Basic dTpwYXNzd29yZA=="})
			front = c.pxa
			hx.Class("authorized-request-on-a-route-with-auth")
		}
		status, hdr, body, err := exchange(front.Listener.Addr().String(), q.wire(), q.method)
		hx.Eval()
		ctx := fmt.Sprintf("%s\nrequest: %s %s?%s Host=%s headers=%q body=%d bytes chunked=%v%v\nupstream answer: %d headers=%q", cfg, q.method, q.rawPath, q.query, q.host, q.headers, len(q.body), q.chunked, q.chunkCut, resp.status, resp.header)
		if resp.abort {
			// a fault on the upstream side: it sent the status, the headers and a part of the body and
			// died.  The client must not be handed that part as if it were the whole body.
			sent := bytes.Join(resp.chunks, nil)
			if err == nil {
				t.Fatalf("the upstream died after %d body bytes without terminating the body, but the client was given a complete response (status %d, %d body bytes)\n%s", len(sent), status, len(body), ctx)
			}
			if status != 0 && !bytes.HasPrefix(sent, body) && !(gz && hdr.Get("Content-Encoding") == "gzip") {
				t.Fatalf("the bytes the client received before the abort are not a prefix of what the upstream sent\n%s", ctx)
			}
			hx.Class("upstream-dies-mid-body")
			return
		}
		if err != nil {
			t.Fatalf("exchange failed: %v\n%s", err, ctx)
		}
		c.mu.Lock()
		seen := append([]seenRequest{}, c.seen...)
		c.mu.Unlock()
		if len(seen) != 1 {
			t.Fatalf("upstream saw %d requests, want 1 (client got status %d)\n%s", len(seen), status, ctx)
		}
		s := seen[0]
		// ---- request side
		if s.method != q.method {
			t.Fatalf("upstream saw method %q, client sent %q\n%s", s.method, q.method, ctx)
		}
		wantURI := wantPath(rt, q.rawPath)
		if wq := wantQuery(rt, q.query); wq != "" {
			wantURI += "?" + wq
		}
		if s.requestURI != wantURI {
			t.Fatalf("upstream saw request target %q, want %q\n%s", s.requestURI, wantURI, ctx)
		}
		wantHost := q.host
		switch rt.hostOpt {
		case "":
		case "dst":
			wantHost = c.upHost()
		default:
			wantHost = rt.hostOpt
		}
		if s.host != wantHost {
			t.Fatalf("upstream saw Host %q, want %q\n%s", s.host, wantHost, ctx)
		}
		if !bytes.Equal(s.body, q.body) {
			t.Fatalf("upstream received %d body bytes, client sent %d (first difference at %d)\n%s", len(s.body), len(q.body), firstDiff(s.body, q.body), ctx)
		}
		wantHdr := http.Header{}
		for _, h := range q.headers {
			wantHdr.Add(h[0], h[1])
		}
		for name, vals := range wantHdr {
			if hopByHop[name] || managed[name] {
				continue
			}
			if got := s.header[name]; !equalStrings(got, vals) {
				t.Fatalf("upstream saw header %s = %q, client sent %q\n%s", name, got, vals, ctx)
			}
		}
		for name := range s.header {
			if _, sent := wantHdr[name]; sent || managed[name] || name == "Content-Length" || name == "Transfer-Encoding" || name == "Accept-Encoding" {
				continue
			}
			t.Fatalf("upstream saw header %s = %q which the client did not send\n%s", name, s.header[name], ctx)
		}
		// ---- response side
		if status != resp.status {
			t.Fatalf("client saw status %d, upstream sent %d\n%s", status, resp.status, ctx)
		}
		wantResp := http.Header{}
		for _, kv := range resp.header {
			wantResp.Add(kv[0], kv[1])
		}
		if gz {
			// with compression configured fabio announces Vary: Accept-Encoding, and it may compress a
			// response the upstream sent unencoded: the client then decodes it and must find the same bytes
			delete(wantResp, "Vary")
			hdr.Del("Vary")
			if wantResp.Get("Content-Encoding") == "" && hdr.Get("Content-Encoding") == "gzip" {
				hdr.Del("Content-Encoding")
				if q.method != "HEAD" && len(body) > 0 {
					zr, zerr := gzip.NewReader(bytes.NewReader(body))
					if zerr != nil {
						t.Fatalf("response labelled gzip does not decode: %v\n%s", zerr, ctx)
					}
					dec, zerr := io.ReadAll(zr)
					if zerr != nil {
						t.Fatalf("response labelled gzip does not decode: %v\n%s", zerr, ctx)
					}
					body = dec
				}
				hx.Class("compressed-by-fabio")
			}
			if wantResp.Get("Content-Encoding") != "" {
				hx.Class("pre-encoded-upstream-body-with-compression-configured")
			}
		}
		for name, vals := range wantResp {
			if resp.status == 304 && (name == "Content-Type" || name == "Content-Encoding") {
				continue // net/http (the upstream's own server) drops entity headers on 304
			}
			if got := hdr[name]; !equalStrings(got, vals) {
				t.Fatalf("client saw response header %s = %q, upstream sent %q\n%s", name, got, vals, ctx)
			}
		}
		for name := range hdr {
			if _, ok := wantResp[name]; ok || name == "Date" || name == "Content-Length" || name == "Content-Type" || name == "Connection" || name == "Transfer-Encoding" {
				continue
			}
			t.Fatalf("client saw response header %s = %q which the upstream did not send\n%s", name, hdr[name], ctx)
		}
		wantBody := bytes.Join(resp.chunks, nil)
		if !bytes.Equal(body, wantBody) {
			t.Fatalf("client received %d body bytes, upstream sent %d (first difference at %d)\n%s", len(body), len(wantBody), firstDiff(body, wantBody), ctx)
		}
		// ---- evidence
		rewrite := rt.strip != "" || rt.prepend != "" || rt.query != ""
		if (strings.Contains(q.rawPath, "%") || len(q.body) > 0) && rewrite {
			hx.NonTrivial(fmt.Sprintf("%s|%s|%s|%s|%d|%v|%d", cfg, q.method, q.rawPath, q.query, len(q.body), q.chunkCut, resp.status))
			hx.Class("nontrivial")
		}
		if strings.Contains(q.rawPath, "%") && (rt.strip != "" || rt.prepend != "") {
			hx.Class("encoded-path-with-strip-or-prepend")
		}
		if q.chunked {
			hx.Class("chunked-request-body")
		}
		if rt.matcher != "" {
			hx.Class("matcher:" + rt.matcher + "-with-strip")
		}
		if len(q.body) > 65536 || len(wantBody) > 65536 {
			hx.Class("body>64KiB")
		}
		if hx.WantSample("exchange") && strings.Contains(q.rawPath, "%") && rewrite {
			hx.Sample("exchange", map[string]any{"route": cfg, "request": fmt.Sprintf("%s %s?%s", q.method, q.rawPath, q.query), "upstream_saw": s.requestURI, "host_seen": s.host, "status": status, "req_body": len(q.body), "resp_body": len(wantBody)})
		}
	})
}

func firstDiff(a, b []byte) int {
	for i := 0; i < len(a) && i < len(b); i++ {
		if a[i] != b[i] {
			return i
		}
	}
	if len(a) < len(b) {
		return len(a)
	}
	return len(b)
}

func equalStrings(a, b []string) bool {
	if len(a) != len(b) {
		return false
	}
	for i := range a {
		if a[i] != b[i] {
			return false
		}
	}
	return true
}

var useActive atomic.Bool

// A request without a route gets the configured status and page; no upstream is contacted.
func TestC07NoRoute(t *testing.T) {
	pageDir := t.TempDir()
	c := getChain()
	var cur atomic.Value
	cur.Store(0)
	px := httptest.NewServer(http.HandlerFunc(func(w http.ResponseWriter, r *http.Request) {
		p := &proxy.HTTPProxy{
			Stats:     wire.Stats(),
			Config:    config.Proxy{NoRouteStatus: cur.Load().(int)},
			Transport: http.DefaultTransport,
			Lookup: func(r *http.Request) *route.Target {
				tbl := c.table.Load().(route.Table)
				if useActive.Load() {
					tbl = route.GetTable() // the table the proxy of the running process reads
				}
				return tbl.Lookup(r, "", route.Picker["rr"], route.Matcher["prefix"], route.NewGlobCache(10), false)
			},
		}
		p.ServeHTTP(w, r)
	}))
	defer px.Close()
	hx.Check(t, hx.Scale(300, 10000), func(t *rapid.T) {
		tbl, _ := route.NewTable(bytes.NewBufferString("route add svc only.example/only http://" + c.upHost() + "/"))
		c.table.Store(tbl)
		useActive.Store(false)
		if rapid.IntRange(0, 2).Draw(t, "all-routes-withdrawn") == 0 {
			// history of the active table: a catch-all route is installed, then every route is
			// withdrawn (the registry delivers an empty configuration): from then on there is no route
			all, err := route.NewTable(bytes.NewBufferString("route add svc / http://" + c.upHost() + "/"))
			if err != nil {
				t.Fatal(err)
			}
			route.SetTable(all)
			empty, err := route.NewTable(bytes.NewBufferString(rapid.SampledFrom([]string{"", "\n", "# nothing left\n"}).Draw(t, "empty-config")))
			if err != nil {
				t.Fatal(err)
			}
			route.SetTable(empty)
			useActive.Store(true)
			hx.Class("noroute-after-all-routes-were-withdrawn")
		}
		status := rapid.SampledFrom([]int{0, 404, 503, 418, 999, 100000, -1, 200}).Draw(t, "status")
		cur.Store(status)
		page := rapid.SampledFrom([]string{"", "<html>no route</html>", "plain text", strings.Repeat("x", 5000),
			"<html>no route</html>\n", "\n\n <p>nothing here</p> \n", "<pre>\r\n  gone\r\n</pre>\r\n", "\tindented"}).Draw(t, "page")
		if rapid.IntRange(0, 2).Draw(t, "page-from-a-file") == 0 && page != "" {
			// the page as the file backend delivers it (registry.backend=file, registry.file.noroutehtmlpath)
			dir := pageDir
			rp, hp := filepath.Join(dir, "routes.txt"), filepath.Join(dir, "noroute.html")
			os.WriteFile(rp, []byte("route add svc only.example/only http://"+c.upHost()+"/\n"), 0o600)
			os.WriteFile(hp, []byte(page), 0o600)
			be, err := file.NewBackend(&config.File{RoutesPath: rp, NoRouteHTMLPath: hp})
			if err != nil {
				t.Fatalf("file backend: %v", err)
			}
			select {
			case delivered := <-be.WatchNoRouteHTML():
				noroute.SetHTML(delivered) // what main.go's watchNoRouteHTML does with it
			case <-time.After(5 * time.Second):
				t.Fatalf("the file backend delivered no no-route page")
			}
			hx.Class("noroute-page-delivered-by-the-file-backend")
		} else {
			noroute.SetHTML(page)
		}
		defer noroute.SetHTML("")
		q := genClientReq(t, routeSpec{path: "/"})
		before := atomic.LoadInt64(&c.hits)
		st, _, body, err := exchange(px.Listener.Addr().String(), q.wire(), q.method)
		hx.Eval()
		if err != nil {
			t.Fatalf("exchange failed: %v", err)
		}
		want := status
		if want < 100 || want > 999 {
			want = 404
		}
		if st != want {
			t.Fatalf("no-route status %d, configured %d (effective %d)", st, status, want)
		}
		if q.method != "HEAD" && string(body) != page {
			t.Fatalf("no-route page %q, configured %q", hx.Trunc(string(body), 80), hx.Trunc(page, 80))
		}
		if atomic.LoadInt64(&c.hits) != before {
			t.Fatalf("an upstream was contacted for a request without a route")
		}
		hx.NonTrivial(fmt.Sprintf("noroute|%d|%d|%s|%s", status, len(page), q.method, q.rawPath))
		hx.Class("noroute")
	})
}

var _ = url.Parse
