// Package wire gives the harness packages the metrics plumbing a deployment
// has: main.go hands every HTTP proxy a stats handler made from the configured
// metrics provider, and every route target a timer from the same provider.
// The provider kind is a function of the shard (one provider per process: the
// prometheus one registers its collectors globally).
package wire

import (
	"fmt"
	"os"
	"sync"
	"time"

	"github.com/fabiolb/fabio/metrics"
	"github.com/fabiolb/fabio/proxy"
	"github.com/fabiolb/fabio/route"

	"verifharness/hx"
)

var (
	once     sync.Once
	provider metrics.Provider = metrics.DiscardProvider{}
	kind                      = "discard"
	stats    proxy.HttpStatsHandler
)

// Init picks the provider for this process.  routeTimers says whether route
// targets get their timers from it as well (packages that build very many
// distinct routes leave the label-keeping prometheus provider out of that).
func Init(routeTimers bool) {
	once.Do(func() {
		switch hx.Shard() % 3 {
		case 1:
			kind = "prometheus"
			provider = metrics.NewPromProvider(fmt.Sprintf("verif%d", os.Getpid()), "", nil)
		case 2:
			kind = "statsd_raw"
			p, err := metrics.NewStatsdProvider("verif", "127.0.0.1:9", time.Hour)
			if err == nil {
				provider = p
			} else {
				kind = "discard"
			}
		}
		// the names main.go uses
		stats = proxy.HttpStatsHandler{
			Requests:        provider.NewHistogram("requests"),
			Noroute:         provider.NewCounter("notfound"),
			WSConn:          provider.NewGauge("ws.conn"),
			StatusTimer:     provider.NewHistogram("http.status", "code"),
			RedirectCounter: provider.NewCounter("http.redirect.count", "code"),
		}
		if routeTimers || kind != "prometheus" {
			route.SetMetricsProvider(provider)
		}
		hx.Note("metrics provider on the request path: " + kind)
	})
}

// Stats is the stats handler for proxy.HTTPProxy.Stats.
func Stats() proxy.HttpStatsHandler { return stats }

// Kind names the provider in use.
func Kind() string { return kind }
