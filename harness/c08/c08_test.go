package c08

import (
	"bufio"
	"bytes"
	"crypto/tls"
	"fmt"
	"io"
	"net"
	"net/http"
	"net/http/httptest"
	"net/url"
	"strconv"
	"strings"
	"sync"
	"sync/atomic"
	"testing"
	"time"

	"github.com/fabiolb/fabio/config"
	"github.com/fabiolb/fabio/proxy"
	"github.com/fabiolb/fabio/route"
	"pgregory.net/rapid"

	"verifharness/hx"
	"verifharness/wire"
)

func TestMain(m *testing.M) { wire.Init(true); hx.Main(m) }

type capture struct {
	req *http.Request
}

func (c *capture) RoundTrip(r *http.Request) (*http.Response, error) {
	c.req = r
	return &http.Response{StatusCode: 200, Proto: "HTTP/1.1", ProtoMajor: 1, ProtoMinor: 1, Header: http.Header{}, Body: io.NopCloser(strings.NewReader("ok")), ContentLength: 2, Request: r}, nil
}

// ---------------------------------------------------------------------------
// generators

type scenario struct {
	cfg        config.Proxy
	peerIP     string
	peerPort   int
	tlsOn      bool
	tlsVersion uint16
	cipher     uint16
	host       string
	hostOpt    string
	strip      string
	sent       http.Header // what the client sent (canonical keys, as the server would deliver them)
	upgrade    string
}

var peerIPs = []string{"192.0.2.1", "10.9.8.7", "203.0.113.250", "127.0.0.1", "2001:db8::1", "::1", "fe80::aa:1", "::ffff:192.0.2.9"}
var forgedIPs = []string{"6.6.6.6", "10.0.0.1", "evil", "1.1.1.1, 2.2.2.2", "::1", ""}
var hosts = []string{"example.com", "example.com:8080", "EXAMPLE.com:8443", "[::1]:8080", "[2001:db8::2]", "1.2.3.4:99", "api.example.org:80", "api.example.org:443", "localhost"}

func genScenario(t *rapid.T) scenario {
	s := scenario{
		peerIP:   rapid.SampledFrom(peerIPs).Draw(t, "peer"),
		peerPort: rapid.IntRange(1, 65535).Draw(t, "port"),
		tlsOn:    rapid.Bool().Draw(t, "tls"),
		host:     rapid.SampledFrom(hosts).Draw(t, "host"),
		hostOpt:  rapid.SampledFrom([]string{"", "", "dst", "backend.internal", "rewritten.example:9000"}).Draw(t, "hostopt"),
		strip:    rapid.SampledFrom([]string{"", "", "/api"}).Draw(t, "strip"),
		sent:     http.Header{},
	}
	if s.tlsOn {
		s.tlsVersion = rapid.SampledFrom([]uint16{tls.VersionTLS10, tls.VersionTLS11, tls.VersionTLS12, tls.VersionTLS13, 0x0305, 0}).Draw(t, "tlsver")
		s.cipher = rapid.SampledFrom([]uint16{tls.TLS_AES_128_GCM_SHA256, tls.TLS_ECDHE_RSA_WITH_AES_128_GCM_SHA256, 0x000a, 0xffff, 0}).Draw(t, "cipher")
	}
	s.cfg.ClientIPHeader = rapid.SampledFrom([]string{"", "X-Client-Ip", "x-my-client", "X-Real-Ip", "X-Forwarded-For", "Cf-Connecting-Ip"}).Draw(t, "cfgclientip")
	s.cfg.TLSHeader = rapid.SampledFrom([]string{"", "X-Tls", "Secure", "x-forwarded-ssl"}).Draw(t, "cfgtls")
	s.cfg.TLSHeaderValue = rapid.SampledFrom([]string{"true", "on", "", "1"}).Draw(t, "cfgtlsval")
	s.cfg.LocalIP = rapid.SampledFrom([]string{"", "10.0.0.254", "fd00::1"}).Draw(t, "localip")
	s.cfg.STSHeader = config.STSHeader{
		MaxAge:     rapid.SampledFrom([]int{0, 0, 31536000, 1, -1, 300}).Draw(t, "stsage"),
		Subdomains: rapid.Bool().Draw(t, "stssub"),
		Preload:    rapid.Bool().Draw(t, "stspre"),
	}
	// forged / legitimately chained copies of the managed headers
	add := func(name string, vals ...string) {
		for _, v := range vals {
			s.sent.Add(name, v)
		}
	}
	if rapid.IntRange(0, 2).Draw(t, "fxff") == 0 {
		n := rapid.IntRange(1, 2).Draw(t, "nxff")
		for i := 0; i < n; i++ {
			add("X-Forwarded-For", rapid.SampledFrom(forgedIPs[:5]).Draw(t, "xff"))
		}
	}
	if rapid.IntRange(0, 2).Draw(t, "fxfp") == 0 {
		add("X-Forwarded-Proto", rapid.SampledFrom([]string{"https", "http", "wss", "gopher"}).Draw(t, "xfp"))
	}
	if rapid.IntRange(0, 2).Draw(t, "ffwd") == 0 {
		add("Forwarded", rapid.SampledFrom([]string{"for=6.6.6.6; proto=https", "for=6.6.6.6;proto=http;by=1.1.1.1", "for=6.6.6.6", "proto=https", "for=\"[2001:db8::9]\"; proto=ws; host=x"}).Draw(t, "fwd"))
	}
	if rapid.IntRange(0, 3).Draw(t, "fxfport") == 0 {
		add("X-Forwarded-Port", rapid.SampledFrom([]string{"1", "443", "99999", "abc"}).Draw(t, "xfport"))
	}
	if rapid.IntRange(0, 3).Draw(t, "fxfh") == 0 {
		add("X-Forwarded-Host", rapid.SampledFrom([]string{"forged.example", "example.com", "x:1"}).Draw(t, "xfh"))
	}
	if rapid.IntRange(0, 3).Draw(t, "fxri") == 0 {
		add("X-Real-Ip", rapid.SampledFrom(forgedIPs).Draw(t, "xri"))
	}
	if s.cfg.ClientIPHeader != "" && rapid.IntRange(0, 1).Draw(t, "fcip") == 0 {
		n := rapid.IntRange(1, 2).Draw(t, "ncip")
		for i := 0; i < n; i++ {
			add(s.cfg.ClientIPHeader, rapid.SampledFrom(forgedIPs).Draw(t, "cip"))
		}
	}
	if s.cfg.TLSHeader != "" && rapid.IntRange(0, 1).Draw(t, "ftls") == 0 {
		n := rapid.IntRange(1, 2).Draw(t, "ntlsh")
		for i := 0; i < n; i++ {
			add(s.cfg.TLSHeader, rapid.SampledFrom([]string{"true", "on", "forged", ""}).Draw(t, "tlsh"))
		}
	}
	if rapid.IntRange(0, 5).Draw(t, "connection-names-managed-headers") == 0 {
		// a client may name further hop-by-hop headers in Connection; naming the headers fabio
		// manages must not be a way to keep them from the upstream
		if rapid.Bool().Draw(t, "connection-on-several-lines") {
			// the header may come on several lines; the first one is an ordinary option
			add("Connection", rapid.SampledFrom([]string{"keep-alive", "close", "Keep-Alive", "upgrade"}).Draw(t, "connfirst"))
		}
		add("Connection", rapid.SampledFrom([]string{"X-Real-Ip", "Forwarded, X-Forwarded-Proto", "X-Forwarded-Host, X-Forwarded-Port", "keep-alive, X-Real-Ip, Forwarded", "X-Forwarded-For"}).Draw(t, "connhdr"))
	}
	add("X-Unrelated", "keep")
	return s
}

func (s scenario) forged() bool {
	for _, h := range []string{"X-Forwarded-For", "X-Forwarded-Proto", "Forwarded", "X-Forwarded-Port", "X-Forwarded-Host", "X-Real-Ip"} {
		if len(s.sent[h]) > 0 {
			return true
		}
	}
	if s.cfg.ClientIPHeader != "" && len(s.sent[http.CanonicalHeaderKey(s.cfg.ClientIPHeader)]) > 0 {
		return true
	}
	if s.cfg.TLSHeader != "" && len(s.sent[http.CanonicalHeaderKey(s.cfg.TLSHeader)]) > 0 {
		return true
	}
	return false
}

func (s scenario) String() string {
	return fmt.Sprintf("cfg{clientip=%q tls=%q/%q localip=%q sts=%+v} peer=%s:%d tls=%v host=%q host-opt=%q upgrade=%q sent=%v",
		s.cfg.ClientIPHeader, s.cfg.TLSHeader, s.cfg.TLSHeaderValue, s.cfg.LocalIP, s.cfg.STSHeader, s.peerIP, s.peerPort, s.tlsOn, s.host, s.hostOpt, s.upgrade, s.sent)
}

// ---------------------------------------------------------------------------
// oracle

func lastXFF(h http.Header) string {
	all := strings.Join(h["X-Forwarded-For"], ",")
	parts := strings.Split(all, ",")
	return strings.TrimSpace(parts[len(parts)-1])
}

func fwdProto(v string) (string, bool) {
	i := strings.Index(v, "proto=")
	if i < 0 {
		return "", false
	}
	p := v[i+len("proto="):]
	if j := strings.IndexByte(p, ';'); j >= 0 {
		p = p[:j]
	}
	return p, true
}

func hostPort(host string, tlsOn bool) string {
	if _, p, err := net.SplitHostPort(host); err == nil && p != "" {
		return p
	}
	if tlsOn {
		return "443"
	}
	return "80"
}

// verify compares the headers the upstream received (up) with the scenario.
func verify(fatalf func(string, ...any), s scenario, up http.Header, upHost string, respHdr http.Header, ws bool) {
	ctx := s.String() + fmt.Sprintf("\nupstream received: %v", up)
	peer := s.peerIP
	// 1. configured client-ip header
	if h := s.cfg.ClientIPHeader; h != "" && h != "X-Forwarded-For" && h != "X-Real-Ip" {
		if got := up[http.CanonicalHeaderKey(h)]; len(got) != 1 || got[0] != peer {
			fatalf("client-ip header %s = %q, want exactly [%q]\n%s", h, got, peer, ctx)
		}
	}
	// 2. X-Forwarded-For ends with the peer
	if got := lastXFF(up); got != peer {
		fatalf("last element of X-Forwarded-For is %q, peer address is %q\n%s", got, peer, ctx)
	}
	// ... after everything an earlier hop (or the client) had put there
	if http.CanonicalHeaderKey(s.cfg.ClientIPHeader) != "X-Forwarded-For" {
		want := peer
		if prior := s.sent["X-Forwarded-For"]; len(prior) > 0 {
			want = strings.Join(prior, ", ") + ", " + peer
		}
		if got := strings.Join(up["X-Forwarded-For"], ", "); got != want {
			fatalf("X-Forwarded-For = %q at the upstream, want the client's chain followed by the peer: %q\n%s", got, want, ctx)
		}
	}
	// 3. X-Real-Ip
	if sent := s.sent.Get("X-Real-Ip"); sent != "" {
		if got := up.Get("X-Real-Ip"); got != sent {
			fatalf("X-Real-Ip sent by the client (%q) was changed to %q\n%s", sent, got, ctx)
		}
	} else if got := up["X-Real-Ip"]; len(got) != 1 || got[0] != peer {
		fatalf("X-Real-Ip = %q, want [%q]\n%s", got, peer, ctx)
	}
	// 4. TLS header
	if h := s.cfg.TLSHeader; h != "" && !strings.EqualFold(h, s.cfg.ClientIPHeader) {
		got, present := up[http.CanonicalHeaderKey(h)]
		if s.tlsOn {
			if !present || len(got) != 1 || got[0] != s.cfg.TLSHeaderValue {
				fatalf("TLS header %s = %q on a TLS connection, want [%q]\n%s", h, got, s.cfg.TLSHeaderValue, ctx)
			}
		} else if present {
			fatalf("TLS header %s = %q reached the upstream on a plain connection\n%s", h, got, ctx)
		}
	}
	// 5./6. X-Forwarded-Proto and Forwarded
	actual := "http"
	if s.tlsOn {
		actual = "https"
	}
	actualFwd := []string{actual}
	if ws {
		actualFwd = []string{actual, map[string]string{"http": "ws", "https": "wss"}[actual]}
	}
	sentXFP, sentFwd := s.sent.Get("X-Forwarded-Proto"), s.sent.Get("Forwarded")
	switch {
	case sentXFP != "":
		if got := up.Get("X-Forwarded-Proto"); got != sentXFP {
			fatalf("X-Forwarded-Proto sent by the client (%q) was changed to %q\n%s", sentXFP, got, ctx)
		}
	case sentFwd != "":
		if p, ok := fwdProto(sentFwd); ok {
			// X-Forwarded-Proto only ever carries http/https for websocket schemes (fabio issue #133)
			switch p {
			case "ws":
				p = "http"
			case "wss":
				p = "https"
			}
			if got := up.Get("X-Forwarded-Proto"); got != p {
				fatalf("X-Forwarded-Proto = %q, want %q derived from the client's Forwarded header\n%s", got, p, ctx)
			}
		} else if got := up.Get("X-Forwarded-Proto"); got != actual {
			fatalf("X-Forwarded-Proto = %q, connection is %s\n%s", got, actual, ctx)
		}
	default:
		if got := up.Get("X-Forwarded-Proto"); got != actual {
			fatalf("X-Forwarded-Proto = %q, connection is %s\n%s", got, actual, ctx)
		}
	}
	gotFwd := up.Get("Forwarded")
	if sentFwd != "" {
		if !strings.HasPrefix(gotFwd, sentFwd) {
			fatalf("Forwarded sent by the client (%q) was replaced by %q\n%s", sentFwd, gotFwd, ctx)
		}
	} else {
		if !strings.Contains(gotFwd, "for="+peer) && !strings.Contains(gotFwd, `for="[`+peer+`]`) && !strings.Contains(gotFwd, `for="`+peer+`"`) {
			fatalf("Forwarded = %q does not name the peer %s\n%s", gotFwd, peer, ctx)
		}
		p, ok := fwdProto(gotFwd)
		wantP := actualFwd
		if sentXFP != "" {
			wantP = []string{sentXFP}
		}
		found := false
		for _, w := range wantP {
			if ok && p == w {
				found = true
			}
		}
		if !found {
			fatalf("Forwarded = %q, want proto in %v\n%s", gotFwd, wantP, ctx)
		}
	}
	if s.cfg.LocalIP != "" && !strings.Contains(gotFwd, "by="+s.cfg.LocalIP) {
		fatalf("Forwarded = %q lacks by=%s\n%s", gotFwd, s.cfg.LocalIP, ctx)
	}
	// 7. X-Forwarded-Port
	if sent := s.sent.Get("X-Forwarded-Port"); sent != "" {
		if got := up.Get("X-Forwarded-Port"); got != sent {
			fatalf("X-Forwarded-Port sent by the client (%q) was changed to %q\n%s", sent, got, ctx)
		}
	} else if got, want := up.Get("X-Forwarded-Port"), hostPort(s.host, s.tlsOn); got != want {
		fatalf("X-Forwarded-Port = %q, the client asked for host %q on a %s connection: want %q\n%s", got, s.host, actual, want, ctx)
	}
	// 8. X-Forwarded-Host
	if sent := s.sent.Get("X-Forwarded-Host"); sent != "" {
		if got := up.Get("X-Forwarded-Host"); got != sent {
			fatalf("X-Forwarded-Host sent by the client (%q) was changed to %q\n%s", sent, got, ctx)
		}
	} else if got := up.Get("X-Forwarded-Host"); got != s.host {
		fatalf("X-Forwarded-Host = %q, the client asked for %q\n%s", got, s.host, ctx)
	}
	// the route's host option decides the Host the upstream sees (C07) - only sanity here
	if s.hostOpt != "" && s.hostOpt != "dst" && upHost != s.hostOpt {
		fatalf("upstream Host = %q, route asks for %q\n%s", upHost, s.hostOpt, ctx)
	}
	if up.Get("X-Unrelated") != "keep" {
		fatalf("unrelated header lost\n%s", ctx)
	}
	// 9. HSTS
	if respHdr != nil {
		got := respHdr.Get("Strict-Transport-Security")
		if s.tlsOn && s.cfg.STSHeader.MaxAge > 0 {
			want := "max-age=" + strconv.Itoa(s.cfg.STSHeader.MaxAge)
			if s.cfg.STSHeader.Subdomains {
				want += "; includeSubdomains"
			}
			if s.cfg.STSHeader.Preload {
				want += "; preload"
			}
			if got != want {
				fatalf("Strict-Transport-Security = %q, want %q\n%s", got, want, ctx)
			}
		} else if got != "" {
			fatalf("Strict-Transport-Security = %q on a connection with tls=%v max-age=%d\n%s", got, s.tlsOn, s.cfg.STSHeader.MaxAge, ctx)
		}
	}
}

func TestC08Direct(t *testing.T) {
	hx.Check(t, hx.Scale(80000, 1000000), func(t *rapid.T) {
		s := genScenario(t)
		opts := map[string]string{}
		if s.hostOpt != "" {
			opts["host"] = s.hostOpt
		}
		if s.strip != "" {
			opts["strip"] = s.strip
		}
		if rapid.IntRange(0, 2).Draw(t, "route-with-access-rule") == 0 {
			// the route carries an access rule that has nothing against this peer (nor against any
			// address a client could claim here): the request passes the gate on its way
			if rapid.Bool().Draw(t, "rule-kind") {
				opts["deny"] = "ip:198.51.100.0/24,ip:2001:db8:dead::/48"
			} else {
				opts["allow"] = "ip:0.0.0.0/0,ip:::/0"
			}
			hx.Class("route-with-an-access-rule-that-admits-the-peer")
		}
		defs := []route.RouteDef{{Cmd: route.RouteAddCmd, Service: "svc", Src: "/", Dst: "http://upstream.internal:8000/", Opts: opts}}
		tbl, err := route.NewTableCustom(&defs)
		if err != nil {
			t.Fatal(err)
		}
		tg := tbl[""][0].Targets[0]
		cap := &capture{}
		lookup := func(*http.Request) *route.Target { return tg }
		// sometimes the request first meets a redirect route for its own host that is skipped because
		// it would redirect the request to itself (the client says X-Forwarded-Proto: <scheme of the
		// redirect>); it then falls through to the route above
		if xfp := s.sent["X-Forwarded-Proto"]; len(xfp) == 1 && (xfp[0] == "http" || xfp[0] == "https") && !strings.HasPrefix(s.host, "[") && rapid.Bool().Draw(t, "skipped-self-redirect-first") {
			text := fmt.Sprintf("route add redir %s/ %s://%s/$path opts \"redirect=301\"\nroute add svc / http://upstream.internal:8000/", strings.ToLower(s.host), xfp[0], s.host)
			if len(opts) > 0 {
				var o []string
				for k, v := range opts {
					o = append(o, k+"="+v)
				}
				text += ` opts "` + strings.Join(o, " ") + `"`
			}
			tbl2, err := route.NewTable(bytes.NewBufferString(text))
			if err != nil {
				t.Fatalf("%v\n%s", err, text)
			}
			cache := route.NewGlobCache(10)
			lookup = func(r *http.Request) *route.Target {
				return tbl2.Lookup(r, "", route.Picker["rr"], route.Matcher["prefix"], cache, false)
			}
			hx.Class("skipped-self-redirect-before-the-route")
		}
		p := &proxy.HTTPProxy{Stats: wire.Stats(), Config: s.cfg, Transport: cap, Lookup: lookup}
		req := &http.Request{
			Method: "GET", Proto: "HTTP/1.1", ProtoMajor: 1, ProtoMinor: 1,
			URL:        &url.URL{Path: "/api/x"},
			RequestURI: "/api/x",
			Host:       s.host,
			Header:     s.sent.Clone(),
			RemoteAddr: net.JoinHostPort(s.peerIP, strconv.Itoa(s.peerPort)),
			Body:       http.NoBody,
		}
		if s.tlsOn {
			req.TLS = &tls.ConnectionState{Version: s.tlsVersion, CipherSuite: s.cipher}
		}
		rec := httptest.NewRecorder()
		p.ServeHTTP(rec, req)
		hx.Eval()
		if rec.Code != 200 || cap.req == nil {
			t.Fatalf("request not forwarded: status %d\n%s", rec.Code, s)
		}
		verify(func(f string, a ...any) { t.Fatalf(f, a...) }, s, cap.req.Header, cap.req.Host, rec.Header(), false)
		if s.forged() || s.hostOpt != "" {
			hx.NonTrivial(s.String())
			hx.Class("nontrivial")
		}
		if s.hostOpt != "" {
			hx.Class("route-rewrites-host")
		}
		if strings.HasPrefix(s.host, "[") {
			hx.Class("ipv6-literal-host")
		}
		if s.tlsOn {
			hx.Class("tls")
		} else {
			hx.Class("plain")
		}
		if hx.WantSample("direct") && s.forged() && s.hostOpt != "" {
			hx.Sample("direct", map[string]any{"scenario": s.String(), "upstream_headers": fmt.Sprint(cap.req.Header)})
		}
	})
}

// ---------------------------------------------------------------------------
// real sockets: plain, TLS and websocket requests

type wsUpstream struct {
	ln    net.Listener
	mu    sync.Mutex
	last  *http.Request
	early int32 // != 0: a 103 Early Hints response precedes the final one
}

func newWSUpstream() *wsUpstream {
	ln, err := hx.Listen("tcp", "127.0.0.1:0")
	if err != nil {
		panic(err)
	}
	u := &wsUpstream{ln: ln}
	go func() {
		for {
			c, err := ln.Accept()
			if err != nil {
				return
			}
			go func(c net.Conn) {
				defer c.Close()
				r, err := http.ReadRequest(bufio.NewReader(c))
				if err != nil {
					return
				}
				u.mu.Lock()
				u.last = r
				u.mu.Unlock()
				if strings.EqualFold(r.Header.Get("Upgrade"), "websocket") {
					c.Write([]byte("HTTP/1.1 101 Switching Protocols\r\nUpgrade: websocket\r\nConnection: Upgrade\r\n\r\n"))
					c.Write([]byte("hi"))
				} else if up := r.Header.Get("Upgrade"); up != "" {
					// another protocol the upstream agrees to switch to
					c.Write([]byte("HTTP/1.1 101 Switching Protocols\r\nUpgrade: " + up + "\r\nConnection: Upgrade\r\n\r\n"))
					c.Write([]byte("hi"))
				} else {
					if atomic.LoadInt32(&u.early) != 0 {
						// informational response before the final one
						c.Write([]byte("HTTP/1.1 103 Early Hints\r\nLink: </style.css>; rel=preload\r\n\r\n"))
					}
					c.Write([]byte("HTTP/1.1 200 OK\r\nContent-Length: 2\r\nConnection: close\r\n\r\nok"))
				}
			}(c)
		}
	}()
	return u
}

func TestC08Loopback(t *testing.T) {
	up := newWSUpstream()
	defer up.ln.Close()
	var cur struct {
		sync.Mutex
		s  scenario
		tg *route.Target
	}
	handler := http.HandlerFunc(func(w http.ResponseWriter, r *http.Request) {
		cur.Lock()
		s, tg := cur.s, cur.tg
		cur.Unlock()
		p := &proxy.HTTPProxy{Stats: wire.Stats(), Config: s.cfg, Transport: &http.Transport{DisableCompression: true, DisableKeepAlives: true}, Lookup: func(*http.Request) *route.Target { return tg }}
		p.ServeHTTP(w, r)
	})
	plain := httptest.NewServer(handler)
	defer plain.Close()
	secure := httptest.NewTLSServer(handler)
	defer secure.Close()

	hx.Check(t, hx.Scale(1000, 5000), func(t *rapid.T) {
		s := genScenario(t)
		s.peerIP = "127.0.0.1"
		s.upgrade = rapid.SampledFrom([]string{"", "", "websocket", "Websocket", "WebSocket", "WEBSOCKET", "webSocket", "spdy/3.1", "myproto/2"}).Draw(t, "upgrade")
		isWS := strings.EqualFold(s.upgrade, "websocket")
		opts := map[string]string{}
		if s.hostOpt != "" {
			opts["host"] = s.hostOpt
		}
		defs := []route.RouteDef{{Cmd: route.RouteAddCmd, Service: "svc", Src: "/", Dst: "http://" + up.ln.Addr().String() + "/", Opts: opts}}
		tbl, err := route.NewTableCustom(&defs)
		if err != nil {
			t.Fatal(err)
		}
		cur.Lock()
		cur.s, cur.tg = s, tbl[""][0].Targets[0]
		cur.Unlock()
		up.mu.Lock()
		up.last = nil
		up.mu.Unlock()
		early := int32(0)
		if rapid.IntRange(0, 3).Draw(t, "early-hints-first") == 0 {
			early = 1
			hx.Class("loopback:upstream-sends-103-first")
		}
		atomic.StoreInt32(&up.early, early)

		srv := plain
		if s.tlsOn {
			srv = secure
		}
		var c net.Conn
		addr := srv.Listener.Addr().String()
		if s.tlsOn {
			c, err = tls.Dial("tcp", addr, &tls.Config{InsecureSkipVerify: true})
		} else {
			c, err = net.Dial("tcp", addr)
		}
		if err != nil {
			t.Fatalf("dial: %v", err)
		}
		defer c.Close()
		c.SetDeadline(time.Now().Add(10 * time.Second))
		var b strings.Builder
		fmt.Fprintf(&b, "GET /x HTTP/1.1\r\nHost: %s\r\n", s.host)
		for k, vs := range s.sent {
			for _, v := range vs {
				fmt.Fprintf(&b, "%s: %s\r\n", k, v)
			}
		}
		if s.upgrade != "" {
			fmt.Fprintf(&b, "Upgrade: %s\r\nConnection: Upgrade\r\nSec-WebSocket-Key: dGhlIHNhbXBsZSBub25jZQ==\r\nSec-WebSocket-Version: 13\r\n", s.upgrade)
		} else {
			b.WriteString("Connection: close\r\n")
		}
		b.WriteString("\r\n")
		if _, err := c.Write([]byte(b.String())); err != nil {
			t.Fatalf("write: %v", err)
		}
		br := bufio.NewReader(c)
		resp, err := http.ReadResponse(br, &http.Request{Method: "GET"})
		for err == nil && resp.StatusCode >= 102 && resp.StatusCode < 200 {
			resp, err = http.ReadResponse(br, &http.Request{Method: "GET"})
		}
		if err != nil {
			t.Fatalf("no response: %v\n%s", err, s)
		}
		hx.Eval()
		wantStatus := 200
		if s.upgrade != "" {
			wantStatus = 101
		}
		if resp.StatusCode != wantStatus {
			t.Fatalf("status %d want %d\n%s", resp.StatusCode, wantStatus, s)
		}
		up.mu.Lock()
		last := up.last
		up.mu.Unlock()
		if last == nil {
			t.Fatalf("upstream saw nothing\n%s", s)
		}
		var respHdr http.Header
		if s.upgrade == "" || !isWS {
			// (also the 101 that answers an upgrade to a protocol other than websocket is a response
			// fabio writes itself)
			respHdr = resp.Header
		}
		verify(func(f string, a ...any) { t.Fatalf(f, a...) }, s, last.Header, last.Host, respHdr, isWS)
		kind := "http"
		if isWS {
			kind = "websocket(" + s.upgrade + ")"
		} else if s.upgrade != "" {
			kind = "upgrade-to-another-protocol"
		}
		if s.tlsOn {
			kind += "+tls"
		}
		hx.Class("loopback:" + kind)
		if s.forged() || s.hostOpt != "" {
			hx.NonTrivial("loop|" + s.String())
		}
	})
}
