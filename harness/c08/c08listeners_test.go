package c08

import (
	"bufio"
	"context"
	"crypto/ecdsa"
	"crypto/elliptic"
	"crypto/rand"
	"crypto/tls"
	"crypto/x509"
	"crypto/x509/pkix"
	"fmt"
	"math/big"
	"net"
	"net/http"
	"strings"
	"sync"
	"sync/atomic"
	"testing"
	"time"

	"github.com/fabiolb/fabio/config"
	"github.com/fabiolb/fabio/proxy"
	"github.com/fabiolb/fabio/proxy/tcp"
	"github.com/fabiolb/fabio/route"
	"pgregory.net/rapid"

	"verifharness/hx"
	"verifharness/wire"
)

func selfSigned() tls.Certificate {
	key, _ := ecdsa.GenerateKey(elliptic.P256(), rand.Reader)
	tmpl := &x509.Certificate{SerialNumber: big.NewInt(1), Subject: pkix.Name{CommonName: "c08"}, NotBefore: time.Now().Add(-time.Hour), NotAfter: time.Now().Add(time.Hour), DNSNames: []string{"localhost"}}
	der, _ := x509.CreateCertificate(rand.Reader, tmpl, tmpl, &key.PublicKey, key)
	return tls.Certificate{Certificate: [][]byte{der}, PrivateKey: key}
}

func freeAddr() string { return hx.FreeAddr() }

// TestC08Listeners: the same header contract through fabio's own listeners,
// for every listener kind that ends in the HTTP handler (http, https, the
// https side of https+tcp+sni) with the PROXY protocol option on and off.
// With the option on (http/https) the client may announce another peer in a
// PROXY v1 line; that address is then the real peer.
func TestC08Listeners(t *testing.T) {
	up := newWSUpstream()
	defer up.ln.Close()
	var cur struct {
		sync.Mutex
		s  scenario
		tg *route.Target
	}
	handler := http.HandlerFunc(func(w http.ResponseWriter, r *http.Request) {
		cur.Lock()
		s, tg := cur.s, cur.tg
		cur.Unlock()
		p := &proxy.HTTPProxy{Stats: wire.Stats(), Config: s.cfg, Transport: &http.Transport{DisableCompression: true, DisableKeepAlives: true}, Lookup: func(*http.Request) *route.Target { return tg }}
		p.ServeHTTP(w, r)
	})
	cert := selfSigned()
	type lst struct {
		kind string
		pxy  bool
		addr string
	}
	var lsts []lst
	for _, kind := range []string{"http", "https", "https+tcp+sni"} {
		for _, pxy := range []bool{false, true} {
			l := lst{kind, pxy, freeAddr()}
			lsts = append(lsts, l)
			cl := config.Listen{Addr: l.addr, Proto: kind, ProxyProto: pxy, ProxyHeaderTimeout: 2 * time.Second}
			go func() {
				tlscfg := &tls.Config{Certificates: []tls.Certificate{cert}}
				switch cl.Proto {
				case "http":
					proxy.ListenAndServeHTTP(cl, handler, nil)
				case "https":
					proxy.ListenAndServeHTTP(cl, handler, tlscfg)
				default:
					never := func(context.Context, string) bool { return false } // no tcp route for the name: falls through to https
					proxy.ListenAndServeHTTPSTCPSNI(cl, handler, &tcp.SNIProxy{Lookup: func(string) *route.Target { return nil }}, tlscfg, never)
				}
			}()
		}
	}
	defer proxy.Shutdown(100 * time.Millisecond)
	for _, l := range lsts {
		ok := false
		for i := 0; i < 400 && !ok; i++ {
			if c, err := net.DialTimeout("tcp", l.addr, 200*time.Millisecond); err == nil {
				c.Close()
				ok = true
			} else {
				time.Sleep(5 * time.Millisecond)
			}
		}
		if !ok {
			t.Fatalf("VERIF-INCONCLUSIVE listener %s did not come up", l.kind)
		}
	}
	hx.Check(t, hx.Scale(600, 6000), func(t *rapid.T) {
		l := rapid.SampledFrom(lsts).Draw(t, "listener")
		s := genScenario(t)
		s.tlsOn = l.kind != "http"
		s.peerIP = "127.0.0.1"
		announce := ""
		if l.pxy && l.kind != "https+tcp+sni" && rapid.Bool().Draw(t, "proxy-line") {
			s.peerIP = rapid.SampledFrom([]string{"192.0.2.77", "10.1.2.3", "203.0.113.9"}).Draw(t, "announced")
			announce = fmt.Sprintf("PROXY TCP4 %s 192.0.2.200 %d 443\r\n", s.peerIP, rapid.IntRange(1024, 65000).Draw(t, "announced-port"))
		}
		opts := map[string]string{}
		if s.hostOpt != "" {
			opts["host"] = s.hostOpt
		}
		defs := []route.RouteDef{{Cmd: route.RouteAddCmd, Service: "svc", Src: "/", Dst: "http://" + up.ln.Addr().String() + "/", Opts: opts}}
		tbl, err := route.NewTableCustom(&defs)
		if err != nil {
			t.Fatal(err)
		}
		cur.Lock()
		cur.s, cur.tg = s, tbl[""][0].Targets[0]
		cur.Unlock()
		up.mu.Lock()
		up.last = nil
		up.mu.Unlock()

		early := int32(0)
		if rapid.IntRange(0, 3).Draw(t, "early-hints-first") == 0 {
			early = 1
			hx.Class("listener:upstream-sends-103-first")
		}
		atomic.StoreInt32(&up.early, early)
		raw, err := net.DialTimeout("tcp", l.addr, 5*time.Second)
		if err != nil {
			t.Fatalf("VERIF-INCONCLUSIVE dial: %v", err)
		}
		defer raw.Close()
		raw.SetDeadline(time.Now().Add(10 * time.Second))
		if announce != "" {
			if _, err := raw.Write([]byte(announce)); err != nil {
				t.Fatalf("write: %v", err)
			}
		}
		var c net.Conn = raw
		if s.tlsOn {
			tc := tls.Client(raw, &tls.Config{InsecureSkipVerify: true, ServerName: "localhost"})
			if err := tc.Handshake(); err != nil {
				t.Fatalf("TLS handshake with the %s listener (pxy=%v, PROXY line %q): %v", l.kind, l.pxy, announce, err)
			}
			c = tc
		}
		var b strings.Builder
		fmt.Fprintf(&b, "GET /x HTTP/1.1\r\nHost: %s\r\n", s.host)
		for k, vs := range s.sent {
			for _, v := range vs {
				fmt.Fprintf(&b, "%s: %s\r\n", k, v)
			}
		}
		b.WriteString("Connection: close\r\n\r\n")
		if _, err := c.Write([]byte(b.String())); err != nil {
			t.Fatalf("write: %v", err)
		}
		br := bufio.NewReader(c)
		resp, err := http.ReadResponse(br, &http.Request{Method: "GET"})
		for err == nil && resp.StatusCode >= 102 && resp.StatusCode < 200 {
			resp, err = http.ReadResponse(br, &http.Request{Method: "GET"})
		}
		if err != nil {
			t.Fatalf("no response: %v\n%s", err, s)
		}
		hx.Eval()
		if resp.StatusCode != 200 {
			t.Fatalf("status %d\n%s", resp.StatusCode, s)
		}
		up.mu.Lock()
		last := up.last
		up.mu.Unlock()
		if last == nil {
			t.Fatalf("upstream saw nothing\n%s", s)
		}
		ctx := fmt.Sprintf("listener proto=%s pxy=%v PROXY line %q", l.kind, l.pxy, strings.TrimSpace(announce))
		verify(func(f string, a ...any) { t.Fatalf(ctx+"\n"+f, a...) }, s, last.Header, last.Host, resp.Header, false)
		cls := fmt.Sprintf("listener:%s pxy=%v", l.kind, l.pxy)
		if announce != "" {
			cls += " announced-peer"
		}
		hx.Class(cls)
		if s.forged() || s.hostOpt != "" || announce != "" {
			hx.NonTrivial("lst|" + ctx + "|" + s.String())
		}
		if hx.WantSample("listener") && announce != "" {
			hx.Sample("listener", map[string]any{"listener": ctx, "scenario": s.String(), "upstream_saw_xff": last.Header.Get("X-Forwarded-For")})
		}
	})
}
