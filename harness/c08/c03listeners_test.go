package c08

import (
	"bufio"
	"bytes"
	"context"
	"crypto/tls"
	"fmt"
	"net"
	"net/http"
	"testing"
	"time"

	"github.com/fabiolb/fabio/config"
	"github.com/fabiolb/fabio/proxy"
	"github.com/fabiolb/fabio/proxy/tcp"
	"github.com/fabiolb/fabio/route"
	"pgregory.net/rapid"

	"verifharness/hx"
	"verifharness/wire"
)

// C03 through fabio's own listeners: the default port of the connection (443 on the TLS kinds,
// 80 on plain http) is removed from the request host before the host routes are consulted -
// whatever listener options (PROXY protocol on or off) sit in front of the HTTP handler.
func TestC03DefaultPortThroughListeners(t *testing.T) {
	up := newWSUpstream()
	defer up.ln.Close()
	text := fmt.Sprintf("route add byhost example.com/ http://%s/?via=host\nroute add fallback / http://%s/?via=fallback\n", up.ln.Addr(), up.ln.Addr())
	tbl, err := route.NewTable(bytes.NewBufferString(text))
	if err != nil {
		t.Fatal(err)
	}
	cache := route.NewGlobCache(10)
	handler := &proxy.HTTPProxy{Stats: wire.Stats(), Transport: &http.Transport{DisableCompression: true, DisableKeepAlives: true},
		Lookup: func(r *http.Request) *route.Target {
			return tbl.Lookup(r, "", route.Picker["rr"], route.Matcher["prefix"], cache, false)
		}}
	cert := selfSigned()
	type lst struct {
		kind string
		pxy  bool
		addr string
	}
	var lsts []lst
	for _, kind := range []string{"https+tcp+sni", "https", "http"} {
		for _, pxy := range []bool{true, false} {
			l := lst{kind, pxy, freeAddr()}
			lsts = append(lsts, l)
			cl := config.Listen{Addr: l.addr, Proto: kind, ProxyProto: pxy, ProxyHeaderTimeout: 2 * time.Second}
			go func() {
				tlscfg := &tls.Config{Certificates: []tls.Certificate{cert}}
				switch cl.Proto {
				case "http":
					proxy.ListenAndServeHTTP(cl, handler, nil)
				case "https":
					proxy.ListenAndServeHTTP(cl, handler, tlscfg)
				default:
					never := func(context.Context, string) bool { return false }
					proxy.ListenAndServeHTTPSTCPSNI(cl, handler, &tcp.SNIProxy{Lookup: func(string) *route.Target { return nil }}, tlscfg, never)
				}
			}()
		}
	}
	for _, l := range lsts {
		ok := false
		for i := 0; i < 400 && !ok; i++ {
			if c, err := net.DialTimeout("tcp", l.addr, 200*time.Millisecond); err == nil {
				c.Close()
				ok = true
			} else {
				time.Sleep(5 * time.Millisecond)
			}
		}
		if !ok {
			t.Fatalf("VERIF-INCONCLUSIVE listener %s did not come up", l.kind)
		}
	}
	hx.Check(t, hx.Scale(120, 1500), func(t *rapid.T) {
		l := rapid.SampledFrom(lsts).Draw(t, "listener")
		onTLS := l.kind != "http"
		dflt, other := "80", "443"
		if onTLS {
			dflt, other = "443", "80"
		}
		form := rapid.SampledFrom([]string{"default-port", "no-port", "other-port", "default-port"}).Draw(t, "host-form")
		host, want := "example.com", "via=host"
		switch form {
		case "default-port":
			host += ":" + dflt
		case "other-port":
			host, want = host+":"+other, "via=fallback"
		}
		raw, err := net.DialTimeout("tcp", l.addr, 5*time.Second)
		if err != nil {
			t.Fatalf("VERIF-INCONCLUSIVE dial: %v", err)
		}
		defer raw.Close()
		raw.SetDeadline(time.Now().Add(10 * time.Second))
		if l.pxy && l.kind != "https+tcp+sni" && rapid.Bool().Draw(t, "proxy-line") {
			fmt.Fprintf(raw, "PROXY TCP4 192.0.2.77 192.0.2.200 5555 %s\r\n", dflt)
		}
		var c net.Conn = raw
		if onTLS {
			tc := tls.Client(raw, &tls.Config{InsecureSkipVerify: true, ServerName: "example.com"})
			if err := tc.Handshake(); err != nil {
				t.Fatalf("VERIF-INCONCLUSIVE handshake: %v", err)
			}
			c = tc
		}
		up.mu.Lock()
		up.last = nil
		up.mu.Unlock()
		fmt.Fprintf(c, "GET /x HTTP/1.1\r\nHost: %s\r\nConnection: close\r\n\r\n", host)
		resp, err := http.ReadResponse(bufio.NewReader(c), nil)
		hx.Eval()
		if err != nil || resp.StatusCode != 200 {
			t.Fatalf("%s listener (pxyproto=%v), Host %s: no answer (%v %v)", l.kind, l.pxy, host, resp, err)
		}
		up.mu.Lock()
		last := up.last
		up.mu.Unlock()
		if last == nil || last.URL.RawQuery != want {
			got := "<nothing>"
			if last != nil {
				got = last.URL.RawQuery
			}
			t.Fatalf("%s listener (pxyproto=%v), request for Host %s: routed %s, want %s\n%s", l.kind, l.pxy, host, got, want, text)
		}
		hx.Class(fmt.Sprintf("listener-routing:%s:pxyproto=%v:%s", l.kind, l.pxy, form))
		hx.NonTrivial(fmt.Sprintf("lstroute|%s|%v|%s", l.kind, l.pxy, form))
	})
}
