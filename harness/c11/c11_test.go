package c11

import (
	"strconv"
	"crypto/ecdsa"
	"crypto/elliptic"
	"crypto/rand"
	"crypto/tls"
	"crypto/x509"
	"crypto/x509/pkix"
	"encoding/pem"
	"fmt"
	"math/big"
	"net"
	"net/http"
	"net/http/httptest"
	"os"
	"path/filepath"
	"sort"
	"strings"
	"sync"
	"sync/atomic"
	"testing"
	"time"

	"github.com/fabiolb/fabio/cert"
	"pgregory.net/rapid"

	"verifharness/fakeconsul"
	"verifharness/hx"
)

func TestMain(m *testing.M) { hx.Main(m) }

// ---------------------------------------------------------------------------
// certificate factory

var (
	keyOnce sync.Once
	keys    []*ecdsa.PrivateKey
	serial  int64
)

func key(i int) *ecdsa.PrivateKey {
	keyOnce.Do(func() {
		for k := 0; k < 4; k++ {
			p, err := ecdsa.GenerateKey(elliptic.P256(), rand.Reader)
			if err != nil {
				panic(err)
			}
			keys = append(keys, p)
		}
	})
	return keys[i%len(keys)]
}

type certSpec struct {
	cn   string
	sans []string
	id   string // "<generation>/<index>" stored in the subject organisation
}

func (c certSpec) names() []string {
	n := append([]string{}, c.sans...)
	if c.cn != "" {
		n = append(n, c.cn)
	}
	return n
}

func makeCert(c certSpec, k int) (tls.Certificate, []byte, []byte) {
	tmpl := &x509.Certificate{
		SerialNumber: big.NewInt(atomic.AddInt64(&serial, 1)),
		Subject:      pkix.Name{CommonName: c.cn, Organization: []string{c.id}},
		NotBefore:    time.Now().Add(-time.Hour), NotAfter: time.Now().Add(24 * time.Hour),
		DNSNames:    c.sans,
		KeyUsage:    x509.KeyUsageDigitalSignature,
		ExtKeyUsage: []x509.ExtKeyUsage{x509.ExtKeyUsageServerAuth},
	}
	priv := key(k)
	der, err := x509.CreateCertificate(rand.Reader, tmpl, tmpl, &priv.PublicKey, priv)
	if err != nil {
		panic(err)
	}
	kb, _ := x509.MarshalECPrivateKey(priv)
	certPEM := pem.EncodeToMemory(&pem.Block{Type: "CERTIFICATE", Bytes: der})
	keyPEM := pem.EncodeToMemory(&pem.Block{Type: "EC PRIVATE KEY", Bytes: kb})
	return tls.Certificate{Certificate: [][]byte{der}, PrivateKey: priv}, certPEM, keyPEM
}

func idOf(c *tls.Certificate) string {
	if c == nil {
		return "<nil>"
	}
	x, err := x509.ParseCertificate(c.Certificate[0])
	if err != nil {
		return "<unparsable>"
	}
	if len(x.Subject.Organization) == 0 {
		return "<no id>"
	}
	return x.Subject.Organization[0]
}

// ---------------------------------------------------------------------------
// generators

var universe = []string{"example.com", "www.example.com", "api.example.com", "*.example.com", "*.api.example.com", "a.api.example.com", "example.org", "*.example.org", "foo.test", "*.test", "localhost"}

func genSet(t *rapid.T, gen int) []certSpec {
	n := rapid.IntRange(1, 6).Draw(t, "ncerts")
	var set []certSpec
	for i := 0; i < n; i++ {
		c := certSpec{id: fmt.Sprintf("%d/%d", gen, i)}
		if rapid.IntRange(0, 4).Draw(t, "hascn") > 0 {
			c.cn = rapid.SampledFrom(universe).Draw(t, "cn")
		}
		for j, k := 0, rapid.IntRange(0, 3).Draw(t, "nsans"); j < k; j++ {
			c.sans = append(c.sans, rapid.SampledFrom(universe).Draw(t, "san"))
		}
		if c.cn == "" && len(c.sans) == 0 {
			c.cn = "only-" + c.id + ".invalid"
		}
		set = append(set, c)
	}
	return set
}

func genName(t *rapid.T) string {
	base := rapid.SampledFrom([]string{"example.com", "www.example.com", "api.example.com", "x.example.com", "a.api.example.com", "b.api.example.com", "deep.a.api.example.com", "example.org", "w.example.org", "foo.test", "bar.test", "localhost", "unrelated.net", "com", ""}).Draw(t, "name")
	switch rapid.IntRange(0, 5).Draw(t, "namemod") {
	case 1:
		base = strings.ToUpper(base)
	case 2:
		b := []byte(base)
		for i := range b {
			if b[i] >= 'a' && b[i] <= 'z' && rapid.Bool().Draw(t, "up") {
				b[i] -= 32
			}
		}
		base = string(b)
	case 3:
		if base != "" {
			base += "."
		}
	case 4:
		if base != "" {
			base += ".."
		}
	}
	return base
}

// reference selection: ids acceptable for the name; nil slice = no certificate
func reference(set []certSpec, name string, strict bool) (ids []string, level string) {
	n := strings.ToLower(name)
	for strings.HasSuffix(n, ".") {
		n = strings.TrimSuffix(n, ".")
	}
	for _, c := range set {
		for _, x := range c.names() {
			if x == n && n != "" {
				ids = append(ids, c.id)
			}
		}
	}
	if len(ids) > 0 {
		return ids, "exact"
	}
	if i := strings.Index(n, "."); i >= 0 {
		w := "*" + n[i:]
		for _, c := range set {
			for _, x := range c.names() {
				if x == w {
					ids = append(ids, c.id)
				}
			}
		}
	}
	if len(ids) > 0 {
		return ids, "wildcard"
	}
	if strict {
		return nil, "none"
	}
	return []string{set[0].id}, "default"
}

func contains(ids []string, id string) bool {
	for _, x := range ids {
		if x == id {
			return true
		}
	}
	return false
}

// ---------------------------------------------------------------------------
// a Source the harness publishes through

type chanSource struct{ ch chan []tls.Certificate }

func (s chanSource) Certificates() chan []tls.Certificate   { return s.ch }
func (s chanSource) LoadClientCAs() (*x509.CertPool, error) { return nil, nil }

func build(set []certSpec) []tls.Certificate {
	var out []tls.Certificate
	for i, c := range set {
		tc, _, _ := makeCert(c, i)
		out = append(out, tc)
	}
	return out
}

// waitVisible polls until the configuration serves the given generation.
func waitVisible(cfg *tls.Config, gen int) bool {
	deadline := time.Now().Add(10 * time.Second)
	for time.Now().Before(deadline) {
		c, _ := cfg.GetCertificate(&tls.ClientHelloInfo{ServerName: "probe.invalid"})
		if c != nil && strings.HasPrefix(idOf(c), fmt.Sprintf("%d/", gen)) {
			return true
		}
		time.Sleep(200 * time.Microsecond)
	}
	return false
}

func TestC11Selection(t *testing.T) {
	type env struct {
		src chanSource
		cfg *tls.Config
	}
	mk := func(strict bool) env {
		src := chanSource{ch: make(chan []tls.Certificate)}
		cfg, err := cert.TLSConfig(src, strict, 0, 0, nil)
		if err != nil {
			t.Fatal(err)
		}
		return env{src, cfg}
	}
	loose, strictEnv := mk(false), mk(true)
	gen := 0
	hx.Check(t, hx.Scale(1200, 50000), func(t *rapid.T) {
		gen++
		set := genSet(t, gen)
		certs := build(set)
		loose.src.ch <- certs
		strictEnv.src.ch <- certs
		if !waitVisible(loose.cfg, gen) {
			t.Fatalf("VERIF-INCONCLUSIVE published set %d never became visible", gen)
		}
		// strict listeners have no default: probe with a name of the set
		deadline := time.Now().Add(10 * time.Second)
		probe := strings.Replace(set[0].names()[0], "*", "x", 1)
		for {
			c, _ := strictEnv.cfg.GetCertificate(&tls.ClientHelloInfo{ServerName: probe})
			if c != nil && strings.HasPrefix(idOf(c), fmt.Sprintf("%d/", gen)) {
				break
			}
			if time.Now().After(deadline) {
				t.Fatalf("VERIF-INCONCLUSIVE published set %d never became visible on the strict listener", gen)
			}
			time.Sleep(200 * time.Microsecond)
		}
		for q, nq := 0, rapid.IntRange(3, 12).Draw(t, "nqueries"); q < nq; q++ {
			name := genName(t)
			for _, strict := range []bool{false, true} {
				e := loose
				if strict {
					e = strictEnv
				}
				got, err := e.cfg.GetCertificate(&tls.ClientHelloInfo{ServerName: name})
				hx.Eval()
				want, level := reference(set, name, strict)
				ctx := fmt.Sprintf("requested %q strict=%v\nset: %+v", name, strict, set)
				if want == nil {
					if got != nil {
						t.Fatalf("strict listener presented %s for a name no certificate covers\n%s", idOf(got), ctx)
					}
				} else {
					if got == nil {
						t.Fatalf("no certificate presented (err=%v), reference level %s allows %v\n%s", err, level, want, ctx)
					}
					if !contains(want, idOf(got)) {
						t.Fatalf("presented certificate %s, best matching (%s) are %v\n%s", idOf(got), level, want, ctx)
					}
				}
				hx.Class("level:" + level)
				if len(set) >= 2 && (level == "wildcard" || level == "exact") {
					hx.NonTrivial(fmt.Sprintf("%v|%s|%v", set, name, strict))
					hx.Class("nontrivial")
				}
				if hx.WantSample("selection") && level == "wildcard" && len(set) >= 3 {
					hx.Sample("selection", map[string]any{"set": fmt.Sprintf("%+v", set), "name": name, "strict": strict, "presented": idOf(got), "level": level})
				}
			}
		}
	})
}

// real handshakes against a listener using the configuration
func TestC11Handshakes(t *testing.T) {
	for _, strict := range []bool{false, true} {
		strict := strict
		src := chanSource{ch: make(chan []tls.Certificate)}
		cfg, err := cert.TLSConfig(src, strict, 0, 0, nil)
		if err != nil {
			t.Fatal(err)
		}
		ln, err := tls.Listen("tcp", "127.0.0.1:0", cfg)
		if err != nil {
			t.Fatal(err)
		}
		go func() {
			for {
				c, err := ln.Accept()
				if err != nil {
					return
				}
				go func(c net.Conn) {
					c.SetDeadline(time.Now().Add(5 * time.Second))
					c.(*tls.Conn).Handshake()
					c.Close()
				}(c)
			}
		}()
		gen := 1000
		if strict {
			gen = 2000
		}
		hx.Check(t, hx.Scale(120, 3000), func(t *rapid.T) {
			gen++
			set := genSet(t, gen)
			src.ch <- build(set)
			probe := strings.Replace(set[0].names()[0], "*", "x", 1)
			deadline := time.Now().Add(10 * time.Second)
			for {
				c, _ := cfg.GetCertificate(&tls.ClientHelloInfo{ServerName: probe})
				if c != nil && strings.HasPrefix(idOf(c), fmt.Sprintf("%d/", gen)) {
					break
				}
				if time.Now().After(deadline) {
					t.Fatalf("VERIF-INCONCLUSIVE set never visible")
				}
				time.Sleep(200 * time.Microsecond)
			}
			for q := 0; q < 4; q++ {
				name := genName(t)
				if strings.HasSuffix(name, "..") {
					continue // not a name a TLS client can put into the extension
				}
				conn, err := tls.Dial("tcp", ln.Addr().String(), &tls.Config{ServerName: name, InsecureSkipVerify: true})
				hx.Eval()
				// the client strips one trailing dot; an empty name sends no extension
				want, level := reference(set, name, strict)
				ctx := fmt.Sprintf("handshake with server name %q strict=%v\nset: %+v", name, strict, set)
				if want == nil {
					if err == nil {
						id := "?"
						if cs := conn.ConnectionState(); len(cs.PeerCertificates) > 0 && len(cs.PeerCertificates[0].Subject.Organization) > 0 {
							id = cs.PeerCertificates[0].Subject.Organization[0]
						}
						conn.Close()
						t.Fatalf("strict listener completed a handshake with certificate %s\n%s", id, ctx)
					}
					hx.Class("handshake:refused(strict)")
					continue
				}
				if err != nil {
					t.Fatalf("handshake failed: %v; reference level %s allows %v\n%s", err, level, want, ctx)
				}
				cs := conn.ConnectionState()
				conn.Close()
				id := cs.PeerCertificates[0].Subject.Organization[0]
				if !contains(want, id) {
					t.Fatalf("handshake presented %s, best matching (%s) are %v\n%s", id, level, want, ctx)
				}
				hx.Class("handshake:" + level)
				if len(set) >= 2 {
					hx.NonTrivial(fmt.Sprintf("hs|%v|%s|%v", set, name, strict))
				}
			}
		})
		ln.Close()
	}
}

// handshakes never see a mixture of two sets while sets are replaced (run with -race)
func TestC11ConcurrentReplacement(t *testing.T) {
	hx.Check(t, hx.Scale(12, 120), func(t *rapid.T) {
		src := chanSource{ch: make(chan []tls.Certificate)}
		strict := rapid.Bool().Draw(t, "strict")
		cfg, err := cert.TLSConfig(src, strict, 0, 0, nil)
		if err != nil {
			t.Fatal(err)
		}
		setA, setB := genSet(t, 1), genSet(t, 2)
		A, B := build(setA), build(setB)
		src.ch <- A
		// wait until the first set is visible (the store starts empty)
		probe := strings.Replace(setA[0].names()[0], "*", "x", 1)
		for deadline := time.Now().Add(10 * time.Second); ; {
			c, _ := cfg.GetCertificate(&tls.ClientHelloInfo{ServerName: probe})
			if c != nil {
				break
			}
			if time.Now().After(deadline) {
				t.Fatalf("VERIF-INCONCLUSIVE first set never visible")
			}
			time.Sleep(200 * time.Microsecond)
		}
		names := []string{}
		for i, n := 0, rapid.IntRange(1, 4).Draw(t, "nnames"); i < n; i++ {
			names = append(names, genName(t))
		}
		G := rapid.IntRange(2, 16).Draw(t, "goroutines")
		var stop int32
		var wg sync.WaitGroup
		var failed atomic.Value
		wg.Add(1)
		go func() {
			defer wg.Done()
			for i := 0; atomic.LoadInt32(&stop) == 0; i++ {
				if i%2 == 0 {
					src.ch <- B
				} else {
					src.ch <- A
				}
			}
		}()
		per := hx.Pick(3000, 20000)
		var rwg sync.WaitGroup
		for g := 0; g < G; g++ {
			rwg.Add(1)
			go func(g int) {
				defer rwg.Done()
				for i := 0; i < per && failed.Load() == nil; i++ {
					name := names[(g+i)%len(names)]
					got, _ := cfg.GetCertificate(&tls.ClientHelloInfo{ServerName: name})
					wa, _ := reference(setA, name, strict)
					wb, _ := reference(setB, name, strict)
					id := idOf(got)
					okA := (wa == nil && got == nil) || (got != nil && contains(wa, id))
					okB := (wb == nil && got == nil) || (got != nil && contains(wb, id))
					if !okA && !okB {
						failed.CompareAndSwap(nil, fmt.Sprintf("name %q strict=%v: presented %s which is right neither for set A %v nor for set B %v\nA: %+v\nB: %+v", name, strict, id, wa, wb, setA, setB))
					}
				}
			}(g)
		}
		rwg.Wait()
		atomic.StoreInt32(&stop, 1)
		// drain a pending send
		done := make(chan struct{})
		go func() { wg.Wait(); close(done) }()
		for {
			select {
			case <-done:
				goto out
			default:
				time.Sleep(time.Millisecond)
			}
		}
	out:
		close(src.ch) // ends the store's update goroutine
		hx.EvalN(G * per)
		if f := failed.Load(); f != nil {
			t.Fatalf("%s", f)
		}
		hx.NonTrivial(fmt.Sprintf("conc|%v|%v|%v", setA, setB, names))
		hx.Class("concurrent-replacement")
	})
}

// ---------------------------------------------------------------------------
// histories of good and bad loads through the real path and http sources

type fileSet map[string][]byte

func goodFiles(set []certSpec) fileSet {
	fs := fileSet{}
	for i, c := range set {
		_, cp, kp := makeCert(c, i)
		base := fmt.Sprintf("%c%d", 'a'+i, i)
		if i%2 == 0 {
			fs[base+"-cert.pem"] = cp
			fs[base+"-key.pem"] = kp
		} else {
			fs[base+".pem"] = append(append([]byte{}, cp...), kp...)
		}
	}
	return fs
}

// goodFilesNested: one directory per site, the same file names in each (http sources list
// their files relative to the list's own directory)
func goodFilesNested(set []certSpec) fileSet {
	fs := fileSet{}
	for i, c := range set {
		_, cp, kp := makeCert(c, i)
		fs[fmt.Sprintf("s%d/tls-cert.pem", i)] = cp
		fs[fmt.Sprintf("s%d/tls-key.pem", i)] = kp
	}
	return fs
}

func badFiles(kind string, working []certSpec) fileSet {
	_, cp, kp := makeCert(certSpec{cn: "bad.example.com", id: "bad/0"}, 0)
	_, _, otherKey := makeCert(certSpec{cn: "x", id: "bad/1"}, 1)
	switch kind {
	case "one-of-two-truncated": // a damaged renewal of one site, the other files are fine
		fs := goodFiles(working)
		fs["b1.pem"] = fs["b1.pem"][:len(fs["b1.pem"])/3]
		return fs
	case "one-of-two-empty-file": // a renewal caught in the middle of a non-atomic write
		fs := goodFiles(working)
		fs["b1.pem"] = []byte{}
		return fs
	case "all-files-empty":
		fs := goodFiles(working)
		for k := range fs {
			fs[k] = []byte{}
		}
		return fs
	case "one-of-two-key-mismatch":
		fs := goodFiles(working)
		fs["a0-key.pem"] = otherKey
		return fs
	case "good-plus-garbage-file":
		fs := goodFiles(working)
		fs["c9.pem"] = []byte("-----BEGIN CERTIFICATE-----\nnot base64 at all\n-----END CERTIFICATE-----\n")
		return fs
	case "broken-pem":
		return fileSet{"a0.pem": []byte("-----BEGIN CERTIFICATE-----\nnot base64 at all\n-----END CERTIFICATE-----\n")}
	case "truncated":
		return fileSet{"a0-cert.pem": cp[:len(cp)/2], "a0-key.pem": kp}
	case "key-mismatch":
		return fileSet{"a0-cert.pem": cp, "a0-key.pem": otherKey}
	case "missing-key":
		return fileSet{"a0-cert.pem": cp}
	default: // garbage
		return fileSet{"a0.pem": []byte("hello world")}
	}
}

func writeDir(dir string, fs fileSet) {
	// add (or atomically replace) the new files first and remove left-overs
	// afterwards, so that the directory is never empty in between
	for name, b := range fs {
		tmp := filepath.Join(dir, "."+name+".tmp")
		os.WriteFile(tmp, b, 0o600)
	}
	for name := range fs {
		os.Rename(filepath.Join(dir, "."+name+".tmp"), filepath.Join(dir, name))
	}
	old, _ := filepath.Glob(filepath.Join(dir, "*.pem"))
	for _, f := range old {
		if _, keep := fs[filepath.Base(f)]; !keep {
			os.Remove(f)
		}
	}
}

func firstByFileName(set []certSpec) string {
	// goodFiles names the files a0, b1, c2 ...: alphabetical order is index order
	return set[0].id
}

func TestC11SourceHistories(t *testing.T) {
	N := hx.Pick(8, 30)
	var wg sync.WaitGroup
	errs := make(chan string, N)
	incon := make(chan string, N)
	for h := hx.Shard() * N; h < (hx.Shard()+1)*N; h++ {
		h := h
		wg.Add(1)
		go func() {
			defer wg.Done()
			kind := []string{"path", "http", "consul"}[h%3]
			bad := []string{"broken-pem", "one-of-two-truncated", "truncated", "key-mismatch", "one-of-two-key-mismatch", "missing-key", "garbage", "good-plus-garbage-file", "one-of-two-empty-file", "all-files-empty"}[(h/3+int(hx.Seed()))%10]
			// http sources: some keep one directory per site; for some the unusable material is a list
			// whose download is cut off after the first complete certificate/key pair
			nested := kind == "http" && (h/3)%2 == 0
			mk := goodFiles
			if nested {
				mk = goodFilesNested
			}
			if nested || kind == "http" && (h/3)%4 == 1 {
				bad = "list-cut-off"
			}
			if kind == "http" && (h/3)%4 == 3 {
				// the certificate server answers with an error page for a while (it is restarting)
				bad = []string{"server-answers-503", "server-answers-404", "server-answers-500"}[(h/12)%3]
			}
			var errorPage atomic.Int32
			var cutList atomic.Bool
			gen1, gen2 := 100+2*h, 101+2*h
			set1 := []certSpec{{cn: "one.example.com", sans: []string{"*.one.example.com"}, id: fmt.Sprintf("%d/0", gen1)}, {cn: "two.example.com", id: fmt.Sprintf("%d/1", gen1)}}
			set2 := []certSpec{{cn: "three.example.com", id: fmt.Sprintf("%d/0", gen2)}, {cn: "one.example.com", id: fmt.Sprintf("%d/1", gen2)}}
			dir, err := os.MkdirTemp("", "verif-c11-")
			if err != nil {
				errs <- err.Error()
				return
			}
			defer os.RemoveAll(dir)
			certDir := filepath.Join(dir, "cert")
			os.Mkdir(certDir, 0o700)
			// some path sources sit behind a release symlink (cert=<dir>/current with current -> rel1):
			// a new set is then published by writing rel2 and re-pointing the link
			viaLink := kind == "path" && (h/3)%2 == 1
			srcPath, release := dir, 1
			if viaLink {
				os.MkdirAll(filepath.Join(dir, "rel1", "cert"), 0o700)
				os.Symlink("rel1", filepath.Join(dir, "current"))
				certDir, srcPath = filepath.Join(dir, "rel1", "cert"), filepath.Join(dir, "current")
			}
			repoint := func() {
				release++
				rel := fmt.Sprintf("rel%d", release)
				certDir = filepath.Join(dir, rel, "cert")
				os.MkdirAll(certDir, 0o700)
			}
			relink := func() {
				tmp := filepath.Join(dir, "current.tmp")
				os.Remove(tmp)
				os.Symlink(fmt.Sprintf("rel%d", release), tmp)
				os.Rename(tmp, filepath.Join(dir, "current"))
			}
			var listHits int64
			var src cert.Source
			prefix := []string{"/", "/certs/", "/path/to/cert/"}[(h/2)%3] // directory of the list file on the http server
			var current atomic.Value
			current.Store(mk(set1))
			var fc *fakeconsul.Server
			publish := func(fs fileSet) {
				current.Store(fs)
				switch kind {
				case "path":
					writeDir(certDir, fs)
				case "consul":
					fc.MutateKV(func(kv map[string]string) {
						for k := range kv {
							delete(kv, k)
						}
						for name, b := range fs {
							kv["certs/"+name] = string(b)
						}
					})
				}
			}
			if kind == "consul" {
				fc = fakeconsul.New()
				publish(mk(set1))
				src = cert.ConsulSource{CertURL: "http://" + fc.Addr() + "/v1/kv/certs"}
			} else if kind == "path" {
				writeDir(certDir, current.Load().(fileSet))
				src = cert.PathSource{Path: srcPath, Refresh: time.Second}
			} else {
				srv := httptest.NewServer(http.HandlerFunc(func(w http.ResponseWriter, r *http.Request) {
					if code := int(errorPage.Load()); code != 0 {
						http.Error(w, "<html><body>the certificate service is starting up</body></html>", code)
						return
					}
					fs := current.Load().(fileSet)
					if r.URL.Path == prefix+"list" {
						atomic.AddInt64(&listHits, 1)
						var names []string
						for n := range fs {
							names = append(names, n)
						}
						sort.Strings(names)
						full := strings.Join(names, "\n")
						if cutList.Load() && len(names) >= 3 {
							// the connection dies after the first two names (one complete pair)
							w.Header().Set("Content-Length", strconv.Itoa(len(full)))
							w.WriteHeader(200)
							fmt.Fprint(w, names[0]+"\n"+names[1]+"\n")
							w.(http.Flusher).Flush()
							if hj, ok := w.(http.Hijacker); ok {
								if c, _, err := hj.Hijack(); err == nil {
									c.Close()
								}
							}
							return
						}
						fmt.Fprint(w, full)
						return
					}
					if b, ok := fs[strings.TrimPrefix(r.URL.Path, prefix)]; ok {
						w.Write(b)
						return
					}
					http.NotFound(w, r)
				}))
				defer srv.Close()
				src = cert.HTTPSource{CertURL: srv.URL + prefix + "list", Refresh: time.Second}
			}
			cfg, err := cert.TLSConfig(src, false, 0, 0, nil)
			if err != nil {
				errs <- "TLSConfig: " + err.Error()
				return
			}
			served := func(name string) string {
				c, _ := cfg.GetCertificate(&tls.ClientHelloInfo{ServerName: name})
				return idOf(c)
			}
			waitFor := func(name, want string, d time.Duration) bool {
				deadline := time.Now().Add(d)
				for time.Now().Before(deadline) {
					if served(name) == want {
						return true
					}
					time.Sleep(5 * time.Millisecond)
				}
				return false
			}
			ctx := fmt.Sprintf("%s source, bad material: %s", kind, bad)
			if kind == "http" {
				ctx += ", list at " + prefix + "list"
			}
			// 1. first good load
			if !waitFor("one.example.com", set1[0].id, 15*time.Second) {
				incon <- "first load never became visible: " + ctx
				return
			}
			if got := served("unknown.example.net"); got != firstByFileName(set1) {
				errs <- fmt.Sprintf("default certificate is %s, want the first of the set %s (%s)", got, firstByFileName(set1), ctx)
				return
			}
			if got := served("x.one.example.com"); got != set1[0].id {
				errs <- fmt.Sprintf("wildcard name served %s (%s)", got, ctx)
				return
			}
			// 2. unusable material for ~2.5 s
			hits0 := atomic.LoadInt64(&listHits)
			if strings.HasPrefix(bad, "server-answers-") {
				code, _ := strconv.Atoi(strings.TrimPrefix(bad, "server-answers-"))
				errorPage.Store(int32(code))
				hx.Class("history:http-server-answers-with-an-error-page")
			} else if bad == "list-cut-off" {
				cutList.Store(true)
				hx.Class("history:http-list-download-cut-off")
			} else {
				publish(badFiles(bad, set1))
			}
			if nested {
				hx.Class("history:http-source-with-one-directory-per-site")
			}
			start := time.Now()
			for time.Since(start) < 2500*time.Millisecond {
				if got := served("one.example.com"); got != set1[0].id {
					errs <- fmt.Sprintf("after %v of unusable material the served certificate changed from %s to %s (%s)", time.Since(start), set1[0].id, got, ctx)
					return
				}
				if got := served("two.example.com"); got != set1[1].id {
					errs <- fmt.Sprintf("working set lost: two.example.com served %s (%s)", got, ctx)
					return
				}
				time.Sleep(20 * time.Millisecond)
			}
			elapsed := time.Since(start)
			if kind == "http" {
				hits := atomic.LoadInt64(&listHits) - hits0
				if limit := int64(elapsed/time.Second) + 2; hits > limit {
					errs <- fmt.Sprintf("certificate source was polled %d times in %v while it delivered unusable material (refresh is 1s: at most %d expected): the watcher spins (%s)", hits, elapsed, limit, ctx)
					return
				}
			}
			cutList.Store(false)
			errorPage.Store(0)
			// 3. a new good set takes effect without restart
			if kind == "consul" && h%2 == 0 {
				// the Consul servers were restored from a snapshot in the meantime: indexes restart low
				fc.Rewind()
				hx.Class("history:consul-index-goes-backwards-before-the-next-set")
			}
			if kind == "path" && !viaLink && (h/3)%3 != 2 {
				// neighbours that are no certificate material appear next to the files: an editor's swap
				// file, the hidden entries of a mounted secret volume
				os.WriteFile(filepath.Join(certDir, ".a0-cert.pem.swp"), []byte("swap"), 0o600)
				os.Mkdir(filepath.Join(certDir, "..2026_10_01"), 0o700)
				os.Symlink("..2026_10_01", filepath.Join(certDir, "..data"))
				hx.Class("history:path-source-with-hidden-neighbours")
			}
			if viaLink {
				// the next release: written completely, then the link is re-pointed
				repoint()
				writeDir(certDir, mk(set2))
				relink()
				current.Store(mk(set2))
				hx.Class("history:path-behind-a-release-symlink")
			} else {
				publish(mk(set2))
			}
			if !waitFor("three.example.com", set2[0].id, 15*time.Second) {
				errs <- fmt.Sprintf("a good set published after unusable material never took effect (three.example.com served %s) (%s)", served("three.example.com"), ctx)
				return
			}
			if !waitFor("one.example.com", set2[1].id, 15*time.Second) {
				errs <- fmt.Sprintf("after the reload one.example.com is served %s, want %s of the new set (%s)", served("one.example.com"), set2[1].id, ctx)
				return
			}
			// 4. a renewal: same names, same file names, same file sizes, new certificates
			gen3 := gen2 + 300
			set3 := []certSpec{{cn: "three.example.com", id: fmt.Sprintf("%d/0", gen3)}, {cn: "one.example.com", id: fmt.Sprintf("%d/1", gen3)}}
			if len(set3[0].id) == len(set2[0].id) {
				cur := current.Load().(fileSet)
				var next fileSet
				for try := 0; try < 200; try++ {
					cand := mk(set3)
					same := len(cand) == len(cur)
					for name, b := range cand {
						if len(cur[name]) != len(b) {
							same = false
						}
					}
					if same {
						next = cand
						break
					}
				}
				if next != nil {
					publish(next)
					if !waitFor("three.example.com", set3[0].id, 15*time.Second) || !waitFor("one.example.com", set3[1].id, 15*time.Second) {
						errs <- fmt.Sprintf("a renewal with unchanged file names and sizes never took effect: three.example.com still served %s, want %s (%s)", served("three.example.com"), set3[0].id, ctx)
						return
					}
					hx.Class("history:renewal-same-sizes")
				} else {
					hx.Class("history:renewal-same-sizes-not-constructed")
				}
			}
			hx.Eval()
			hx.NonTrivial("hist|" + ctx + fmt.Sprint(h))
			hx.Class("history:" + kind + ":" + bad)
		}()
	}
	wg.Wait()
	close(errs)
	close(incon)
	for e := range errs {
		t.Errorf("%s", e)
	}
	for e := range incon {
		t.Logf("VERIF-INCONCLUSIVE %s", e)
		hx.Note("inconclusive: " + e)
	}
}
