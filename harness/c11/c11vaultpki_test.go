package c11

import (
	"crypto/rand"
	"crypto/tls"
	"crypto/x509"
	"crypto/x509/pkix"
	"encoding/json"
	"encoding/pem"
	"fmt"
	"math/big"
	"net/http"
	"net/http/httptest"
	"os"
	"sync"
	"testing"
	"time"

	"github.com/fabiolb/fabio/cert"
	"github.com/fabiolb/fabio/config"
	"pgregory.net/rapid"

	"verifharness/hx"
)

// A minimal Vault: the token is no wrapped token and never expires; pki/issue/fabio issues a
// certificate for the asked common name. The first certificates of a name are valid for an hour
// and a few hundred milliseconds, so that the source's own renewal timer (expiry minus one
// hour) asks for the next one while the test is watching.
type fakeVault struct {
	mu     sync.Mutex
	issued map[string]int // name -> certificates issued so far
	first  time.Duration  // what the first certificate of a name is valid for beyond the hour
}

func (v *fakeVault) ServeHTTP(w http.ResponseWriter, r *http.Request) {
	w.Header().Set("Content-Type", "application/json")
	switch r.URL.Path {
	case "/v1/sys/wrapping/unwrap":
		w.WriteHeader(400)
		json.NewEncoder(w).Encode(map[string]any{"errors": []string{"wrapping token is not valid or does not exist"}})
	case "/v1/auth/token/lookup-self":
		json.NewEncoder(w).Encode(map[string]any{"data": map[string]any{"ttl": 0, "creation_ttl": 0, "renewable": false}})
	case "/v1/pki/issue/fabio":
		var req struct {
			CommonName string `json:"common_name"`
		}
		json.NewDecoder(r.Body).Decode(&req)
		v.mu.Lock()
		v.issued[req.CommonName]++
		n := v.issued[req.CommonName]
		extra := 48 * time.Hour
		if n <= 4 {
			extra = v.first
		}
		v.mu.Unlock()
		tmpl := &x509.Certificate{
			SerialNumber: big.NewInt(int64(n)),
			Subject:      pkix.Name{CommonName: req.CommonName, Organization: []string{fmt.Sprintf("issue-%d", n)}},
			DNSNames:     []string{req.CommonName},
			NotBefore:    time.Now().Add(-time.Minute), NotAfter: time.Now().Add(time.Hour + time.Second + extra), // (expiry times have whole seconds: rounded down)
			KeyUsage:    x509.KeyUsageDigitalSignature,
			ExtKeyUsage: []x509.ExtKeyUsage{x509.ExtKeyUsageServerAuth},
		}
		priv := key(n)
		der, err := x509.CreateCertificate(rand.Reader, tmpl, tmpl, &priv.PublicKey, priv)
		if err != nil {
			w.WriteHeader(500)
			return
		}
		kb, _ := x509.MarshalECPrivateKey(priv)
		json.NewEncoder(w).Encode(map[string]any{"data": map[string]any{
			"certificate": string(pem.EncodeToMemory(&pem.Block{Type: "CERTIFICATE", Bytes: der})),
			"private_key": string(pem.EncodeToMemory(&pem.Block{Type: "EC PRIVATE KEY", Bytes: kb})),
		}})
	default:
		w.WriteHeader(404)
		json.NewEncoder(w).Encode(map[string]any{"errors": []string{"no handler for route"}})
	}
}

func (v *fakeVault) count(name string) int {
	v.mu.Lock()
	defer v.mu.Unlock()
	return v.issued[name]
}

// type=vault-pki: certificates are issued on demand and renewed by the source before they
// expire. A renewed certificate is the current one: new handshakes for that name present it.
func TestC11VaultPKIRenewal(t *testing.T) {
	v := &fakeVault{issued: map[string]int{}}
	srv := httptest.NewServer(v)
	defer srv.Close()
	os.Setenv("VAULT_ADDR", srv.URL)
	os.Setenv("VAULT_TOKEN", "verif-token")
	defer os.Unsetenv("VAULT_ADDR")
	defer os.Unsetenv("VAULT_TOKEN")
	n := 0
	hx.Check(t, hx.Scale(4, 40), func(t *rapid.T) {
		n++
		v.mu.Lock()
		v.first = time.Duration(rapid.IntRange(300, 900).Draw(t, "first-certificate-outlives-the-hour-by-ms")) * time.Millisecond
		v.mu.Unlock()
		src, err := cert.NewSource(config.CertSource{Name: fmt.Sprintf("pki%d", n), Type: "vault-pki", CertPath: "pki/issue/fabio"})
		if err != nil {
			t.Fatalf("vault-pki source: %v", err)
		}
		cfg, err := cert.TLSConfig(src, true, 0, 0, nil)
		if err != nil {
			t.Fatalf("TLS configuration for the vault-pki source: %v", err)
		}
		names := []string{fmt.Sprintf("a%d.example.com", n), fmt.Sprintf("b%d.example.com", n)}[:rapid.IntRange(1, 2).Draw(t, "names")]
		present := func(name string) string {
			c, err := cfg.GetCertificate(&tls.ClientHelloInfo{ServerName: name})
			if err != nil || c == nil {
				t.Fatalf("handshake for %s: no certificate (%v)", name, err)
			}
			return idOf(c)
		}
		for _, name := range names {
			if got := present(name); got != "issue-1" {
				t.Fatalf("first handshake for %s presents %s, want the certificate issued for it (issue-1)", name, got)
			}
		}
		// wait until handshakes are answered from the store (the issued set has been taken in)
		time.Sleep(100 * time.Millisecond)
		stored := map[string]int{}
		for _, name := range names {
			for end := time.Now().Add(5 * time.Second); ; time.Sleep(10 * time.Millisecond) {
				before := v.count(name)
				present(name)
				if v.count(name) == before {
					stored[name] = before
					break
				}
				if time.Now().After(end) {
					t.Fatalf("VERIF-INCONCLUSIVE handshakes for %s keep asking Vault for a certificate", name)
				}
			}
		}
		// the source renews each name when its first certificate comes within an hour of expiring
		deadline := time.Now().Add(v.first + 6*time.Second)
		for _, name := range names {
			for v.count(name) <= stored[name] {
				if time.Now().After(deadline) {
					if stored[name] > 4 {
						return // the short-lived certificates were all replaced on demand before the store had one: no renewal to watch
					}
					t.Fatalf("VERIF-INCONCLUSIVE the source did not renew the certificate of %s", name)
				}
				time.Sleep(10 * time.Millisecond)
			}
		}
		hx.Eval()
		for _, name := range names {
			var got string
			ok := false
			for end := time.Now().Add(3 * time.Second); time.Now().Before(end); time.Sleep(10 * time.Millisecond) {
				got = present(name)
				if got == fmt.Sprintf("issue-%d", v.count(name)) {
					ok = true
					break
				}
			}
			if !ok {
				t.Fatalf("Vault has issued %d certificates for %s (the source renewed it); handshakes still present %s three seconds later", v.count(name), name, got)
			}
		}
		hx.Class("vault-pki:renewed-certificate-presented")
		hx.NonTrivial(fmt.Sprintf("vaultpki|%d|%v", len(names), v.first))
	})
}
