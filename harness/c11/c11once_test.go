package c11

import (
	"crypto/tls"
	"fmt"
	"net/http"
	"net/http/httptest"
	"os"
	"path/filepath"
	"sort"
	"strings"
	"sync/atomic"
	"testing"
	"time"

	"github.com/fabiolb/fabio/cert"
	"pgregory.net/rapid"

	"verifharness/hx"
)

// A source without refresh (load once) whose first load meets unusable material - the key file
// has not been copied yet, the certificate server is not answering at boot - presents the
// certificates as soon as a load succeeds; the listener is not left without certificates.
func TestC11LoadOnceSourceGetsItsFirstSet(t *testing.T) {
	hx.Check(t, hx.Scale(3, 24), func(t *rapid.T) {
		kind := rapid.SampledFrom([]string{"path", "http"}).Draw(t, "kind")
		firstBad := rapid.SampledFrom([]string{"missing-key", "broken-pem", "key-mismatch", "unreachable"}).Draw(t, "first-load-meets")
		if kind == "path" && firstBad == "unreachable" {
			firstBad = "missing-key"
		}
		gen := 900 + int(hx.Seed()%50)
		set := []certSpec{{cn: "one.example.com", id: fmt.Sprintf("%d/0", gen)}, {cn: "two.example.com", id: fmt.Sprintf("%d/1", gen)}}
		dir, err := os.MkdirTemp("", "verif-c11once-")
		if err != nil {
			t.Fatalf("VERIF-INCONCLUSIVE %v", err)
		}
		defer os.RemoveAll(dir)
		certDir := filepath.Join(dir, "cert")
		os.Mkdir(certDir, 0o700)
		var current atomic.Value
		var down atomic.Bool
		current.Store(badFiles(firstBad, set))
		var src cert.Source
		if kind == "path" {
			writeDir(certDir, current.Load().(fileSet))
			src = cert.PathSource{Path: dir, Refresh: 0}
		} else {
			if firstBad == "unreachable" {
				down.Store(true)
				current.Store(goodFiles(set))
			}
			srv := httptest.NewServer(http.HandlerFunc(func(w http.ResponseWriter, r *http.Request) {
				if down.Load() {
					http.Error(w, "starting up", 503)
					return
				}
				fs := current.Load().(fileSet)
				if r.URL.Path == "/list" {
					var names []string
					for n := range fs {
						names = append(names, n)
					}
					sort.Strings(names)
					fmt.Fprint(w, strings.Join(names, "\n"))
					return
				}
				if b, ok := fs[strings.TrimPrefix(r.URL.Path, "/")]; ok {
					w.Write(b)
					return
				}
				http.NotFound(w, r)
			}))
			// (not Close(): it waits for connections the source's poller may still hold)
			defer func() { srv.CloseClientConnections(); go srv.Close() }()
			src = cert.HTTPSource{CertURL: srv.URL + "/list", Refresh: 0}
		}
		cfg, err := cert.TLSConfig(src, false, 0, 0, nil)
		if err != nil {
			t.Fatalf("TLSConfig: %v", err)
		}
		served := func(name string) string {
			c, _ := cfg.GetCertificate(&tls.ClientHelloInfo{ServerName: name})
			return idOf(c)
		}
		// the unusable material stays for a while (more than one retry interval)
		time.Sleep(time.Duration(rapid.IntRange(1200, 2200).Draw(t, "unusable_ms")) * time.Millisecond)
		if got := served("one.example.com"); got == set[0].id {
			t.Fatalf("harness: the set was served before it was published")
		}
		// now the material is complete
		current.Store(goodFiles(set))
		if kind == "path" {
			writeDir(certDir, goodFiles(set))
		}
		down.Store(false)
		hx.Eval()
		deadline := time.Now().Add(8 * time.Second)
		for served("one.example.com") != set[0].id || served("two.example.com") != set[1].id {
			if time.Now().After(deadline) {
				t.Fatalf("%s source without refresh: the first load met %s; 8 s after the material became usable the listener still serves %q / %q instead of %s / %s", kind, firstBad, served("one.example.com"), served("two.example.com"), set[0].id, set[1].id)
			}
			time.Sleep(20 * time.Millisecond)
		}
		hx.Class("load-once-source:first-load-meets-" + firstBad)
		hx.NonTrivial(fmt.Sprintf("once|%s|%s", kind, firstBad))
	})
}
