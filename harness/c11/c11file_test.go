package c11

import (
	"crypto/tls"
	"fmt"
	"os"
	"path/filepath"
	"testing"
	"time"

	"github.com/fabiolb/fabio/cert"
	"pgregory.net/rapid"

	"verifharness/hx"
)

// A type=file certificate source presents the certificate of the two files it names, whatever
// the operator has called them (server.crt / server.key, one combined file, the documented
// -cert.pem / -key.pem pair).
func TestC11FileSourceWithAnyFileNames(t *testing.T) {
	n := 0
	hx.Check(t, hx.Scale(12, 120), func(t *rapid.T) {
		n++
		dir, err := os.MkdirTemp("", "verif-c11file-")
		if err != nil {
			t.Fatalf("VERIF-INCONCLUSIVE %v", err)
		}
		defer os.RemoveAll(dir)
		spec := certSpec{cn: "file.example.com", id: fmt.Sprintf("f%d/0", n)}
		_, cp, kp := makeCert(spec, 0)
		names := rapid.SampledFrom([][2]string{{"server.crt", "server.key"}, {"tls.crt", "tls.key"}, {"site-cert.pem", "site-key.pem"}, {"fullchain.pem", "privkey.pem"}, {"combined.pem", "combined.pem"}, {"cert", "key"}}).Draw(t, "file-names")
		if names[0] == names[1] {
			os.WriteFile(filepath.Join(dir, names[0]), append(append([]byte{}, cp...), kp...), 0o600)
		} else {
			os.WriteFile(filepath.Join(dir, names[0]), cp, 0o600)
			os.WriteFile(filepath.Join(dir, names[1]), kp, 0o600)
		}
		src := cert.FileSource{CertFile: filepath.Join(dir, names[0]), KeyFile: filepath.Join(dir, names[1])}
		cfg, err := cert.TLSConfig(src, rapid.Bool().Draw(t, "strictmatch"), 0, 0, nil)
		if err != nil {
			t.Fatalf("TLSConfig: %v", err)
		}
		hx.Eval()
		deadline := time.Now().Add(5 * time.Second)
		for {
			c, _ := cfg.GetCertificate(&tls.ClientHelloInfo{ServerName: "file.example.com"})
			if idOf(c) == spec.id {
				break
			}
			if time.Now().After(deadline) {
				t.Fatalf("type=file source with cert=%s key=%s: a client asking for file.example.com is presented %q, want the certificate of these files", names[0], names[1], idOf(c))
			}
			time.Sleep(5 * time.Millisecond)
		}
		hx.Class("file-source:" + names[0])
		hx.NonTrivial("file|" + names[0])
	})
}
