package sysbin

import (
	"fmt"
	"io"
	"net"
	"net/http"
	"net/http/httptest"
	"testing"
	"time"

	"pgregory.net/rapid"

	"verifharness/hx"
)

// C02: route text alone cannot take the process down - a tcp route whose port cannot be bound
// (somebody else listens there) is passed over by a tcp-dynamic listener.
func TestC02BinaryRoutesCannotTakeTheProcessDown(t *testing.T) { dynListenerBinary(t) }

// C15: an accepted configuration can be run - a tcp-dynamic listener with whatever refresh
// (none, 0s, a negative or a positive value) Load accepted keeps the process alive and serving.
func TestC15BinaryDynamicListener(t *testing.T) { dynListenerBinary(t) }

func dynListenerBinary(t *testing.T) {
	up := httptest.NewServer(http.HandlerFunc(func(w http.ResponseWriter, r *http.Request) { io.WriteString(w, "web-upstream") }))
	defer up.Close()
	echo, err := hx.Listen("tcp", "127.0.0.1:0")
	if err != nil {
		t.Fatalf("VERIF-INCONCLUSIVE %v", err)
	}
	defer echo.Close()
	go func() {
		for {
			c, err := echo.Accept()
			if err != nil {
				return
			}
			go func() { io.Copy(c, c); c.Close() }()
		}
	}()
	hx.Check(t, hx.Scale(4, 30), func(t *rapid.T) {
		refresh := rapid.SampledFrom([]string{"", ";refresh=0s", ";refresh=50ms", ";refresh=-1s", ";refresh=200ms"}).Draw(t, "refresh-option")
		// (the small end of the draw: the port of the tcp route is taken by somebody else)
		taken := rapid.IntRange(0, 2).Draw(t, "route-port-is-free") == 0
		httpAddr, dynAddr := freeAddr(), freeAddr()
		routeAddr := freeAddr()
		_, routePort, _ := net.SplitHostPort(routeAddr)
		var squatter net.Listener
		if taken {
			// all local addresses, like the dynamic listener would
			squatter, err = net.Listen("tcp", ":"+routePort)
			if err != nil {
				t.Skip("cannot occupy the port")
			}
			defer squatter.Close()
		}
		args := []string{
			"-registry.backend=static",
			fmt.Sprintf("-registry.static.routes=route add web / %s\nroute add t :%s tcp://%s", up.URL, routePort, echo.Addr()),
			"-proxy.addr=" + httpAddr + ";proto=http," + dynAddr + ";proto=tcp-dynamic" + refresh,
			"-ui.addr=" + freeAddr(),
			"-log.level=WARN",
			"-insecure=true",
		}
		p := start(t, args, nil, nil, httpAddr)
		defer p.kill()
		// a while later the process is still there and serves
		// (the listener looks at the table after its refresh interval; without a usable interval
		// that is after about a second)
		later := time.Duration(rapid.IntRange(600, 1000).Draw(t, "later_ms")) * time.Millisecond
		if refresh != ";refresh=50ms" && refresh != ";refresh=200ms" {
			later += 1200 * time.Millisecond
		}
		time.Sleep(later)
		select {
		case <-p.exited:
			t.Fatalf("fabio exited (%v) with proxy.addr %q and a tcp route for port %s (port taken by another process: %v)\n%s", p.err, args[2], routePort, taken, tail(p.out.String()))
		default:
		}
		hx.Eval()
		resp, err := (&http.Client{Timeout: 5 * time.Second}).Get("http://" + httpAddr + "/")
		if err != nil {
			t.Fatalf("the http listener does not answer: %v\n%s", err, tail(p.out.String()))
		}
		b, _ := io.ReadAll(resp.Body)
		resp.Body.Close()
		if resp.StatusCode != 200 || string(b) != "web-upstream" {
			t.Fatalf("http listener: %d %q", resp.StatusCode, b)
		}
		if !taken {
			// the dynamic listener for the route's port carries a tunnel
			var c net.Conn
			for i := 0; i < 300; i++ {
				if c, err = net.DialTimeout("tcp", "127.0.0.1:"+routePort, 200*time.Millisecond); err == nil {
					break
				}
				time.Sleep(10 * time.Millisecond)
			}
			if err != nil {
				t.Fatalf("tcp-dynamic listener%s: the port of the tcp route (%s) was never opened: %v\n%s", refresh, routePort, err, tail(p.out.String()))
			}
			c.SetDeadline(time.Now().Add(5 * time.Second))
			c.Write([]byte("ping-through-the-tunnel"))
			buf := make([]byte, 23)
			if _, err := io.ReadFull(c, buf); err != nil || string(buf) != "ping-through-the-tunnel" {
				t.Fatalf("tunnel through the dynamic listener: %q %v", buf, err)
			}
			c.Close()
		}
		hx.Class(fmt.Sprintf("binary:tcp-dynamic%s:route-port-taken=%v", refresh, taken))
		hx.NonTrivial(fmt.Sprintf("dynbin|%s|%v", refresh, taken))
	})
}
