// Package sysbin runs the real fabio binary, built from the tree under test,
// against loopback fakes. It covers the wiring in main() that package-level
// tests cannot see (configuration -> transports, exit handler -> shutdown).
package sysbin

import (
	"bytes"
	"fmt"
	"io"
	"net"
	"net/http"
	"net/http/httptest"
	"os"
	"os/exec"
	"path/filepath"
	"regexp"
	"strings"
	"sync"
	"syscall"
	"testing"
	"time"

	"pgregory.net/rapid"

	"verifharness/hx"
)

var (
	binPath string
	tmpDir  string
)

func TestMain(m *testing.M) {
	var err error
	tmpDir, err = os.MkdirTemp("", "verif-sysbin-")
	if err != nil {
		panic(err)
	}
	binPath = filepath.Join(tmpDir, "fabio")
	cmd := exec.Command("go", "build", "-o", binPath, "github.com/fabiolb/fabio")
	cmd.Env = append(os.Environ(), "GOFLAGS=-mod=mod", "GOPROXY=off")
	if out, err := cmd.CombinedOutput(); err != nil {
		fmt.Fprintf(os.Stderr, "building the fabio binary failed: %v\n%s\n", err, out)
		os.RemoveAll(tmpDir)
		os.Exit(2)
	}
	code := func() int {
		defer os.RemoveAll(tmpDir)
		return runMain(m)
	}()
	os.Exit(code)
}

func runMain(m *testing.M) int {
	if os.Getenv("VERIF_REPLAY") == "" && os.Getenv("VERIF_DRIVER") == "" {
		os.RemoveAll("testdata/rapid")
	}
	code := m.Run()
	hx.Flush()
	return code
}

func freeAddr() string { return hx.FreeAddr() }

type proc struct {
	cmd    *exec.Cmd
	out    *bytes.Buffer
	mu     sync.Mutex
	exited chan struct{}
	err    error
}

// start launches fabio with the given options distributed over the three
// sources. Returns after the proxy port accepts connections.
var inUse = regexp.MustCompile(`listen tcp (\S+): bind: address already in use`)

// start launches the binary.  A port picked by the harness may have been taken by another
// process in the meantime: such a start is repeated with that address replaced (unless it is
// the proxy address the caller goes on to use, which makes the case inconclusive).
func start(t interface{ Fatalf(string, ...any) }, args, env, fileLines []string, proxyAddr string) *proc {
	for attempt := 0; ; attempt++ {
		p, clash := startOnce(t, args, env, fileLines, proxyAddr)
		if clash == "" {
			return p
		}
		if clash == proxyAddr || attempt >= 4 {
			t.Fatalf("VERIF-INCONCLUSIVE a port picked by the harness (%s) was taken by another process", clash)
		}
		fresh := freeAddr()
		for i := range args {
			args[i] = strings.ReplaceAll(args[i], clash, fresh)
		}
		for i := range env {
			env[i] = strings.ReplaceAll(env[i], clash, fresh)
		}
		for i := range fileLines {
			fileLines[i] = strings.ReplaceAll(fileLines[i], clash, fresh)
		}
	}
}

func startOnce(t interface{ Fatalf(string, ...any) }, args, env, fileLines []string, proxyAddr string) (*proc, string) {
	a := append([]string{}, args...)
	if fileLines != nil {
		f := filepath.Join(tmpDir, fmt.Sprintf("cfg-%d.properties", time.Now().UnixNano()))
		if err := os.WriteFile(f, []byte(strings.Join(fileLines, "\n")+"\n"), 0o600); err != nil {
			t.Fatalf("%v", err)
		}
		a = append(a, "-cfg", f)
	}
	p := &proc{cmd: exec.Command(binPath, a...), out: &bytes.Buffer{}, exited: make(chan struct{})}
	p.cmd.Env = append([]string{"PATH=/usr/bin:/bin", "HOME=" + tmpDir}, env...)
	p.cmd.Stdout = p.out
	p.cmd.Stderr = p.out
	p.cmd.Dir = tmpDir
	if err := p.cmd.Start(); err != nil {
		t.Fatalf("cannot start fabio: %v", err)
	}
	go func() { p.err = p.cmd.Wait(); close(p.exited) }()
	deadline := time.Now().Add(15 * time.Second)
	for {
		c, err := net.DialTimeout("tcp", proxyAddr, 200*time.Millisecond)
		if err == nil {
			c.Close()
			return p, ""
		}
		select {
		case <-p.exited:
			if m := inUse.FindStringSubmatch(p.out.String()); m != nil {
				return nil, m[1]
			}
			t.Fatalf("fabio exited during start-up: %v\n%s", p.err, tail(p.out.String()))
		default:
		}
		if time.Now().After(deadline) {
			p.kill()
			t.Fatalf("VERIF-INCONCLUSIVE fabio did not listen on %s within 15s\n%s", proxyAddr, tail(p.out.String()))
		}
		time.Sleep(10 * time.Millisecond)
	}
}

func (p *proc) kill() {
	p.cmd.Process.Kill()
	<-p.exited
}

func tail(s string) string {
	if len(s) > 3000 {
		return "…" + s[len(s)-3000:]
	}
	return s
}

// option places "name=value" into one of the sources
func option(t *rapid.T, name, value string, args, env, file *[]string) string {
	switch src := rapid.SampledFrom([]string{"cmdline", "FABIO_env", "plain_env", "file"}).Draw(t, "src-"+name); src {
	case "cmdline":
		*args = append(*args, "-"+name+"="+value)
		return src
	case "FABIO_env":
		*env = append(*env, "FABIO_"+strings.ToUpper(strings.ReplaceAll(name, ".", "_"))+"="+value)
		return src
	case "plain_env":
		*env = append(*env, strings.ReplaceAll(name, ".", "_")+"="+value)
		return src
	default:
		*file = append(*file, name+" = "+value)
		return src
	}
}

func baseOptions(upstream, proxyAddr string) []string {
	return []string{
		"-registry.backend=static",
		"-registry.static.routes=route add svc / " + upstream,
		"-proxy.addr=" + proxyAddr,
		"-ui.addr=" + freeAddr(),
		"-log.level=WARN",
		"-insecure=true",
	}
}

// ---------------------------------------------------------------------------

// TestC19Binary: the response-header timeout given to the real binary (from
// any source) is the one its proxy enforces.
func TestC19Binary(t *testing.T) {
	hx.Check(t, hx.Scale(6, 60), func(t *rapid.T) {
		T := time.Duration(rapid.IntRange(200, 500).Draw(t, "T_ms")) * time.Millisecond
		slow := rapid.Bool().Draw(t, "slow")
		D := time.Duration(0)
		if slow {
			D = T * time.Duration(rapid.IntRange(3, 5).Draw(t, "factor"))
		}
		handler := http.HandlerFunc(func(w http.ResponseWriter, r *http.Request) {
			select {
			case <-time.After(D):
			case <-r.Context().Done():
				return
			}
			io.WriteString(w, "upstream-body")
		})
		// a route that is there when fabio starts and gets a transport of its own (host=<name> on an
		// https upstream), or the default transport
		perRoute := rapid.Bool().Draw(t, "per-route-transport")
		var up *httptest.Server
		if perRoute {
			up = httptest.NewTLSServer(handler)
		} else {
			up = httptest.NewServer(handler)
		}
		defer up.Close()
		addr := freeAddr()
		args := baseOptions(up.URL, addr)
		if perRoute {
			args[1] = "-registry.static.routes=route add svc / " + up.URL + ` opts "host=internal.example tlsskipverify=true"`
			hx.Class("binary:per-route-transport-of-a-start-up-route")
		}
		var env, file []string
		src := option(t, "proxy.responseheadertimeout", T.String(), &args, &env, &file)
		option(t, "proxy.dialtimeout", "5s", &args, &env, &file)
		p := start(t, args, env, file, addr)
		defer p.kill()
		t0 := time.Now()
		resp, err := (&http.Client{Timeout: 20 * time.Second}).Get("http://" + addr + "/")
		took := time.Since(t0)
		hx.Eval()
		if err != nil {
			t.Fatalf("request failed: %v\n%s", err, tail(p.out.String()))
		}
		body, _ := io.ReadAll(resp.Body)
		resp.Body.Close()
		ctx := fmt.Sprintf("proxy.responseheadertimeout=%v (from %s), upstream delay %v, route present at start-up with its own transport (host= on https): %v", T, src, D, perRoute)
		if slow {
			if resp.StatusCode != 504 {
				t.Fatalf("the binary answered %d after %v, want 504 after about %v\n%s", resp.StatusCode, took, T, ctx)
			}
			if took > T+2*time.Second {
				t.Fatalf("504 after %v\n%s", took, ctx)
			}
			hx.Class("binary:504")
		} else {
			if resp.StatusCode != 200 || string(body) != "upstream-body" {
				t.Fatalf("prompt upstream: %d %q\n%s", resp.StatusCode, body, ctx)
			}
			hx.Class("binary:200")
		}
		hx.NonTrivial(ctx)
	})
}

// TestC18Binary: SIGTERM -> in-flight work that finishes within the wait
// completes, the process is gone within the wait (+slack) whatever is open.
func TestC18Binary(t *testing.T) {
	hx.Check(t, hx.Scale(6, 60), func(t *rapid.T) {
		W := time.Duration(rapid.IntRange(300, 1200).Draw(t, "W_ms")) * time.Millisecond
		short := time.Duration(rapid.IntRange(5, 50).Draw(t, "short_pct")) * W / 100
		withNever := rapid.Bool().Draw(t, "never")
		grace := time.Duration(rapid.SampledFrom([]int{0, 0, 100, 300}).Draw(t, "grace_ms")) * time.Millisecond
		// a long grace period with a request that arrives during it: it is in flight when the
		// listeners close and needs half of the wait from then on
		late := rapid.IntRange(0, 1).Draw(t, "late-request-in-grace-period") == 0
		var lateDur time.Duration
		if late {
			if W < 800*time.Millisecond {
				W += 800 * time.Millisecond
				short = short + 0 // unchanged: still well inside the wait
			}
			grace = W
			lateDur = grace/2 + W/2
		}
		up := httptest.NewServer(http.HandlerFunc(func(w http.ResponseWriter, r *http.Request) {
			if r.URL.Path == "/never" {
				<-r.Context().Done()
				return
			}
			if r.URL.Path == "/late" {
				time.Sleep(lateDur)
			} else {
				time.Sleep(short)
			}
			io.WriteString(w, "done")
		}))
		// not closed with Close(): it would wait for the request that never ends
		defer up.CloseClientConnections()
		addr := freeAddr()
		args := baseOptions(up.URL, addr)
		var env, file []string
		option(t, "proxy.shutdownwait", W.String(), &args, &env, &file)
		// profiling switched on (an operator chasing a problem) changes nothing about the drain
		if prof := rapid.SampledFrom([]string{"cpu", "", "mem", "", "block"}).Draw(t, "profile.mode"); prof != "" {
			option(t, "profile.mode", prof, &args, &env, &file)
			option(t, "profile.path", tmpDir, &args, &env, &file)
			hx.Class("binary:profiling-on")
		}
		firstSignal := rapid.SampledFrom([]syscall.Signal{syscall.SIGINT, syscall.SIGTERM}).Draw(t, "signal")
		if grace > 0 {
			option(t, "proxy.deregistergraceperiod", grace.String(), &args, &env, &file)
		}
		p := start(t, args, env, file, addr)
		defer p.kill()
		type res struct {
			code int
			body string
			err  error
		}
		shortRes := make(chan res, 1)
		get := func(path string, ch chan res) {
			resp, err := (&http.Client{Timeout: 30 * time.Second}).Get("http://" + addr + path)
			if err != nil {
				if ch != nil {
					ch <- res{err: err}
				}
				return
			}
			b, _ := io.ReadAll(resp.Body)
			resp.Body.Close()
			if ch != nil {
				ch <- res{code: resp.StatusCode, body: string(b)}
			}
		}
		if withNever {
			go get("/never", nil)
		}
		go get("/short", shortRes)
		time.Sleep(30 * time.Millisecond) // requests are in flight
		// signals around the shutdown: SIGHUP never ends the process, and further signals that
		// arrive while the drain is in progress do not cut it short
		if rapid.IntRange(0, 3).Draw(t, "sighup-first") == 0 {
			p.cmd.Process.Signal(syscall.SIGHUP)
			time.Sleep(40 * time.Millisecond)
			select {
			case <-p.exited:
				t.Fatalf("the process exited on SIGHUP\n%s", tail(p.out.String()))
			default:
			}
			hx.Class("binary:sighup-ignored")
		}
		sig := time.Now()
		p.cmd.Process.Signal(firstSignal)
		if rapid.Bool().Draw(t, "second-signal") {
			second := rapid.SampledFrom([]syscall.Signal{syscall.SIGTERM, syscall.SIGINT, syscall.SIGHUP}).Draw(t, "second")
			after := time.Duration(rapid.IntRange(1, 40).Draw(t, "second-after-pct")) * short / 100
			go func() {
				time.Sleep(after)
				p.cmd.Process.Signal(second)
			}()
			hx.Class("binary:second-signal-during-the-drain")
		}
		hx.Eval()
		lateRes := make(chan res, 1)
		if late {
			go func() {
				time.Sleep(grace / 2)
				get("/late", lateRes)
			}()
		}
		limit := grace + W + 3*time.Second
		select {
		case <-p.exited:
		case <-time.After(limit + 5*time.Second):
			t.Fatalf("the process is still running %v after SIGTERM (proxy.shutdownwait=%v, deregistergraceperiod=%v, never-ending request=%v)\n%s", time.Since(sig), W, grace, withNever, tail(p.out.String()))
		}
		exitedAfter := time.Since(sig).Round(time.Millisecond)
		if took := time.Since(sig); took > limit {
			t.Fatalf("the process exited %v after SIGTERM (proxy.shutdownwait=%v, deregistergraceperiod=%v)", took, W, grace)
		}
		r := <-shortRes
		if r.err != nil || r.code != 200 || r.body != "done" {
			t.Fatalf("a request that needed %v was in flight when SIGTERM arrived (shutdownwait %v) and did not complete normally: %+v\n%s", short, W, r, tail(p.out.String()))
		}
		if late {
			r := <-lateRes
			if r.err != nil || r.code != 200 || r.body != "done" {
				t.Fatalf("deregistergraceperiod=%v, shutdownwait=%v: a request that arrived %v after SIGTERM (during the grace period, listeners still open) and needed %v - it ends %v after the listeners close, inside the wait - did not complete normally: %+v; the process exited %v after SIGTERM\n%s", grace, W, grace/2, lateDur, W/2, r, exitedAfter, tail(p.out.String()))
			}
			hx.Class("binary:request-arrives-in-grace-period")
		}
		if c, err := net.DialTimeout("tcp", addr, 300*time.Millisecond); err == nil {
			c.Close()
			t.Fatalf("the proxy port still accepts connections after the process exited?")
		}
		hx.NonTrivial(fmt.Sprintf("sigterm|%v|%v|%v|%v", W, short, withNever, grace))
		hx.Class("binary:sigterm")
	})
}

// TestC15Binary: an option takes the same effect from every source and the
// higher source wins, observed through the behaviour of the running binary.
func TestC15Binary(t *testing.T) {
	hx.Check(t, hx.Scale(6, 60), func(t *rapid.T) {
		up := httptest.NewServer(http.HandlerFunc(func(w http.ResponseWriter, r *http.Request) { io.WriteString(w, "ok") }))
		defer up.Close()
		addr := freeAddr()
		args := []string{
			"-registry.backend=static",
			"-registry.static.routes=route add svc /only " + up.URL,
			"-proxy.addr=" + addr,
			"-ui.addr=" + freeAddr(),
			"-log.level=WARN",
			"-insecure=true",
		}
		var env, file []string
		order := []string{"cmdline", "FABIO_env", "plain_env", "file"}
		vals := map[string]string{}
		winner := ""
		for _, src := range order {
			if !rapid.Bool().Draw(t, "set-"+src) {
				continue
			}
			v := fmt.Sprint(rapid.SampledFrom([]int{404, 410, 418, 451, 503, 599}).Draw(t, "status-"+src))
			vals[src] = v
			if winner == "" {
				winner = src
			}
			switch src {
			case "cmdline":
				args = append(args, "-proxy.noroutestatus="+v)
			case "FABIO_env":
				env = append(env, "FABIO_PROXY_NOROUTESTATUS="+v)
			case "plain_env":
				env = append(env, "proxy_noroutestatus="+v)
			case "file":
				file = append(file, "proxy.noroutestatus = "+v)
			}
		}
		want := "404"
		if winner != "" {
			want = vals[winner]
		}
		p := start(t, args, env, file, addr)
		defer p.kill()
		resp, err := http.Get("http://" + addr + "/unrouted")
		hx.Eval()
		if err != nil {
			t.Fatalf("request failed: %v", err)
		}
		resp.Body.Close()
		if fmt.Sprint(resp.StatusCode) != want {
			t.Fatalf("no-route status %d, want %s: proxy.noroutestatus set to %v (precedence cmdline > FABIO_ env > plain env > file > default 404)", resp.StatusCode, want, vals)
		}
		resp, err = http.Get("http://" + addr + "/only")
		if err != nil || resp.StatusCode != 200 {
			t.Fatalf("routed request failed: %v %v", resp, err)
		}
		resp.Body.Close()
		if len(vals) >= 2 {
			hx.NonTrivial(fmt.Sprint(vals))
		} else {
			hx.NonTrivial("single|" + fmt.Sprint(vals))
		}
		hx.Class("binary:precedence")
	})
}
