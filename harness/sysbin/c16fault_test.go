package sysbin

import (
	"context"
	"fmt"
	"net"
	"os"
	"os/exec"
	"strings"
	"testing"
	"time"

	"google.golang.org/grpc"
	"google.golang.org/grpc/codes"
	"google.golang.org/grpc/credentials/insecure"
	"google.golang.org/grpc/metadata"
	"google.golang.org/grpc/status"
	"pgregory.net/rapid"

	"verifharness/hx"
)

// already-marshalled protobuf messages on both sides: no generated stubs needed
type rawCodec struct{}

func (rawCodec) Marshal(v any) ([]byte, error) { return *(v.(*[]byte)), nil }
func (rawCodec) Unmarshal(data []byte, v any) error {
	*(v.(*[]byte)) = append([]byte(nil), data...)
	return nil
}
func (rawCodec) Name() string { return "proto" }

func setNoFile(pid int, soft string) error {
	out, err := exec.Command("prlimit", "--pid", fmt.Sprint(pid), "--nofile="+soft+":").CombinedOutput()
	if err != nil {
		return fmt.Errorf("prlimit: %v %s", err, out)
	}
	return nil
}

func openFDs(pid int) (int, error) {
	es, err := os.ReadDir(fmt.Sprintf("/proc/%d/fd", pid))
	return len(es), err
}

func softNoFile(pid int) (string, error) {
	out, err := exec.Command("prlimit", "--pid", fmt.Sprint(pid), "--nofile", "--noheadings", "--output", "SOFT").CombinedOutput()
	return strings.TrimSpace(string(out)), err
}

// TestC16BinaryAcceptFault: the gRPC listener of the real binary runs out of file descriptors
// for a while (accept(2) fails with EMFILE while callers keep connecting); once descriptors are
// available again, calls are proxied to the matching backend as before.
func TestC16BinaryAcceptFault(t *testing.T) {
	if _, err := exec.LookPath("prlimit"); err != nil {
		t.Skip("prlimit not available")
	}
	hx.Check(t, hx.Scale(4, 30), func(t *rapid.T) {
		// backend echoing every message, with the method in a header
		bln, err := hx.Listen("tcp", "127.0.0.1:0")
		if err != nil {
			t.Fatalf("%v", err)
		}
		bsrv := grpc.NewServer(grpc.ForceServerCodec(rawCodec{}), grpc.UnknownServiceHandler(func(_ any, st grpc.ServerStream) error {
			m, _ := grpc.MethodFromServerStream(st)
			st.SetHeader(metadata.Pairs("x-method", m))
			for {
				var b []byte
				if err := st.RecvMsg(&b); err != nil {
					break
				}
				if err := st.SendMsg(&b); err != nil {
					return err
				}
			}
			st.SetTrailer(metadata.Pairs("x-done", "yes"))
			return status.Error(codes.AlreadyExists, "scripted")
		}))
		go bsrv.Serve(bln)
		defer bsrv.Stop()

		proxyAddr := freeAddr()
		args := []string{
			"-registry.backend=static",
			"-registry.static.routes=route add svc / grpc://" + bln.Addr().String(),
			"-proxy.addr=" + proxyAddr + ";proto=grpc",
			"-ui.addr=" + freeAddr(),
			"-log.level=WARN",
			"-insecure=true",
		}
		p := start(t, args, nil, nil, proxyAddr)
		defer p.kill()
		pid := p.cmd.Process.Pid

		call := func(tag string, timeout time.Duration) error {
			cc, err := grpc.NewClient(proxyAddr, grpc.WithTransportCredentials(insecure.NewCredentials()),
				grpc.WithDefaultCallOptions(grpc.ForceCodec(rawCodec{})))
			if err != nil {
				return err
			}
			defer cc.Close()
			ctx, cancel := context.WithTimeout(context.Background(), timeout)
			defer cancel()
			method := "/pkg.Svc/" + tag
			st, err := cc.NewStream(ctx, &grpc.StreamDesc{ServerStreams: true, ClientStreams: true}, method)
			if err != nil {
				return err
			}
			msg := []byte{0x0a, byte(len(tag))}
			msg = append(msg, tag...)
			if err := st.SendMsg(&msg); err != nil {
				return err
			}
			var got []byte
			if err := st.RecvMsg(&got); err != nil {
				return err
			}
			if string(got) != string(msg) {
				return fmt.Errorf("echo differs: %q vs %q", got, msg)
			}
			st.CloseSend()
			var none []byte
			err = st.RecvMsg(&none)
			if s, _ := status.FromError(err); s.Code() != codes.AlreadyExists || s.Message() != "scripted" {
				return fmt.Errorf("final status %v", err)
			}
			h, _ := st.Header()
			if v := h.Get("x-method"); len(v) != 1 || v[0] != method {
				return fmt.Errorf("backend saw method %v, want %s", v, method)
			}
			return nil
		}

		if err := call("before", 5*time.Second); err != nil {
			t.Fatalf("call before the fault: %v\n%s", err, tail(p.out.String()))
		}
		was, err := softNoFile(pid)
		if err != nil || was == "" {
			t.Skipf("cannot read the descriptor limit: %v", err)
		}
		nfd, err := openFDs(pid)
		if err != nil {
			t.Fatalf("VERIF-INCONCLUSIVE cannot count descriptors: %v", err)
		}
		// no descriptor number is allowed any more (open ones stay usable): every accept fails with EMFILE
		if err := setNoFile(pid, "1"); err != nil {
			t.Fatalf("VERIF-INCONCLUSIVE %v", err)
		}
		attempts := rapid.IntRange(1, 4).Draw(t, "connections-during-the-fault")
		hold := time.Duration(rapid.IntRange(50, 1200).Draw(t, "fault_ms")) * time.Millisecond
		refused := 0
		var conns []net.Conn
		for i := 0; i < attempts; i++ {
			c, err := net.DialTimeout("tcp", proxyAddr, time.Second)
			if err == nil {
				conns = append(conns, c)
			}
		}
		time.Sleep(hold)
		for _, c := range conns {
			c.SetReadDeadline(time.Now().Add(10 * time.Millisecond))
			var b [1]byte
			if _, err := c.Read(b[:]); err != nil {
				refused++
			}
		}
		select {
		case <-p.exited:
			t.Fatalf("fabio exited when its gRPC listener ran out of descriptors for a moment: %v\n%s", p.err, tail(p.out.String()))
		default:
		}
		if err := setNoFile(pid, was); err != nil {
			select {
			case <-p.exited:
				t.Fatalf("fabio exited when its gRPC listener ran out of descriptors for a moment: %v\n%s", p.err, tail(p.out.String()))
			case <-time.After(time.Second):
			}
			t.Fatalf("VERIF-INCONCLUSIVE %v", err)
		}
		for _, c := range conns {
			c.Close()
		}
		hx.Eval()
		hx.Class("accept-fault-on-the-grpc-listener-of-the-binary")
		hx.NonTrivial(fmt.Sprintf("fault/%d/%d", attempts, hold/(200*time.Millisecond)))

		// descriptors are back: calls are proxied again (grpc retries accept with a back-off of at most 1 s)
		var last error
		deadline := time.Now().Add(8 * time.Second)
		for time.Now().Before(deadline) {
			select {
			case <-p.exited:
				t.Fatalf("fabio exited after a transient accept failure on its gRPC listener: %v\n%s", p.err, tail(p.out.String()))
			default:
			}
			if last = call("after", 3*time.Second); last == nil {
				break
			}
			time.Sleep(100 * time.Millisecond)
		}
		if last != nil {
			t.Fatalf("gRPC calls are not proxied any more after the listener ran out of descriptors for %v (%d connections attempted): %v\n%s", hold, attempts, last, tail(p.out.String()))
		}
		if hx.WantSample("c16-accept-fault") {
			hx.Sample("c16-accept-fault", map[string]any{"descriptors_at_fault": nfd, "connections": attempts, "fault": hold.String()})
		}
	})
}
