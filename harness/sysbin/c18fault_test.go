package sysbin

import (
	"bufio"
	"crypto/ecdsa"
	"crypto/elliptic"
	"crypto/rand"
	"crypto/tls"
	"crypto/x509"
	"crypto/x509/pkix"
	"encoding/pem"
	"fmt"
	"io"
	"math/big"
	"net"
	"net/http"
	"net/http/httptest"
	"os"
	"os/exec"
	"path/filepath"
	"syscall"
	"testing"
	"time"

	"pgregory.net/rapid"

	"verifharness/hx"
)

func writeCertPair(dir, base, cn string) error {
	key, _ := ecdsa.GenerateKey(elliptic.P256(), rand.Reader)
	tmpl := &x509.Certificate{SerialNumber: big.NewInt(time.Now().UnixNano()), Subject: pkix.Name{CommonName: cn}, NotBefore: time.Now().Add(-time.Hour), NotAfter: time.Now().Add(time.Hour), DNSNames: []string{cn}}
	der, err := x509.CreateCertificate(rand.Reader, tmpl, tmpl, &key.PublicKey, key)
	if err != nil {
		return err
	}
	kb, _ := x509.MarshalECPrivateKey(key)
	if err := os.WriteFile(filepath.Join(dir, base+"-cert.pem"), pem.EncodeToMemory(&pem.Block{Type: "CERTIFICATE", Bytes: der}), 0o600); err != nil {
		return err
	}
	return os.WriteFile(filepath.Join(dir, base+"-key.pem"), pem.EncodeToMemory(&pem.Block{Type: "EC PRIVATE KEY", Bytes: kb}), 0o600)
}

// TestC18BinaryDrainAfterAcceptFault: a TLS listener (https, or https+tcp+sni with its shared
// port) of the real binary ran out of file descriptors for a moment some time ago; a connection
// that was accepted before is still in use.  SIGTERM arrives while a request is in flight on
// that connection: the request needs a fraction of the wait and completes normally.
func TestC18BinaryDrainAfterAcceptFault(t *testing.T) {
	if _, err := exec.LookPath("prlimit"); err != nil {
		t.Skip("prlimit not available")
	}
	dir, err := os.MkdirTemp("", "verif-c18f-")
	if err != nil {
		t.Fatal(err)
	}
	defer os.RemoveAll(dir)
	os.Mkdir(filepath.Join(dir, "cert"), 0o700)
	if err := writeCertPair(filepath.Join(dir, "cert"), "a0", "localhost"); err != nil {
		t.Fatal(err)
	}
	hx.Check(t, hx.Scale(4, 30), func(t *rapid.T) {
		W := time.Duration(rapid.IntRange(600, 1500).Draw(t, "W_ms")) * time.Millisecond
		need := time.Duration(rapid.IntRange(20, 50).Draw(t, "inflight_pct")) * W / 100
		proto := rapid.SampledFrom([]string{"https+tcp+sni", "https+tcp+sni", "https"}).Draw(t, "listener")
		fault := rapid.IntRange(0, 3).Draw(t, "no-accept-fault-earlier") != 3
		up := httptest.NewServer(http.HandlerFunc(func(w http.ResponseWriter, r *http.Request) {
			if r.URL.Path == "/slow" {
				time.Sleep(need)
			}
			io.WriteString(w, "done")
		}))
		defer up.Close()
		addr := freeAddr()
		args := []string{
			"-registry.backend=static",
			"-registry.static.routes=route add svc / " + up.URL,
			"-proxy.cs=cs=certs;type=path;cert=" + dir,
			"-proxy.addr=" + addr + ";proto=" + proto + ";cs=certs",
			"-proxy.shutdownwait=" + W.String(),
			"-ui.addr=" + freeAddr(),
			"-log.level=WARN",
			"-insecure=true",
		}
		p := start(t, args, nil, nil, addr)
		defer p.kill()
		pid := p.cmd.Process.Pid
		// a client connection that stays open
		var c *tls.Conn
		for i := 0; i < 100; i++ { // the certificate store is filled a moment after the port is open
			raw, err := net.DialTimeout("tcp", addr, 2*time.Second)
			if err != nil {
				t.Fatalf("VERIF-INCONCLUSIVE dial: %v", err)
			}
			tc := tls.Client(raw, &tls.Config{InsecureSkipVerify: true, ServerName: "localhost"})
			raw.SetDeadline(time.Now().Add(5 * time.Second))
			if err := tc.Handshake(); err == nil {
				c = tc
				break
			}
			raw.Close()
			time.Sleep(50 * time.Millisecond)
		}
		if c == nil {
			t.Fatalf("VERIF-INCONCLUSIVE no TLS handshake with the listener\n%s", tail(p.out.String()))
		}
		defer c.Close()
		br := bufio.NewReader(c)
		do := func(path string, timeout time.Duration) (int, string, error) {
			c.SetDeadline(time.Now().Add(timeout))
			fmt.Fprintf(c, "GET %s HTTP/1.1\r\nHost: localhost\r\n\r\n", path)
			resp, err := http.ReadResponse(br, &http.Request{Method: "GET"})
			if err != nil {
				return 0, "", err
			}
			b, err := io.ReadAll(resp.Body)
			resp.Body.Close()
			return resp.StatusCode, string(b), err
		}
		if code, body, err := do("/first", 5*time.Second); err != nil || code != 200 || body != "done" {
			t.Fatalf("VERIF-INCONCLUSIVE first request on the connection: %d %q %v\n%s", code, body, err, tail(p.out.String()))
		}
		if fault {
			was, err := softNoFile(pid)
			if err != nil || was == "" {
				t.Fatalf("VERIF-INCONCLUSIVE cannot read the descriptor limit: %v", err)
			}
			if err := setNoFile(pid, "1"); err != nil {
				t.Fatalf("VERIF-INCONCLUSIVE %v", err)
			}
			// somebody connects while no descriptor can be had: accept fails
			if x, err := net.DialTimeout("tcp", addr, time.Second); err == nil {
				defer x.Close()
			}
			time.Sleep(time.Duration(rapid.IntRange(50, 300).Draw(t, "fault_ms")) * time.Millisecond)
			select {
			case <-p.exited:
				t.Skip("the process ended at the accept failure (not this check's business)")
			default:
			}
			if err := setNoFile(pid, was); err != nil {
				t.Fatalf("VERIF-INCONCLUSIVE %v", err)
			}
			hx.Class("binary:accept-fault-before-the-shutdown:" + proto)
		}
		// the old connection still works
		if code, body, err := do("/again", 5*time.Second); err != nil || code != 200 || body != "done" {
			if fault {
				t.Skipf("the connection accepted before the fault no longer works: %d %q %v", code, body, err)
			}
			t.Fatalf("second request on the connection: %d %q %v", code, body, err)
		}
		type res struct {
			code int
			body string
			err  error
		}
		ch := make(chan res, 1)
		go func() {
			code, body, err := do("/slow", W+10*time.Second)
			ch <- res{code, body, err}
		}()
		time.Sleep(need / 4) // in flight
		sig := time.Now()
		p.cmd.Process.Signal(syscall.SIGTERM)
		hx.Eval()
		r := <-ch
		if r.err != nil || r.code != 200 || r.body != "done" {
			t.Fatalf("%s listener (accept fault earlier: %v): a request that needed %v was in flight on an established connection when SIGTERM arrived (shutdownwait %v) and did not complete normally: %+v after %v\n%s", proto, fault, need, W, r, time.Since(sig).Round(time.Millisecond), tail(p.out.String()))
		}
		select {
		case <-p.exited:
		case <-time.After(W + 8*time.Second):
			t.Fatalf("the process is still running %v after SIGTERM (shutdownwait %v)\n%s", time.Since(sig), W, tail(p.out.String()))
		}
		hx.NonTrivial(fmt.Sprintf("drain-after-fault|%s|%v|%v", proto, fault, W))
		hx.Class("binary:drain-on-an-established-tls-connection:" + proto)
	})
}
