package c03

import (
	"bytes"
	"crypto/tls"
	"fmt"
	"net/http"
	"net/url"
	"sort"
	"strings"
	"testing"

	"github.com/fabiolb/fabio/route"
	"pgregory.net/rapid"

	"verifharness/hx"
	"verifharness/observe"
	"verifharness/wire"
)

func TestMain(m *testing.M) { wire.Init(false); hx.Main(m) }

// ---------------------------------------------------------------------------
// generated tables

type rt struct {
	host string // as written in the config (any letter case)
	path string
	id   string // upstream host name identifying the route
}

var hostUniverse = []string{
	"", "", "foo.com", "a.foo.com", "b.a.foo.com", "*.foo.com", "*.a.foo.com", "*.com", "*",
	"bar.com", "foo.com:80", "foo.com:443", "foo.com:8080", "*.foo.com:8080", "*.com:8080", "*.foo.com:80", "x-1.foo.com",
	// names and addresses that end in the digits (or the colon) of a default port
	"web80", "web80:80", "node0", "node0:80", "10.0.0.43", "10.0.0.43:443", "h443:443", "app8:8080", "*.web80",
}

var prefixPaths = []string{"/", "/a", "/a/b", "/A/b", "/ab", "/a/b/c", "/A", "/b", "/a/B/c", "/straße", "/STRAẞE/x", "/Kelvin", "/kelvin/k", "/Ⱥ", "/ⱥ/z",
	// written with empty, "." and ".." segments and with a trailing slash: route paths are compared as written
	"/a//b", "/a/./b", "/a/../b", "/a/b/", "//a", "/a/"}
var globPaths = []string{"/", "/*", "/a", "/a*", "/a/*", "/a/b", "/a/b*", "/a/b/*", "/ab*", "/b*", "/a/b/c*", "/a//*", "/a/./b*", "/a/../*"}

func mixCase(t *rapid.T, s string) string {
	switch rapid.IntRange(0, 3).Draw(t, "casemode") {
	case 0:
		return s
	case 1:
		return strings.ToUpper(s)
	}
	b := []byte(s)
	for i := range b {
		if b[i] >= 'a' && b[i] <= 'z' && rapid.Bool().Draw(t, "up") {
			b[i] -= 32
		}
	}
	return string(b)
}

func genTable(t *rapid.T, paths []string) ([]rt, string) {
	n := rapid.IntRange(1, 12).Draw(t, "nroutes")
	var rts []rt
	var cfg strings.Builder
	seen := map[string]bool{}
	for i := 0; i < n; i++ {
		h := rapid.SampledFrom(hostUniverse).Draw(t, "host")
		p := rapid.SampledFrom(paths).Draw(t, "path")
		key := strings.ToLower(h) + "|" + p
		if seen[key] {
			continue // same route; would only add a target
		}
		seen[key] = true
		r := rt{host: mixCase(t, h), path: p, id: fmt.Sprintf("t%d", i)}
		rts = append(rts, r)
		fmt.Fprintf(&cfg, "route add svc%d %s%s http://%s:1/\n", i, r.host, r.path, r.id)
		if rapid.IntRange(0, 4).Draw(t, "second") == 0 {
			fmt.Fprintf(&cfg, "route add svc%d %s%s http://%s:2/\n", i, r.host, r.path, r.id)
		}
	}
	return rts, cfg.String()
}

type reqSpec struct {
	host string
	path string
	tls  bool
}

func genRequest(t *rapid.T, rts []rt) reqSpec {
	var host string
	switch rapid.IntRange(0, 9).Draw(t, "hostkind") {
	case 0:
		host = rapid.SampledFrom([]string{"zzz.org", "com", "foo.co", "oo.com", "", "foo.comx"}).Draw(t, "unrelated")
	case 1, 2, 3:
		host = rapid.SampledFrom(rts).Draw(t, "fromroute").host
	default:
		host = rapid.SampledFrom(hostUniverse).Draw(t, "fromuniverse")
	}
	// instantiate a wildcard
	if strings.Contains(host, "*") && rapid.IntRange(0, 5).Draw(t, "keepstar") != 0 {
		inst := rapid.SampledFrom([]string{"x", "a", "b.a", "deep.x", "x.a", "foo", "a.foo", "c.b.a.foo", ""}).Draw(t, "inst")
		host = strings.Replace(host, "*", inst, 1)
	}
	// port variations
	if !strings.Contains(host, ":") || rapid.IntRange(0, 3).Draw(t, "report") == 0 {
		if i := strings.Index(host, ":"); i >= 0 {
			host = host[:i]
		}
		host += rapid.SampledFrom([]string{"", "", ":80", ":443", ":8080", ":81"}).Draw(t, "port")
	}
	host = mixCase(t, host)
	base := rapid.SampledFrom(rts).Draw(t, "pathroute").path
	base = strings.TrimSuffix(base, "*")
	var path string
	switch rapid.IntRange(0, 5).Draw(t, "pathkind") {
	case 0:
		path = base
	case 1:
		path = base + rapid.SampledFrom([]string{"/x", "x", "/", "/b", "/b/c/d", "b"}).Draw(t, "suffix")
	case 2:
		if len(base) > 1 {
			path = base[:rapid.IntRange(1, len(base)).Draw(t, "cut")]
		} else {
			path = base
		}
	case 3:
		path = mixCase(t, base+rapid.SampledFrom([]string{"", "/x", "/b/c"}).Draw(t, "suffix2"))
	case 4:
		// incl. letters whose upper and lower case forms differ in UTF-8 length
		path = rapid.SampledFrom([]string{"/", "/zzz", "/a/b/c/d", "/A/B/C", "/ab/c", "/STRAẞE/x/y", "/straße/x", "/KELVIN/K/1", "/kelvin", "/ⱥ/z/1", "/Ⱥ/q"}).Draw(t, "fixedpath")
	default:
		path = base + "/" + rapid.StringMatching(`[a-cA-C/]{0,5}`).Draw(t, "rndsuffix")
	}
	if !strings.HasPrefix(path, "/") {
		path = "/" + path
	}
	return reqSpec{host: host, path: path, tls: rapid.Bool().Draw(t, "tls")}
}

// ---------------------------------------------------------------------------
// reference model (written from the property statement)

func normHost(h string, tls bool) string {
	h = strings.ToLower(h)
	if !tls && strings.HasSuffix(h, ":80") {
		return strings.TrimSuffix(h, ":80")
	}
	if tls && strings.HasSuffix(h, ":443") {
		return strings.TrimSuffix(h, ":443")
	}
	return h
}

// starMatch: '*' matches any (possibly empty) sequence; everything else is literal.
func starMatch(pat, s string) bool {
	parts := strings.Split(pat, "*")
	if len(parts) == 1 {
		return pat == s
	}
	if !strings.HasPrefix(s, parts[0]) {
		return false
	}
	s = s[len(parts[0]):]
	for i := 1; i < len(parts)-1; i++ {
		j := strings.Index(s, parts[i])
		if j < 0 {
			return false
		}
		s = s[j+len(parts[i]):]
	}
	return strings.HasSuffix(s, parts[len(parts)-1])
}

type rank struct{ class, neg int }

func hostRank(pattern string, reqHost string, tlsOn, globDisabled bool) (rank, bool) {
	if pattern == "" {
		return rank{2, 0}, true
	}
	np, nh := normHost(pattern, tlsOn), normHost(reqHost, tlsOn)
	if globDisabled || !strings.Contains(np, "*") {
		return rank{0, 0}, np == nh
	}
	if !starMatch(np, nh) {
		return rank{}, false
	}
	lit := len(np) - strings.Count(np, "*")
	return rank{1, -lit}, true
}

func pathSpec(matcher, routePath, reqPath string) (int, bool) {
	switch matcher {
	case "prefix":
		return len(routePath), strings.HasPrefix(reqPath, routePath)
	case "iprefix":
		lp := strings.ToLower(routePath)
		return len(lp), strings.HasPrefix(strings.ToLower(reqPath), lp)
	case "glob":
		if strings.HasSuffix(routePath, "*") {
			l := strings.TrimSuffix(routePath, "*")
			return len(l), strings.HasPrefix(reqPath, l)
		}
		return len(routePath), routePath == reqPath
	}
	panic(matcher)
}

// expected returns the set of acceptable route ids (nil = must not be routed)
// and the number of distinct ranks among the candidates.
func expected(rts []rt, rq reqSpec, matcher string, globDisabled bool) (map[string]bool, int) {
	type cand struct {
		r    rt
		rk   rank
		spec int
	}
	var cands []cand
	for _, r := range rts {
		rk, ok := hostRank(r.host, rq.host, rq.tls, globDisabled)
		if !ok {
			continue
		}
		sp, ok := pathSpec(matcher, r.path, rq.path)
		if !ok {
			continue
		}
		cands = append(cands, cand{r, rk, sp})
	}
	if len(cands) == 0 {
		return nil, 0
	}
	best := cands[0].rk
	levels := map[string]bool{}
	for _, c := range cands {
		levels[fmt.Sprint(c.rk, c.spec)] = true
		if c.rk.class < best.class || (c.rk.class == best.class && c.rk.neg < best.neg) {
			best = c.rk
		}
	}
	// per tied host: the most specific path
	bestPerHost := map[string]int{}
	for _, c := range cands {
		if c.rk != best {
			continue
		}
		h := strings.ToLower(c.r.host)
		if v, ok := bestPerHost[h]; !ok || c.spec > v {
			bestPerHost[h] = c.spec
		}
	}
	ok := map[string]bool{}
	for _, c := range cands {
		if c.rk == best && c.spec == bestPerHost[strings.ToLower(c.r.host)] {
			ok[c.r.id] = true
		}
	}
	return ok, len(levels)
}

// ---------------------------------------------------------------------------

func mkReq(rq reqSpec) *http.Request {
	r := &http.Request{Host: rq.host, URL: &url.URL{Path: rq.path}, Header: http.Header{}}
	if rq.tls {
		r.TLS = &tls.ConnectionState{}
	}
	return r
}

func hostOf(t *route.Target) string {
	if t == nil {
		return ""
	}
	return t.URL.Hostname()
}

func checkLookup(t *rapid.T, matcher string) {
	paths := prefixPaths
	if matcher == "glob" {
		paths = globPaths
	}
	rts, cfg := genTable(t, paths)
	tbl, err := route.NewTable(bytes.NewBufferString(cfg))
	if err != nil {
		t.Fatalf("table rejected: %v\n%s", err, cfg)
	}
	if rapid.IntRange(0, 3).Draw(t, "table-from-the-custom-backend's-definitions") == 0 {
		// the same commands as the custom backend delivers them (JSON definitions, in the same order)
		cmds, perr := route.Parse(bytes.NewBufferString(cfg))
		if perr != nil {
			t.Fatalf("%v\n%s", perr, cfg)
		}
		var defs []route.RouteDef
		for _, c := range cmds {
			defs = append(defs, *c)
		}
		tbl, err = route.NewTableCustom(&defs)
		if err != nil {
			t.Fatalf("definitions rejected: %v\n%s", err, cfg)
		}
		hx.Class("table-built-from-custom-backend-definitions")
	}
	globDisabled := rapid.Bool().Draw(t, "globDisabled")
	picker := rapid.SampledFrom([]string{"rr", "rnd"}).Draw(t, "picker")
	cache := route.NewGlobCache(rapid.SampledFrom([]int{1, 2, 5, 1000}).Draw(t, "cachesize"))
	nreq := rapid.IntRange(1, 8).Draw(t, "nreq")
	pokeAt := -1
	if rapid.IntRange(0, 2).Draw(t, "admin-looks-at-the-table") == 0 {
		pokeAt = rapid.IntRange(0, nreq-1).Draw(t, "pokeat")
	}
	for i := 0; i < nreq; i++ {
		if i == pokeAt {
			// somebody opens the admin UI / API: reading the table must not change routing
			hx.EvalN(observe.Poke(tbl))
			hx.Class("admin-endpoints-read-the-table-before-a-lookup")
		}
		rq := genRequest(t, rts)
		want, levels := expected(rts, rq, matcher, globDisabled)
		got := tbl.Lookup(mkReq(rq), "", route.Picker[picker], route.Matcher[matcher], cache, globDisabled)
		hx.Eval()
		desc := fmt.Sprintf("matcher=%s globDisabled=%v host=%q tls=%v path=%q", matcher, globDisabled, rq.host, rq.tls, rq.path)
		switch {
		case want == nil && got != nil:
			t.Fatalf("request routed to %s although no route matches it\n%s\ntable:\n%s", hostOf(got), desc, cfg)
		case want != nil && got == nil:
			t.Fatalf("request not routed although candidates exist (acceptable: %v)\n%s\ntable:\n%s", keys(want), desc, cfg)
		case want != nil && !want[hostOf(got)]:
			t.Fatalf("request routed to %s, most specific matching route(s): %v\n%s\ntable:\n%s", hostOf(got), keys(want), desc, cfg)
		}
		if want == nil {
			hx.Class(matcher + ":no-candidate")
		} else {
			hx.Class(matcher + ":routed")
		}
		if levels >= 2 {
			hx.NonTrivial(cfg + "|" + desc)
			hx.Class(matcher + ":nontrivial")
			if rq.host != strings.ToLower(rq.host) {
				hx.Class("nontrivial:uppercase-host")
			}
			if globDisabled {
				hx.Class("nontrivial:glob-disabled")
			}
			if hx.WantSample(matcher) {
				hx.Sample(matcher, map[string]any{"table": strings.Split(strings.TrimSpace(cfg), "\n"), "request": desc, "routed_to": hostOf(got), "acceptable": keys(want)})
			}
		}
	}
}

func keys(m map[string]bool) []string {
	var k []string
	for s := range m {
		k = append(k, s)
	}
	sort.Strings(k)
	return k
}

func TestC03LookupPrefix(t *testing.T) {
	hx.Check(t, hx.Scale(50000, 600000), func(t *rapid.T) { checkLookup(t, "prefix") })
}

func TestC03LookupIPrefix(t *testing.T) {
	hx.Check(t, hx.Scale(50000, 600000), func(t *rapid.T) { checkLookup(t, "iprefix") })
}

func TestC03LookupGlob(t *testing.T) {
	hx.Check(t, hx.Scale(50000, 600000), func(t *rapid.T) { checkLookup(t, "glob") })
}

// LookupHost is what the tcp, tcp+sni and tcp-dynamic listeners use: the
// name (":port", "ip:port" or the SNI server name) selects the route with
// that host, case-insensitively.
func TestC03LookupHost(t *testing.T) {
	names := []string{":1234", ":5555", "foo.com", "a.foo.com", "sni.example.org", "127.0.0.1:1234", "bar.com"}
	hx.Check(t, hx.Scale(5000, 200000), func(t *rapid.T) {
		n := rapid.IntRange(1, 6).Draw(t, "n")
		var cfg strings.Builder
		have := map[string]string{}
		for i := 0; i < n; i++ {
			h := rapid.SampledFrom(names).Draw(t, "name")
			if _, ok := have[h]; ok {
				continue
			}
			written := mixCase(t, h)
			id := fmt.Sprintf("u%d", i)
			have[h] = id
			if strings.HasPrefix(h, ":") {
				fmt.Fprintf(&cfg, "route add svc%d %s tcp://%s:1\n", i, written, id)
			} else {
				fmt.Fprintf(&cfg, "route add svc%d %s/ tcp://%s:1\n", i, written, id)
			}
		}
		tbl, err := route.NewTable(bytes.NewBufferString(cfg.String()))
		if err != nil {
			t.Fatalf("table rejected: %v\n%s", err, cfg.String())
		}
		q := rapid.SampledFrom(append(names, "nope.example", ":1")).Draw(t, "query")
		asked := mixCase(t, q)
		got := tbl.LookupHost(asked, route.Picker["rr"])
		hx.Eval()
		want, ok := have[q]
		if ok && hostOf(got) != want {
			t.Fatalf("LookupHost(%q) = %q, want route %s\n%s", asked, hostOf(got), want, cfg.String())
		}
		if !ok && got != nil {
			t.Fatalf("LookupHost(%q) routed to %s but no such host is in the table\n%s", asked, hostOf(got), cfg.String())
		}
		if ok && asked != q {
			hx.NonTrivial("lh|" + cfg.String() + asked)
			hx.Class("lookuphost:case-differs")
		}
	})
}

// "If any candidate exists the request is routed" must hold for every pick of
// the route's picker, not only the first one: routes with several targets and
// fixed weights (incl. tiny ones, which get a single slot of the 10,000) are
// looked up for a whole round-robin cycle and for every slot the random picker
// can draw; each answer must be a target of the most specific route.
func TestC03EveryPickRouted(t *testing.T) {
	hx.Check(t, hx.Scale(40, 800), func(t *rapid.T) {
		n := rapid.IntRange(2, 5).Draw(t, "targets")
		var cfg strings.Builder
		specific := map[string]bool{}
		for i := 0; i < n; i++ {
			h := fmt.Sprintf("t%d", i)
			specific[h] = true
			fmt.Fprintf(&cfg, "route add svc foo.com/a/b http://%s:80/", h)
			switch rapid.IntRange(0, 4).Draw(t, "wkind") {
			case 0:
				fmt.Fprintf(&cfg, " weight %s", rapid.SampledFrom([]string{"0.00001", "0.00005", "0.000001", "0.00009"}).Draw(t, "tiny"))
			case 1:
				fmt.Fprintf(&cfg, " weight %s", rapid.SampledFrom([]string{"0.3", "0.5", "0.0001", "0.33333", "0.9"}).Draw(t, "w"))
			}
			cfg.WriteString("\n")
		}
		cfg.WriteString("route add other foo.com/a http://less-specific-path:80/\nroute add other *.com/a/b http://wildcard-host:80/\nroute add fallback /a http://no-host:80/\n")
		tbl, err := route.NewTable(bytes.NewBufferString(cfg.String()))
		if err != nil {
			t.Fatalf("%v\n%s", err, cfg.String())
		}
		var rt *route.Route
		for _, r := range tbl["foo.com"] {
			if r.Path == "/a/b" {
				rt = r
			}
		}
		ring := rt.VerifRingLen()
		req := mkReq(reqSpec{host: "foo.com", path: "/a/b/c"})
		cache := route.NewGlobCache(10)
		check := func(k int, picker string, got *route.Target) {
			if got == nil {
				t.Fatalf("lookup %d of %d with the %s picker: request not routed although candidates exist\n%s", k, ring, picker, cfg.String())
			}
			if !specific[hostOf(got)] {
				t.Fatalf("lookup %d of %d with the %s picker: request routed to %s instead of a target of the most specific route foo.com/a/b\n%s", k, ring, picker, hostOf(got), cfg.String())
			}
		}
		for k := 0; k < ring+3; k++ {
			check(k, "rr", tbl.Lookup(req, "", route.Picker["rr"], route.Matcher["prefix"], cache, false))
		}
		next := 0
		restore := route.VerifSetRandIntn(func(m int) int { v := next % m; next++; return v })
		for k := 0; k < ring; k++ {
			check(k, "rnd", tbl.Lookup(req, "", route.Picker["rnd"], route.Matcher["prefix"], cache, false))
		}
		restore()
		hx.EvalN(2*ring + 3)
		hx.Class("every-pick-routed")
		if ring > n {
			hx.NonTrivial("everypick|" + cfg.String())
		}
	})
}
