package c03

import (
	"bytes"
	"fmt"
	"strings"
	"testing"

	"github.com/fabiolb/fabio/route"
	"pgregory.net/rapid"

	"verifharness/hx"
)

// Host patterns are globs, and a glob need not contain a star: alternatives ({eu,us}.foo.com),
// character classes (api[0-9].foo.com) and single-character wildcards (app?.foo.com) match
// request hosts that are longer or shorter than the pattern text. Such a route is host-specific:
// a request whose host the pattern matches goes to it (longest matching path within it), and the
// host-less routes are used only when no host pattern matches. (How such a pattern ranks against
// a star pattern that also matches is not stated and not asserted.)
func TestC03HostGlobsWithoutStar(t *testing.T) {
	type pat struct {
		text    string
		match   []string // request hosts it matches
		nomatch []string
	}
	pats := []pat{
		{"{eu,us}.foo.com", []string{"eu.foo.com", "us.foo.com", "EU.foo.com"}, []string{"de.foo.com", "{eu,us}.foo.com", "eu.foo.co", "euus.foo.com"}},
		{"{a,bb,ccc}.bar.com:8080", []string{"a.bar.com:8080", "bb.bar.com:8080", "ccc.bar.com:8080"}, []string{"a.bar.com", "cc.bar.com:8080", "a.bar.com:80"}},
		{"api[0-9].foo.com", []string{"api0.foo.com", "api7.foo.com", "API9.FOO.COM"}, []string{"api.foo.com", "apix.foo.com", "api10.foo.com"}},
		{"app?.example.org", []string{"app1.example.org", "appx.example.org"}, []string{"app.example.org", "app12.example.org"}},
		{"{www,}.shop.com", []string{"www.shop.com", ".shop.com"}, []string{"shop.com", "ww.shop.com"}},
		{"[a-c][a-c].net", []string{"ab.net", "cc.net"}, []string{"a.net", "abc.net", "ad.net"}},
	}
	paths := []string{"/", "/a", "/a/b"}
	hx.Check(t, hx.Scale(4000, 60000), func(t *rapid.T) {
		p := rapid.SampledFrom(pats).Draw(t, "pattern")
		var cfg strings.Builder
		type rt struct{ host, path, id string }
		var rts []rt
		seen := map[string]bool{}
		add := func(host, path string) {
			if seen[host+"|"+path] {
				return
			}
			seen[host+"|"+path] = true
			r := rt{host, path, fmt.Sprintf("t%d", len(rts))}
			rts = append(rts, r)
			fmt.Fprintf(&cfg, "route add svc%d %s%s http://%s:1/\n", len(rts), mixCase(t, host), path, r.id)
		}
		for i, n := 0, rapid.IntRange(1, 3).Draw(t, "glob-host-routes"); i < n; i++ {
			add(p.text, rapid.SampledFrom(paths).Draw(t, "path"))
		}
		for i, n := 0, rapid.IntRange(0, 3).Draw(t, "other-routes"); i < n; i++ {
			add(rapid.SampledFrom([]string{"", "", "unrelated.org", "zzz.com:8080"}).Draw(t, "other-host"), rapid.SampledFrom(paths).Draw(t, "other-path"))
		}
		tbl, err := route.NewTable(bytes.NewBufferString(cfg.String()))
		if err != nil {
			t.Fatalf("table rejected: %v\n%s", err, cfg.String())
		}
		cache := route.NewGlobCache(rapid.SampledFrom([]int{1, 3, 1000}).Draw(t, "cachesize"))
		for k, n := 0, rapid.IntRange(1, 4).Draw(t, "requests"); k < n; k++ {
			matches := rapid.IntRange(0, 3).Draw(t, "matching-host") != 0
			var host string
			if matches {
				host = rapid.SampledFrom(p.match).Draw(t, "host")
			} else {
				host = rapid.SampledFrom(p.nomatch).Draw(t, "other")
			}
			tlsOn := false
			if !strings.Contains(host, ":") && rapid.IntRange(0, 3).Draw(t, "default-port-written") == 0 {
				if tlsOn = rapid.Bool().Draw(t, "tls"); tlsOn {
					host += ":443"
				} else {
					host += ":80"
				}
			}
			reqPath := rapid.SampledFrom([]string{"/", "/a", "/a/b/c", "/ab", "/x", "/a/x"}).Draw(t, "request-path")
			// reference: the candidates of the most specific host class, longest path
			best := map[string]int{}
			bestLen := -1
			for _, hostClass := range []bool{true, false} {
				for _, r := range rts {
					if (r.host == p.text) != hostClass || (hostClass && !matches) || (!hostClass && r.host != "") {
						continue
					}
					if strings.HasPrefix(reqPath, r.path) && len(r.path) >= bestLen {
						if len(r.path) > bestLen {
							best = map[string]int{}
							bestLen = len(r.path)
						}
						best[r.id] = 1
					}
				}
				if bestLen >= 0 {
					break
				}
			}
			got := tbl.Lookup(mkReq(reqSpec{host: host, path: reqPath, tls: tlsOn}), "", route.Picker["rr"], route.Matcher["prefix"], cache, false)
			hx.Eval()
			desc := fmt.Sprintf("host=%q tls=%v path=%q (host pattern %q %s)", host, tlsOn, reqPath, p.text, map[bool]string{true: "matches it", false: "does not match it"}[matches])
			switch {
			case bestLen < 0 && got != nil:
				t.Fatalf("request routed to %s although no route matches it\n%s\ntable:\n%s", hostOf(got), desc, cfg.String())
			case bestLen >= 0 && got == nil:
				t.Fatalf("request not routed although candidates exist (acceptable: %v)\n%s\ntable:\n%s", best, desc, cfg.String())
			case bestLen >= 0 && best[hostOf(got)] == 0:
				t.Fatalf("request routed to %s, most specific matching route(s): %v\n%s\ntable:\n%s", hostOf(got), best, desc, cfg.String())
			}
			if matches {
				hx.Class("host-glob-without-star:matching-request")
				if len(strings.SplitN(host, ":", 2)[0]) != len(strings.SplitN(p.text, ":", 2)[0]) {
					hx.Class("host-glob-without-star:request-host-of-another-length-than-the-pattern")
				}
				hx.NonTrivial(cfg.String() + "|" + desc)
			} else {
				hx.Class("host-glob-without-star:non-matching-request")
			}
		}
	})
}
