package hx

import (
	"fmt"
	"net"
	"os"
	"sync/atomic"
)

// FreeAddr returns a loopback address that is free now and that no other
// harness process will pick: the harness hands such addresses to fabio, which
// binds them a moment later (close-then-reopen).  Ports the kernel gives out
// for ":0" (the ephemeral range, 32768 and up) can be taken by another process
// in that moment - several check processes run side by side - so the addresses
// come from a range below it, divided among the processes by pid.
func FreeAddr() string { return FreeAddrOn("127.0.0.1") }

var portSeq uint32

const (
	portBase   = 10240
	portSlots  = 200
	portsPerPS = 110 // 10240 .. 32239
)

func FreeAddrOn(ip string) string {
	base := portBase + (os.Getpid()%portSlots)*portsPerPS
	for i := 0; i < portsPerPS; i++ {
		p := base + int(atomic.AddUint32(&portSeq, 1))%portsPerPS
		a := net.JoinHostPort(ip, fmt.Sprint(p))
		ln, err := net.Listen("tcp", a)
		if err != nil {
			continue
		}
		ln.Close()
		return a
	}
	// the range of this process is exhausted: fall back to what the kernel offers
	ln, err := net.Listen("tcp", net.JoinHostPort(ip, "0"))
	if err != nil {
		panic(err)
	}
	defer ln.Close()
	return ln.Addr().String()
}
