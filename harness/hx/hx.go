// Package hx is the common support code of the verification harness:
// evidence counters that every property test feeds, the rapid wrapper that
// pins case counts and PRNG values to VERIF_SEED / VERIF_TIER / VERIF_SHARD,
// and the loader for /verif/known_findings.json.
package hx

import (
	"encoding/json"
	"flag"
	"fmt"
	"hash/fnv"
	"io"
	"log"
	"net"
	"os"
	"path/filepath"
	"sort"
	"strconv"
	"strings"
	"sync"
	"sync/atomic"
	"testing"
	"time"

	"pgregory.net/rapid"
)

// ---------------------------------------------------------------------------
// environment

// Tier is "quick" or "thorough".
func Tier() string {
	if os.Getenv("VERIF_TIER") == "thorough" {
		return "thorough"
	}
	return "quick"
}

func Thorough() bool { return Tier() == "thorough" }

// Seed is VERIF_SEED (default 1). 0 is remapped to 1 because rapid treats a
// PRNG value of 0 as "pick one at random".
func Seed() uint64 {
	s, _ := strconv.ParseUint(os.Getenv("VERIF_SEED"), 10, 64)
	if s == 0 {
		s = 1
	}
	return s
}

// Shard / Shards: the driver may run the same test binary several times in
// parallel; every shard uses its own PRNG value.
func Shard() int { n, _ := strconv.Atoi(os.Getenv("VERIF_SHARD")); return n }
func Shards() int {
	n, _ := strconv.Atoi(os.Getenv("VERIF_SHARDS"))
	if n < 1 {
		n = 1
	}
	return n
}

// Scale returns q in the quick tier and th in the thorough tier, divided over
// the shards (at least 1).
func Scale(q, th int) int {
	n := q
	if Thorough() {
		n = th
	}
	n = (n + Shards() - 1) / Shards()
	if n < 1 {
		n = 1
	}
	return n
}

// Pick returns q or th without sharding.
func Pick(q, th int) int {
	if Thorough() {
		return th
	}
	return q
}

func init() {
	if os.Getenv("VERIF_LOG") == "" {
		log.SetOutput(io.Discard)
	}
}

// Quiet discards the standard logger's output (fabio logs per request).
func Quiet() { log.SetOutput(io.Discard) }

// ---------------------------------------------------------------------------
// rapid wrapper

var checkSeq uint64

// Check runs prop under rapid with `checks` cases and a PRNG value derived
// from VERIF_SEED, the shard and the name of the test (so each test in the
// binary explores a different stream and a run is a pure function of the
// code and VERIF_SEED).
func Check(t *testing.T, checks int, prop func(*rapid.T)) {
	t.Helper()
	if ff := os.Getenv("VERIF_REPLAY"); ff != "" {
		// replay mode: only the test named in VERIF_REPLAY_TEST runs its
		// fail file; everything else is skipped by -run in the driver.
		must(flag.Set("rapid.failfile", ff))
	} else {
		h := fnv.New64a()
		h.Write([]byte(t.Name()))
		// several Check calls inside one test explore different streams
		seq := atomic.AddUint64(&checkSeq, 1) - 1
		seed := Seed()*1000003 + uint64(Shard())*7919 + h.Sum64()%1000 + seq*104729
		if seed == 0 {
			seed = 1
		}
		must(flag.Set("rapid.seed", strconv.FormatUint(seed, 10)))
		must(flag.Set("rapid.checks", strconv.Itoa(checks)))
	}
	if d := os.Getenv("VERIF_FAILDIR"); d != "" {
		// rapid writes testdata/rapid/<Test>/*.fail relative to the cwd
		// (the package directory); the driver collects them afterwards.
		_ = d
	}
	rapid.Check(t, prop)
}

func must(err error) {
	if err != nil {
		panic(err)
	}
}

// ---------------------------------------------------------------------------
// evidence

type Recorder struct {
	mu          sync.Mutex
	evals       int64
	nontrivial  map[uint64]struct{}
	ntOverflow  int64
	classes     map[string]int64
	samples     map[string][]any // per sample group
	sampleOrder []string
	excluded    map[string]int64
	known       []string // KNOWN-FINDING lines printed by this run
	exhaustive  *bool
	notes       []string
}

const maxNTHashes = 400000
const maxSamplesPerGroup = 4

var R = &Recorder{
	nontrivial: map[uint64]struct{}{},
	classes:    map[string]int64{},
	samples:    map[string][]any{},
	excluded:   map[string]int64{},
}

// Eval counts one executed property body.
func Eval() { R.mu.Lock(); R.evals++; R.mu.Unlock() }

// EvalN counts n executed evaluations.
func EvalN(n int) { R.mu.Lock(); R.evals += int64(n); R.mu.Unlock() }

// NonTrivial registers the canonical form of a case that is non-trivial by
// the property's stated rule. Distinctness is measured by hashing the key.
func NonTrivial(key string) {
	h := fnv.New64a()
	h.Write([]byte(key))
	v := h.Sum64()
	R.mu.Lock()
	if len(R.nontrivial) < maxNTHashes {
		R.nontrivial[v] = struct{}{}
	} else if _, ok := R.nontrivial[v]; !ok {
		R.ntOverflow++ // not counted as distinct: conservative
	}
	R.mu.Unlock()
}

// Class bumps a histogram bucket describing what the generator produced.
func Class(name string) { R.mu.Lock(); R.classes[name]++; R.mu.Unlock() }

func ClassN(name string, n int) { R.mu.Lock(); R.classes[name] += int64(n); R.mu.Unlock() }

// Sample keeps up to a few example cases per group, verbatim.
func Sample(group string, v any) {
	R.mu.Lock()
	defer R.mu.Unlock()
	if _, ok := R.samples[group]; !ok {
		R.sampleOrder = append(R.sampleOrder, group)
	}
	if len(R.samples[group]) < maxSamplesPerGroup {
		R.samples[group] = append(R.samples[group], v)
	}
}

// WantSample reports whether the group still has room (to avoid building
// expensive sample values).
func WantSample(group string) bool {
	R.mu.Lock()
	defer R.mu.Unlock()
	return len(R.samples[group]) < maxSamplesPerGroup
}

// Excluded counts a generated case skipped because it falls into a recorded
// known finding.
func Excluded(id string) { R.mu.Lock(); R.excluded[id]++; R.mu.Unlock() }

func Exhaustive(b bool) { R.mu.Lock(); R.exhaustive = &b; R.mu.Unlock() }

func Note(s string) { R.mu.Lock(); R.notes = append(R.notes, s); R.mu.Unlock() }

type fragment struct {
	Evals      int64            `json:"evaluations"`
	NT         []uint64         `json:"nt_hashes"`
	NTOverflow int64            `json:"nt_overflow"`
	Classes    map[string]int64 `json:"classes"`
	Samples    []any            `json:"samples"`
	Excluded   map[string]int64 `json:"excluded_known"`
	Known      []string         `json:"known_lines"`
	Exhaustive *bool            `json:"exhaustive,omitempty"`
	Notes      []string         `json:"notes,omitempty"`
}

// Flush writes the evidence fragment to $VERIF_EVID_OUT (if set).
func Flush() {
	out := os.Getenv("VERIF_EVID_OUT")
	if out == "" {
		return
	}
	R.mu.Lock()
	defer R.mu.Unlock()
	f := fragment{Evals: R.evals, NTOverflow: R.ntOverflow, Classes: R.classes,
		Excluded: R.excluded, Known: R.known, Exhaustive: R.exhaustive, Notes: R.notes}
	for h := range R.nontrivial {
		f.NT = append(f.NT, h)
	}
	sort.Slice(f.NT, func(i, j int) bool { return f.NT[i] < f.NT[j] })
	for _, g := range R.sampleOrder {
		for _, s := range R.samples[g] {
			f.Samples = append(f.Samples, map[string]any{"group": g, "case": s})
		}
	}
	b, err := json.Marshal(f)
	if err != nil {
		// a sample that cannot be marshalled must not lose the counters
		f.Samples = []any{fmt.Sprintf("unmarshalable samples: %v", err)}
		b, _ = json.Marshal(f)
	}
	_ = os.MkdirAll(filepath.Dir(out), 0o755)
	_ = os.WriteFile(out, b, 0o644)
}

// Main is the TestMain body shared by all harness packages.
func Main(m *testing.M) {
	// rapid replays testdata/rapid first; a stale file must not leak in.
	if os.Getenv("VERIF_REPLAY") == "" {
		_ = os.RemoveAll("testdata/rapid")
	}
	code := m.Run()
	Flush()
	os.Exit(code)
}

// ---------------------------------------------------------------------------
// known findings

type Finding struct {
	Property string `json:"property"`
	ID       string `json:"id"`     // stable key used by the harness to exclude the class
	Status   string `json:"status"` // "known" or "fixed"
	What     string `json:"what"`
	Commit   string `json:"commit,omitempty"`
}

var (
	kfOnce sync.Once
	kf     []Finding
)

func findings() []Finding {
	kfOnce.Do(func() {
		p := os.Getenv("VERIF_KNOWN_FINDINGS")
		if p == "" {
			p = "/verif/known_findings.json"
		}
		b, err := os.ReadFile(p)
		if err != nil {
			return
		}
		var doc struct {
			Findings []Finding `json:"findings"`
		}
		if json.Unmarshal(b, &doc) == nil {
			kf = doc.Findings
		}
	})
	return kf
}

// Known reports whether the finding with the given id is listed as "known"
// (i.e. recorded, not repaired). A "fixed" entry suppresses nothing.
func Known(id string) bool {
	for _, f := range findings() {
		if f.ID == id && f.Status == "known" {
			return true
		}
	}
	return false
}

// ReportKnown prints the KNOWN-FINDING line for a listed finding that the run
// re-confirmed on the current tree.
func ReportKnown(id string) {
	for _, f := range findings() {
		if f.ID == id && f.Status == "known" {
			line := fmt.Sprintf("KNOWN-FINDING: property=%s %s", f.Property, f.What)
			R.mu.Lock()
			dup := false
			for _, k := range R.known {
				if k == line {
					dup = true
				}
			}
			if !dup {
				R.known = append(R.known, line)
			}
			R.mu.Unlock()
			if !dup {
				fmt.Println(line)
			}
			return
		}
	}
}

// ---------------------------------------------------------------------------
// sockets of the harness itself

// Listen is net.Listen with patience: under heavy connection churn the kernel
// can run out of bindable ephemeral ports for a while. That is an environment
// condition, never a verdict about the code under test.
func Listen(network, addr string) (net.Listener, error) {
	var ln net.Listener
	var err error
	for i := 0; i < 50; i++ {
		if ln, err = net.Listen(network, addr); err == nil {
			return ln, nil
		}
		if !EnvErr(err) {
			return nil, err
		}
		time.Sleep(200 * time.Millisecond)
	}
	return nil, err
}

// EnvErr reports whether err is a local resource problem (ports, descriptors).
func EnvErr(err error) bool {
	if err == nil {
		return false
	}
	s := err.Error()
	for _, m := range []string{"address already in use", "cannot assign requested address", "too many open files", "no buffer space"} {
		if strings.Contains(s, m) {
			return true
		}
	}
	return false
}

// ---------------------------------------------------------------------------
// small helpers

// Trunc shortens a string for samples.
func Trunc(s string, n int) string {
	if len(s) <= n {
		return s
	}
	return s[:n] + fmt.Sprintf("…(+%d bytes)", len(s)-n)
}

// Join is strings.Join for any fmt-able values.
func Join(vs []string, sep string) string { return strings.Join(vs, sep) }
