package c10

import (
	"bytes"
	"crypto/ecdsa"
	"crypto/elliptic"
	"crypto/rand"
	"crypto/tls"
	"crypto/x509"
	"crypto/x509/pkix"
	"encoding/binary"
	"encoding/hex"
	"errors"
	"fmt"
	"io"
	"math/big"
	"net"
	"strings"
	"sync"
	"testing"
	"time"

	"github.com/fabiolb/fabio/proxy/tcp"
	"github.com/fabiolb/fabio/route"
	"pgregory.net/rapid"

	"verifharness/hx"
)

func TestMain(m *testing.M) { hx.Main(m) }

// ---------------------------------------------------------------------------
// in-memory connections

// feedConn hands a fixed byte string to its reader and then reports EOF;
// writes are discarded.
type feedConn struct {
	r *bytes.Reader
}

func (c *feedConn) Read(p []byte) (int, error)       { return c.r.Read(p) }
func (c *feedConn) Write(p []byte) (int, error)      { return len(p), nil }
func (c *feedConn) Close() error                     { return nil }
func (c *feedConn) LocalAddr() net.Addr              { return &net.TCPAddr{IP: net.IPv4(127, 0, 0, 1), Port: 1} }
func (c *feedConn) RemoteAddr() net.Addr             { return &net.TCPAddr{IP: net.IPv4(127, 0, 0, 1), Port: 2} }
func (c *feedConn) SetDeadline(time.Time) error      { return nil }
func (c *feedConn) SetReadDeadline(time.Time) error  { return nil }
func (c *feedConn) SetWriteDeadline(time.Time) error { return nil }

// captureConn records what is written and reports EOF on read.
type captureConn struct {
	feedConn
	w bytes.Buffer
}

func (c *captureConn) Write(p []byte) (int, error) { return c.w.Write(p) }

var errAbort = errors.New("verif: abort handshake")

// stdlibServerName feeds the bytes to a crypto/tls server. called reports
// whether the TLS stack accepted the ClientHello far enough to tell the
// application which server name it carries.
func stdlibServerName(stream []byte) (name string, called bool) {
	cfg := &tls.Config{
		MinVersion: tls.VersionTLS10,
		GetConfigForClient: func(chi *tls.ClientHelloInfo) (*tls.Config, error) {
			name, called = chi.ServerName, true
			return nil, errAbort
		},
	}
	srv := tls.Server(&feedConn{r: bytes.NewReader(stream)}, cfg)
	_ = srv.Handshake()
	return
}

// captureHello returns the first TLS record a crypto/tls client with the
// given config emits.
func captureHello(cfg *tls.Config) ([]byte, error) {
	cc := &captureConn{feedConn: feedConn{r: bytes.NewReader(nil)}}
	cl := tls.Client(cc, cfg)
	_ = cl.Handshake() // fails with EOF after the ClientHello went out
	b := cc.w.Bytes()
	if len(b) < 9 || b[0] != 0x16 {
		return nil, fmt.Errorf("no handshake record captured (%d bytes)", len(b))
	}
	n := int(b[3])<<8 | int(b[4])
	if len(b) < 5+n {
		return nil, fmt.Errorf("short record")
	}
	return append([]byte(nil), b[:5+n]...), nil
}

// ---------------------------------------------------------------------------
// a real server for resumption hellos

var (
	srvOnce sync.Once
	srvCfg  *tls.Config
)

func serverConfig() *tls.Config {
	srvOnce.Do(func() {
		key, err := ecdsa.GenerateKey(elliptic.P256(), rand.Reader)
		if err != nil {
			panic(err)
		}
		tmpl := &x509.Certificate{SerialNumber: big.NewInt(1), Subject: pkix.Name{CommonName: "verif"}, NotBefore: time.Now().Add(-time.Hour), NotAfter: time.Now().Add(24 * time.Hour), DNSNames: []string{"*"}}
		der, err := x509.CreateCertificate(rand.Reader, tmpl, tmpl, &key.PublicKey, key)
		if err != nil {
			panic(err)
		}
		srvCfg = &tls.Config{Certificates: []tls.Certificate{{Certificate: [][]byte{der}, PrivateKey: key}}, MinVersion: tls.VersionTLS10}
	})
	return srvCfg
}

// resumptionHello performs one full handshake with an in-process server so
// that the session cache holds a ticket / PSK, then captures the hello of a
// second connection with the same client config.
func resumptionHello(cfg *tls.Config) ([]byte, error) {
	cfg = cfg.Clone()
	cfg.ClientSessionCache = tls.NewLRUClientSessionCache(4)
	cfg.InsecureSkipVerify = true
	// loopback TCP rather than net.Pipe: both ends may write at the same
	// time (alerts, tickets) and a synchronous pipe would deadlock
	ln, err := hx.Listen("tcp", "127.0.0.1:0")
	if err != nil {
		return nil, err
	}
	defer ln.Close()
	done := make(chan error, 1)
	go func() {
		c2, err := ln.Accept()
		if err != nil {
			done <- err
			return
		}
		defer c2.Close()
		c2.SetDeadline(time.Now().Add(3 * time.Second))
		s := tls.Server(c2, serverConfig())
		err = s.Handshake()
		if err == nil {
			// TLS 1.3 tickets are sent after the handshake; the client picks
			// them up while reading application data
			_, err = s.Write([]byte("x"))
		}
		done <- err
	}()
	c1, err := net.Dial("tcp", ln.Addr().String())
	if err != nil {
		return nil, err
	}
	defer c1.Close()
	c1.SetDeadline(time.Now().Add(3 * time.Second))
	cl := tls.Client(c1, cfg)
	if err := cl.Handshake(); err != nil {
		c1.Close()
		<-done
		return nil, err
	}
	buf := make([]byte, 1)
	cl.Read(buf)
	<-done
	return captureHello(cfg)
}

// ---------------------------------------------------------------------------
// generators

var serverNames = []string{
	"example.com", "a.b.c.d.example.org", "EXAMPLE.com", "MiXeD.Case.Example.NET", "under_score.example.com",
	"xn--mnchen-3ya.de", "localhost", "x", "a-b-c.example", "1.2.3.4.example", "www.example.com",
	strings.Repeat("a", 63) + "." + strings.Repeat("b", 63) + "." + strings.Repeat("c", 63) + "." + strings.Repeat("d", 57), // 249 bytes
	strings.Repeat("l", 63) + ".example",
}

var (
	sniTableOnce sync.Once
	sniTbl       route.Table
	sniRouteFor  = map[string]string{}
)

// sniTable has one tcp route per (lower-cased) server name of the generator.
func sniTable() route.Table {
	sniTableOnce.Do(func() {
		var b strings.Builder
		i := 0
		for _, n := range serverNames {
			l := strings.ToLower(n)
			if _, ok := sniRouteFor[l]; ok {
				continue
			}
			i++
			sniRouteFor[l] = fmt.Sprintf("10.0.0.%d:443", i)
			fmt.Fprintf(&b, "route add s%d %s/ tcp://%s\n", i, l, sniRouteFor[l])
		}
		tbl, err := route.NewTable(bytes.NewBufferString(b.String()))
		if err != nil {
			panic(err)
		}
		sniTbl = tbl
	})
	return sniTbl
}

var ipNames = []string{"127.0.0.1", "::1", "[::1]", "10.1.2.3", ""}

var allSuites = func() []uint16 {
	var s []uint16
	for _, c := range tls.CipherSuites() {
		s = append(s, c.ID)
	}
	for _, c := range tls.InsecureCipherSuites() {
		s = append(s, c.ID)
	}
	return s
}()

func genClientConfig(t *rapid.T) (*tls.Config, string) {
	cfg := &tls.Config{InsecureSkipVerify: true}
	want := ""
	if rapid.IntRange(0, 6).Draw(t, "ip") == 0 {
		cfg.ServerName = rapid.SampledFrom(ipNames).Draw(t, "ipname") // IP literal or empty: no SNI
	} else {
		if rapid.IntRange(0, 3).Draw(t, "rndname") == 0 {
			cfg.ServerName = rapid.StringMatching(`[a-zA-Z0-9_-]{1,20}(\.[a-zA-Z0-9_-]{1,20}){0,5}`).Draw(t, "name")
		} else {
			cfg.ServerName = rapid.SampledFrom(serverNames).Draw(t, "name")
		}
		if rapid.IntRange(0, 5).Draw(t, "dot") == 0 {
			cfg.ServerName += "." // the client strips a trailing dot
		}
		want = strings.TrimSuffix(cfg.ServerName, ".")
	}
	if n := rapid.IntRange(0, 4).Draw(t, "nalpn"); n > 0 {
		for i := 0; i < n; i++ {
			cfg.NextProtos = append(cfg.NextProtos, rapid.SampledFrom([]string{"h2", "http/1.1", "grpc-exp", "acme-tls/1", strings.Repeat("p", 200), "x"}).Draw(t, "alpn"))
		}
	}
	vers := []uint16{tls.VersionTLS10, tls.VersionTLS11, tls.VersionTLS12, tls.VersionTLS13}
	lo := rapid.IntRange(0, 3).Draw(t, "minver")
	hi := rapid.IntRange(lo, 3).Draw(t, "maxver")
	cfg.MinVersion, cfg.MaxVersion = vers[lo], vers[hi]
	if rapid.Bool().Draw(t, "suites") {
		n := rapid.IntRange(1, len(allSuites)).Draw(t, "nsuites")
		perm := rapid.Permutation(allSuites).Draw(t, "suiteperm")
		cfg.CipherSuites = perm[:n]
	}
	if rapid.Bool().Draw(t, "curves") {
		all := []tls.CurveID{tls.X25519, tls.CurveP256, tls.CurveP384, tls.CurveP521, tls.X25519MLKEM768}
		perm := rapid.Permutation(all).Draw(t, "curveperm")
		cfg.CurvePreferences = perm[:rapid.IntRange(1, len(perm)).Draw(t, "ncurves")]
	}
	cfg.SessionTicketsDisabled = rapid.Bool().Draw(t, "noticket")
	return cfg, want
}

// ---------------------------------------------------------------------------
// the checks every input goes through

// fabioSNI runs fabio's two functions the way SNIProxy.ServeTCP does.
func fabioSNI(stream []byte) (name string, ok bool, bufSize int, err error) {
	if len(stream) < 9 {
		_, err = tcp.VerifClientHelloBufferSize(stream)
		if err == nil {
			err = fmt.Errorf("VIOLATION: %d bytes accepted as a header", len(stream))
		}
		return "", false, 0, err
	}
	bufSize, err = tcp.VerifClientHelloBufferSize(stream[:9])
	if err != nil {
		return "", false, 0, err
	}
	if bufSize > len(stream) {
		return "", false, bufSize, io.ErrUnexpectedEOF
	}
	// an exact-capacity copy: a read past the end of the buffered bytes panics
	// instead of silently seeing what follows in the caller's slice
	exact := make([]byte, bufSize-5)
	copy(exact, stream[5:bufSize])
	name, ok = tcp.VerifReadServerName(exact)
	return name, ok, bufSize, nil
}

// nameInsideSNI: a non-empty extracted name must be the bytes of a host_name
// entry that lies, by its own length field, inside the name list of a
// server_name extension of the buffered hello.  A name that runs past the end
// of its extension was read out of bounds of the structure it belongs to.
func nameInsideSNI(buffered []byte, name string) (bool, string) {
	_, exts, ok := splitHello(buffered)
	if !ok {
		return false, "the extension block of the buffered hello is not well delimited"
	}
	why := "no server_name extension"
	for _, e := range exts {
		if e.typ != 0 {
			continue
		}
		if len(e.data) < 2 {
			why = "server_name extension shorter than its list length"
			continue
		}
		list := e.data[2:]
		why = "no host_name entry inside the server_name extension carries these bytes"
		for len(list) >= 3 {
			l := int(list[1])<<8 | int(list[2])
			if 3+l > len(list) {
				why = fmt.Sprintf("host_name entry declares %d bytes but only %d are left in its extension", l, len(list)-3)
				break
			}
			if list[0] == 0 && string(list[3:3+l]) == name {
				return true, ""
			}
			list = list[3+l:]
		}
	}
	return false, why
}

type failer interface {
	Fatalf(format string, args ...any)
}

// checkWellFormed: oracle (a)+(c) on a complete single-record hello.
func checkWellFormed(t failer, rec []byte, what string) (name string, accepted bool) {
	std, called := stdlibServerName(rec)
	var got string
	var ok bool
	var size int
	var err error
	func() {
		defer func() {
			if p := recover(); p != nil {
				t.Fatalf("fabio's ClientHello parser panicked: %v\n%s hello: %s", p, what, hex.EncodeToString(rec))
			}
		}()
		got, ok, size, err = fabioSNI(rec)
	}()
	recLen := int(rec[3])<<8 | int(rec[4])
	if err == nil && ok && got != "" {
		if inside, why := nameInsideSNI(rec[:size], got); !inside {
			t.Fatalf("fabio extracted %q from a %s ClientHello, but %s\n%s", got, what, why, hex.EncodeToString(rec))
		}
	}
	if err == nil {
		if size > 5+recLen {
			t.Fatalf("buffer size %d exceeds the first TLS record (%d bytes)\n%s", size, 5+recLen, hex.EncodeToString(rec[:9]))
		}
		hs := int(rec[6])<<16 | int(rec[7])<<8 | int(rec[8])
		if size < 9+hs {
			t.Fatalf("buffer size %d does not cover the ClientHello (9 + handshake length %d)", size, hs)
		}
	}
	if called {
		if err != nil || !ok {
			// crypto/tls is lenient about some limits of RFC 5246 (e.g. a session id
			// longer than 32 bytes); rejecting such a hello is not a disagreement
			// on a well-formed ClientHello
			if !strictlyWellFormed(rec) {
				return std, called
			}
			t.Fatalf("crypto/tls accepts this %s ClientHello (server name %q) but fabio rejects it (err=%v ok=%v)\n%s", what, std, err, ok, hex.EncodeToString(rec))
		}
		if got != std {
			t.Fatalf("server name mismatch on a %s ClientHello: fabio %q, crypto/tls %q\n%s", what, got, std, hex.EncodeToString(rec))
		}
	}
	return std, called
}

// strictlyWellFormed checks the structural limits RFC 5246 / 8446 put on a
// ClientHello: session id <= 32 bytes, an even, non-empty cipher suite list,
// at least one compression method and an extension block that is consumed
// exactly by well-delimited extensions.
func strictlyWellFormed(rec []byte) bool {
	if len(rec) < 9+2+32+1 {
		return false
	}
	p := rec[9:]
	i := 2 + 32
	sl := int(p[i])
	if sl > 32 {
		return false
	}
	i += 1 + sl
	if i+2 > len(p) {
		return false
	}
	cl := int(p[i])<<8 | int(p[i+1])
	if cl < 2 || cl%2 != 0 {
		return false
	}
	i += 2 + cl
	if i+1 > len(p) {
		return false
	}
	ml := int(p[i])
	if ml < 1 {
		return false
	}
	i += 1 + ml
	if i > len(p) {
		return false
	}
	if i == len(p) {
		return true
	}
	_, _, ok := splitHello(rec)
	return ok
}

// truncations: every proper prefix of the record is rejected or parsed, never a crash.
func sweepTruncations(t failer, rec []byte) int {
	n := 0
	for cut := 0; cut < len(rec); cut++ {
		pre := rec[:cut:cut]
		func() {
			defer func() {
				if p := recover(); p != nil {
					t.Fatalf("parser panicked on a hello truncated to %d of %d bytes: %v\n%s", cut, len(rec), p, hex.EncodeToString(pre))
				}
			}()
			if cut >= 5 {
				// what the proxy would hand to readServerName if it did not
				// insist on the full length first
				tcp.VerifReadServerName(pre[5:])
			}
			_, ok, size, err := fabioSNI(pre)
			if err == nil && ok && size > len(pre) {
				t.Fatalf("parsed beyond the available data")
			}
		}()
		n++
	}
	return n
}

func TestC10StdlibHellos(t *testing.T) {
	hx.Check(t, hx.Scale(8000, 50000), func(t *rapid.T) {
		cfg, want := genClientConfig(t)
		var rec []byte
		var err error
		kind := "fresh"
		if rapid.IntRange(0, 9).Draw(t, "resume") == 0 && want != "" {
			kind = "resumption"
			rec, err = resumptionHello(cfg)
			if err != nil {
				// e.g. no common cipher suite with the in-process server: fall back
				kind = "fresh"
				rec, err = captureHello(cfg)
			}
		} else {
			rec, err = captureHello(cfg)
		}
		if err != nil {
			t.Skip("client produced no hello: " + err.Error())
		}
		hx.Eval()
		std, called := checkWellFormed(t, rec, "crypto/tls "+kind)
		if !called {
			t.Fatalf("harness: crypto/tls server did not accept a crypto/tls client hello")
		}
		if std != want {
			t.Fatalf("harness: crypto/tls server saw %q, client was configured with %q", std, want)
		}
		hx.EvalN(sweepTruncations(t, rec))
		exts := countExtensions(rec)
		hx.Class("hello:" + kind)
		if len(rec) > 1000 {
			hx.Class("hello:>1000bytes(pq-keyshare)")
		}
		if exts >= 3 {
			hx.NonTrivial(hex.EncodeToString(rec[9+2+32:])) // without the random
			hx.Class("nontrivial")
		}
		if hx.WantSample("stdlib") {
			hx.Sample("stdlib", map[string]any{"server_name": want, "bytes": len(rec), "extensions": exts, "kind": kind, "hex_prefix": hex.EncodeToString(rec[:48])})
		}
	})
}

func countExtensions(rec []byte) int {
	_, exts, ok := splitHello(rec)
	if !ok {
		return -1
	}
	return len(exts)
}

// ---------------------------------------------------------------------------
// harness builder: hellos crypto/tls would not emit

type ext struct {
	typ  uint16
	data []byte
}

// splitHello cuts a hello record into the fixed part (up to and including the
// compression methods) and its extension list.
func splitHello(rec []byte) (fixed []byte, exts []ext, ok bool) {
	if len(rec) < 9+34+1 {
		return nil, nil, false
	}
	p := rec[9:] // client version
	i := 2 + 32
	if i >= len(p) {
		return nil, nil, false
	}
	i += 1 + int(p[i])
	if i+2 > len(p) {
		return nil, nil, false
	}
	i += 2 + (int(p[i])<<8 | int(p[i+1]))
	if i+1 > len(p) {
		return nil, nil, false
	}
	i += 1 + int(p[i])
	if i > len(p) {
		return nil, nil, false
	}
	fixed = p[:i]
	if i == len(p) {
		return fixed, nil, true
	}
	if i+2 > len(p) {
		return nil, nil, false
	}
	e := p[i+2:]
	for len(e) >= 4 {
		typ := binary.BigEndian.Uint16(e)
		l := int(binary.BigEndian.Uint16(e[2:]))
		if 4+l > len(e) {
			return nil, nil, false
		}
		exts = append(exts, ext{typ, e[4 : 4+l]})
		e = e[4+l:]
	}
	return fixed, exts, len(e) == 0
}

func buildRecord(fixed []byte, exts []ext, noExtBlock bool, extraRecordBytes int) []byte {
	var body bytes.Buffer
	body.Write(fixed)
	if !noExtBlock {
		var eb bytes.Buffer
		for _, e := range exts {
			var h [4]byte
			binary.BigEndian.PutUint16(h[:], e.typ)
			binary.BigEndian.PutUint16(h[2:], uint16(len(e.data)))
			eb.Write(h[:])
			eb.Write(e.data)
		}
		var l [2]byte
		binary.BigEndian.PutUint16(l[:], uint16(eb.Len()))
		body.Write(l[:])
		body.Write(eb.Bytes())
	}
	hs := body.Len()
	rec := []byte{0x16, 0x03, 0x01, 0, 0, 0x01, byte(hs >> 16), byte(hs >> 8), byte(hs)}
	rl := hs + 4 + extraRecordBytes
	rec[3], rec[4] = byte(rl>>8), byte(rl)
	rec = append(rec, body.Bytes()...)
	rec = append(rec, make([]byte, extraRecordBytes)...)
	return rec
}

type sniEntry struct {
	typ  byte
	name []byte
}

func sniPayload(entries []sniEntry) []byte {
	var b bytes.Buffer
	for _, e := range entries {
		b.WriteByte(e.typ)
		b.Write([]byte{byte(len(e.name) >> 8), byte(len(e.name))})
		b.Write(e.name)
	}
	out := []byte{byte(b.Len() >> 8), byte(b.Len())}
	return append(out, b.Bytes()...)
}

var (
	baseOnce sync.Once
	bases    [][]byte
)

// baseHellos are crypto/tls hellos whose well-formed extensions the builder
// rearranges.
func baseHellos() [][]byte {
	baseOnce.Do(func() {
		for _, c := range []*tls.Config{
			{ServerName: "base.example", InsecureSkipVerify: true},
			{ServerName: "base.example", InsecureSkipVerify: true, MaxVersion: tls.VersionTLS12, NextProtos: []string{"h2", "http/1.1"}},
			{ServerName: "base.example", InsecureSkipVerify: true, CurvePreferences: []tls.CurveID{tls.X25519}, MinVersion: tls.VersionTLS13},
		} {
			b, err := captureHello(c)
			if err != nil {
				panic(err)
			}
			bases = append(bases, b)
		}
	})
	return bases
}

func TestC10BuiltHellos(t *testing.T) {
	hx.Check(t, hx.Scale(20000, 200000), func(t *rapid.T) {
		base := rapid.SampledFrom(baseHellos()).Draw(t, "base")
		fixed, exts, ok := splitHello(base)
		if !ok {
			t.Fatalf("harness cannot split its own base hello")
		}
		// drop the base SNI; keep the other (well-formed) extensions
		var others []ext
		for _, e := range exts {
			if e.typ != 0 {
				others = append(others, e)
			}
		}
		keep := rapid.IntRange(0, len(others)).Draw(t, "keep")
		others = rapid.Permutation(others).Draw(t, "perm")[:keep]
		// a pre_shared_key extension must stay last for crypto/tls; base hellos carry none
		for i, n := 0, rapid.IntRange(0, 4).Draw(t, "nextra"); i < n; i++ {
			switch rapid.IntRange(0, 3).Draw(t, "extrakind") {
			case 0: // GREASE
				g := uint16(rapid.IntRange(0, 15).Draw(t, "grease"))
				others = append(others, ext{g<<12 | 0x0a0a&0x0fff | g<<4, rapid.SliceOfN(rapid.Byte(), 0, 8).Draw(t, "greasedata")})
			case 1: // unknown type
				others = append(others, ext{uint16(rapid.IntRange(0x7000, 0x7fff).Draw(t, "unk")), rapid.SliceOfN(rapid.Byte(), 0, 64).Draw(t, "unkdata")})
			case 2: // padding
				others = append(others, ext{21, make([]byte, rapid.SampledFrom([]int{0, 1, 100, 512, 4000}).Draw(t, "pad"))})
			default:
				others = append(others, ext{uint16(rapid.IntRange(0x1000, 0x10ff).Draw(t, "unk2")), nil})
			}
		}
		// the SNI list
		var entries []sniEntry
		wellFormed := true
		want := ""
		mode := rapid.IntRange(0, 9).Draw(t, "snimode")
		genName := func() []byte {
			if rapid.IntRange(0, 3).Draw(t, "binname") == 0 {
				b := rapid.SliceOfN(rapid.Byte(), 1, 255).Draw(t, "rawname")
				if b[len(b)-1] == '.' {
					b[len(b)-1] = 'x'
				}
				return b
			}
			return []byte(rapid.SampledFrom(serverNames).Draw(t, "name"))
		}
		switch {
		case mode == 0: // no SNI at all
		case mode <= 5: // exactly one host_name
			n := genName()
			entries = []sniEntry{{0, n}}
			want = string(n)
		case mode == 6: // other name types first
			for i, k := 0, rapid.IntRange(1, 3).Draw(t, "nother"); i < k; i++ {
				entries = append(entries, sniEntry{byte(rapid.IntRange(1, 255).Draw(t, "ntype")), rapid.SliceOfN(rapid.Byte(), 0, 20).Draw(t, "oname")})
			}
			n := genName()
			entries = append(entries, sniEntry{0, n})
			want = string(n)
		case mode == 7: // host_name first, other types after it
			n := genName()
			entries = []sniEntry{{0, n}, {byte(rapid.IntRange(1, 255).Draw(t, "ntype")), rapid.SliceOfN(rapid.Byte(), 0, 20).Draw(t, "oname")}}
			want = string(n)
		case mode == 8: // several host_names: not well-formed (RFC 6066), anything but a crash
			entries = []sniEntry{{0, genName()}, {0, genName()}}
			wellFormed = false
		default: // only foreign name types: no host name
			entries = []sniEntry{{byte(rapid.IntRange(1, 255).Draw(t, "ntype")), rapid.SliceOfN(rapid.Byte(), 0, 20).Draw(t, "oname")}}
		}
		if entries != nil {
			pos := rapid.IntRange(0, len(others)).Draw(t, "snipos")
			others = append(others[:pos:pos], append([]ext{{0, sniPayload(entries)}}, others[pos:]...)...)
		}
		noExt := len(others) == 0 && rapid.Bool().Draw(t, "noextblock")
		extra := 0
		if rapid.IntRange(0, 9).Draw(t, "slack") == 0 {
			extra = rapid.IntRange(1, 50).Draw(t, "extra") // record longer than the handshake message
		}
		rec := buildRecord(fixed, others, noExt, extra)
		if len(rec)-5 > 16384 {
			t.Skip("too large")
		}
		hx.Eval()
		// (a) differential with crypto/tls (it only sees the handshake message
		// when the record has no slack: slack would be a second message)
		var std string
		var called bool
		if extra == 0 {
			std, called = checkWellFormed(t, rec, "built")
		}
		// (b) what the builder put in
		name, ok, size, err := fabioSNI(rec)
		if wellFormed {
			if err != nil || !ok {
				t.Fatalf("well-formed built ClientHello rejected (err=%v ok=%v); SNI entries %v\n%s", err, ok, entries, hex.EncodeToString(rec))
			}
			if name != want {
				t.Fatalf("built ClientHello: fabio extracted %q, the hello carries %q\n%s", name, want, hex.EncodeToString(rec))
			}
			if called && std != want {
				t.Fatalf("harness: crypto/tls saw %q, builder put %q", std, want)
			}
		}
		if err == nil && size > 5+len(rec)-5 {
			t.Fatalf("buffer size %d exceeds record", size)
		}
		hx.EvalN(sweepTruncations(t, rec))
		switch {
		case !wellFormed:
			hx.Class("built:two-host-names")
		case called:
			hx.Class("built:accepted-by-crypto/tls")
		default:
			hx.Class("built:not-judged-by-crypto/tls")
		}
		if len(others) >= 3 && wellFormed {
			hx.NonTrivial(hex.EncodeToString(rec[9+34:]))
			hx.Class("nontrivial")
		}
		if hx.WantSample("built") && len(rec) < 400 {
			hx.Sample("built", map[string]any{"want": want, "extensions": len(others), "hex": hex.EncodeToString(rec)})
		}
	})
}

// The same extraction through the code path a connection takes: the bytes are
// handed to tcp.SNIProxy.ServeTCP on a stub connection and the name passed to
// Lookup is compared with what crypto/tls sees. Hellos larger than 4 KiB (one
// record) exercise the proxy's own buffering.
type lookupRecorder struct {
	names []string
}

func sniThroughProxy(stream []byte) (names []string) {
	rec := &lookupRecorder{}
	p := &tcp.SNIProxy{Lookup: func(host string) *route.Target {
		rec.names = append(rec.names, host)
		return nil // no route: the handler returns without dialling
	}}
	p.ServeTCP(&feedConn{r: bytes.NewReader(stream)})
	return rec.names
}

func TestC10ThroughSNIProxy(t *testing.T) {
	hx.Check(t, hx.Scale(10000, 100000), func(t *rapid.T) {
		base := rapid.SampledFrom(baseHellos()).Draw(t, "base")
		fixed, exts, ok := splitHello(base)
		if !ok {
			t.Fatalf("harness cannot split its own base hello")
		}
		var others []ext
		for _, e := range exts {
			if e.typ != 0 {
				others = append(others, e)
			}
		}
		name := rapid.SampledFrom(serverNames).Draw(t, "name")
		withSNI := rapid.IntRange(0, 9).Draw(t, "withsni") > 0
		// padding / unknown extensions push the hello over the 4 KiB a default bufio.Reader holds
		for i, n := 0, rapid.IntRange(0, 3).Draw(t, "nbig"); i < n; i++ {
			sz := rapid.SampledFrom([]int{0, 100, 1500, 3000, 4000, 4096, 5000, 9000}).Draw(t, "bigsize")
			typ := uint16(21)
			if i > 0 {
				typ = uint16(0x7100 + i)
			}
			others = append(others, ext{typ, make([]byte, sz)})
		}
		if withSNI {
			pos := rapid.IntRange(0, len(others)).Draw(t, "snipos")
			others = append(others[:pos:pos], append([]ext{{0, sniPayload([]sniEntry{{0, []byte(name)}})}}, others[pos:]...)...)
		}
		rec := buildRecord(fixed, others, false, 0)
		if len(rec)-5 > 16384 {
			t.Skip("does not fit one record")
		}
		// the version in the record header of a hello is 3.1 with most stacks, 3.3 or 3.2 with some
		// (crypto/tls takes any of them)
		if v := rapid.SampledFrom([]byte{1, 1, 3, 2, 3, 0, 4}).Draw(t, "record-version-minor"); v != 1 {
			rec[2] = v
			hx.Class(fmt.Sprintf("through-proxy:record-version-3.%d", v))
		}
		// application data may follow in the same segment
		stream := append(append([]byte{}, rec...), rapid.SliceOfN(rapid.Byte(), 0, 64).Draw(t, "trailing")...)
		if rapid.IntRange(0, 15).Draw(t, "tiny-record") == 0 {
			// a complete record whose lengths are consistent but tiny (a handshake message of 0-8
			// bytes): rejected, never a crash
			n := rapid.IntRange(0, 8).Draw(t, "handshake-bytes")
			tiny := []byte{0x16, 0x03, 0x01, 0, byte(4 + n), 0x01, 0, 0, byte(n)}
			tiny = append(tiny, rapid.SliceOfN(rapid.Byte(), n, n).Draw(t, "body")...)
			var got []string
			func() {
				defer func() {
					if p := recover(); p != nil {
						t.Fatalf("SNIProxy.ServeTCP panicked on a complete record with a handshake message of %d bytes (%d bytes in all): %v", n, len(tiny), p)
					}
				}()
				got = sniThroughProxy(tiny)
			}()
			hx.Eval()
			if len(got) != 0 {
				t.Fatalf("proxy looked up %q for a hello of %d bytes", got, len(tiny))
			}
			hx.Class("through-proxy:tiny-consistent-record")
			return
		}
		if rapid.IntRange(0, 7).Draw(t, "peer-goes-away-early") == 0 {
			// the peer disconnects after a part of its hello (from nothing at all to all but the last
			// byte): the connection is dropped, nothing is routed, nothing is read out of bounds
			cut := rapid.IntRange(0, len(rec)-1).Draw(t, "cut")
			if rapid.Bool().Draw(t, "cut-in-the-first-bytes") {
				cut = rapid.IntRange(0, 12).Draw(t, "cut-early")
			}
			var got []string
			func() {
				defer func() {
					if p := recover(); p != nil {
						t.Fatalf("SNIProxy.ServeTCP panicked when the peer went away after %d of %d bytes of its hello: %v", cut, len(rec), p)
					}
				}()
				got = sniThroughProxy(rec[:cut])
			}()
			hx.Eval()
			if len(got) != 0 {
				t.Fatalf("proxy looked up %q for a hello of which only %d of %d bytes arrived", got, cut, len(rec))
			}
			hx.Class("through-proxy:peer-goes-away-mid-hello")
			if cut < 9 {
				hx.Class("through-proxy:peer-goes-away-in-the-first-9-bytes")
			}
			return
		}
		std, called := stdlibServerName(rec)
		var got []string
		func() {
			defer func() {
				if p := recover(); p != nil {
					t.Fatalf("SNIProxy.ServeTCP panicked: %v", p)
				}
			}()
			got = sniThroughProxy(stream)
		}()
		hx.Eval()
		want := ""
		if withSNI {
			want = name
		}
		if called && std != want {
			t.Fatalf("harness: crypto/tls saw %q, builder put %q", std, want)
		}
		ctx := fmt.Sprintf("hello of %d bytes, %d extensions, server name %q", len(rec), len(others), want)
		if want == "" {
			if len(got) != 0 {
				t.Fatalf("proxy looked up %q for a hello without server name\n%s", got, ctx)
			}
		} else if len(got) != 1 || got[0] != want {
			t.Fatalf("proxy routed on %q, crypto/tls sees server name %q\n%s", got, want, ctx)
		}
		// ... and the name is what the routing table is asked with (main.go: LookupHost with the
		// configured picker): host names are matched whatever their letter case
		if want != "" {
			tg := sniTable().LookupHost(got[0], route.Picker["rr"])
			wantDst := sniRouteFor[strings.ToLower(want)]
			if tg == nil || tg.URL.Host != wantDst {
				t.Fatalf("server name %q (route %s/ -> %s exists): the routing table answers %v\n%s", want, strings.ToLower(want), wantDst, tg, ctx)
			}
			if want != strings.ToLower(want) {
				hx.Class("through-proxy:mixed-case-name-routed")
			}
		}
		if len(rec) > 4096 {
			hx.Class("through-proxy:hello>4KiB")
			hx.NonTrivial("big|" + ctx)
		} else {
			hx.Class("through-proxy:hello<=4KiB")
		}
		if withSNI && len(others) >= 3 {
			hx.NonTrivial("proxy|" + ctx + name)
		}
	})
}

// corruptions of well-formed hellos: byte flips and length-field edits inside
// the handshake body (the headers stay consistent because the size does not
// change). Whenever crypto/tls still accepts the bytes fabio must agree.
func TestC10Corruptions(t *testing.T) {
	hx.Check(t, hx.Scale(80000, 1000000), func(t *rapid.T) {
		base := rapid.SampledFrom(baseHellos()).Draw(t, "base")
		rec := append([]byte(nil), base...)
		n := rapid.IntRange(1, 4).Draw(t, "nmut")
		for i := 0; i < n; i++ {
			pos := rapid.IntRange(9, len(rec)-1).Draw(t, "pos")
			if rapid.Bool().Draw(t, "nearstart") {
				pos = rapid.IntRange(9, min(len(rec)-1, 9+140)).Draw(t, "pos2")
			}
			switch rapid.IntRange(0, 2).Draw(t, "mutkind") {
			case 0:
				rec[pos] ^= 1 << uint(rapid.IntRange(0, 7).Draw(t, "bit"))
			case 1:
				rec[pos] = rapid.SampledFrom([]byte{0, 1, 0xff, 0x7f, 0x80, 2, 32, 33}).Draw(t, "val")
			default:
				rec[pos] = rapid.Byte().Draw(t, "byte")
			}
		}
		hx.Eval()
		_, called := checkWellFormed(t, rec, "corrupted")
		if called {
			hx.Class("corrupted:still-accepted-by-crypto/tls")
		} else {
			hx.Class("corrupted:rejected-by-crypto/tls")
		}
		hx.NonTrivial(hex.EncodeToString(rec[9+34:]))
	})
}

// Length-field edits: one of the nested length fields around the server name
// (record, handshake, extension block, extension, name list, name) is moved by
// a few bytes, optionally with a second field moved the same way.
func TestC10LengthEdits(t *testing.T) {
	hx.Check(t, hx.Scale(20000, 300000), func(t *rapid.T) {
		base := rapid.SampledFrom(baseHellos()).Draw(t, "base")
		fixed, exts, ok := splitHello(base)
		if !ok {
			t.Fatalf("harness cannot split its own base hello")
		}
		var others []ext
		for _, e := range exts {
			if e.typ != 0 {
				others = append(others, e)
			}
		}
		others = others[:rapid.IntRange(0, len(others)).Draw(t, "keep")]
		name := []byte(rapid.SampledFrom(serverNames).Draw(t, "name"))
		if len(name) == 0 {
			name = []byte("x.example")
		}
		pos := rapid.SampledFrom([]int{len(others), len(others), 0, len(others) / 2}).Draw(t, "snipos") // last twice: nothing behind the name
		all := append(others[:pos:pos], append([]ext{{0, sniPayload([]sniEntry{{0, name}})}}, others[pos:]...)...)
		rec := buildRecord(fixed, all, false, 0)
		// offsets of the length fields
		off := 9 + len(fixed) // extension block length
		blockLen := off
		p := off + 2
		for i := 0; i < pos; i++ {
			p += 4 + len(all[i].data)
		}
		extLen, listLen, nameLen := p+2, p+4, p+7
		fields := map[string]int{"record": 3, "handshake": 7, "extension-block": blockLen, "sni-extension": extLen, "name-list": listLen, "name": nameLen}
		names := []string{"name", "name-list", "sni-extension", "extension-block", "handshake", "record"}
		edit := func(label string) string {
			f := rapid.SampledFrom(names).Draw(t, label)
			d := rapid.SampledFrom([]int{1, 2, 3, -1, -2, -3, 4, 255, -4}).Draw(t, label+"delta")
			at := fields[f]
			v := int(rec[at])<<8 | int(rec[at+1])
			v += d
			if v < 0 {
				v = 0
			}
			rec[at], rec[at+1] = byte(v>>8), byte(v)
			return fmt.Sprintf("%s%+d", f, d)
		}
		what := edit("field")
		if rapid.IntRange(0, 2).Draw(t, "second") == 0 {
			what += "," + edit("field2")
		}
		hx.Eval()
		_, called := checkWellFormed(t, rec, "length-edited ("+what+")")
		hx.EvalN(sweepTruncations(t, rec))
		if called {
			hx.Class("length-edit:still-accepted-by-crypto/tls")
		} else {
			hx.Class("length-edit:rejected-by-crypto/tls")
		}
		if pos == len(others) {
			hx.Class("length-edit:server-name-is-the-last-extension")
		}
		hx.Class("length-edit:" + strings.SplitN(what, ",", 2)[0])
		hx.NonTrivial(what + hex.EncodeToString(rec[9+34:]))
		if hx.WantSample("length-edit") && len(rec) < 300 {
			hx.Sample("length-edit", map[string]any{"edit": what, "hex": hex.EncodeToString(rec)})
		}
	})
}

// clientHelloBufferSize on arbitrary headers.
func TestC10BufferSize(t *testing.T) {
	hx.Check(t, hx.Scale(50000, 2000000), func(t *rapid.T) {
		var h []byte
		if rapid.Bool().Draw(t, "structured") {
			rl := rapid.SampledFrom([]int{0, 1, 3, 4, 5, 100, 16383, 16384, 16385, 65535}).Draw(t, "rl")
			if rapid.Bool().Draw(t, "rndrl") {
				rl = rapid.IntRange(0, 65535).Draw(t, "rl2")
			}
			hl := rl - 4 + rapid.IntRange(-3, 3).Draw(t, "hdelta")
			if rapid.IntRange(0, 3).Draw(t, "rndhl") == 0 {
				hl = rapid.IntRange(0, 1<<24-1).Draw(t, "hl2")
			}
			if hl < 0 {
				hl = 0
			}
			h = []byte{rapid.SampledFrom([]byte{0x16, 0x16, 0x16, 0x15, 0x17, 0}).Draw(t, "rt"), 3, rapid.SampledFrom([]byte{0, 1, 3, 4}).Draw(t, "minor"),
				byte(rl >> 8), byte(rl), rapid.SampledFrom([]byte{1, 1, 1, 2, 0}).Draw(t, "ht"), byte(hl >> 16), byte(hl >> 8), byte(hl)}
			h = h[:rapid.SampledFrom([]int{9, 9, 9, 9, 8, 5, 0}).Draw(t, "len")]
		} else {
			h = rapid.SliceOfN(rapid.Byte(), 0, 12).Draw(t, "raw")
		}
		hx.Eval()
		var size int
		var err error
		func() {
			defer func() {
				if p := recover(); p != nil {
					t.Fatalf("clientHelloBufferSize panicked on %x: %v", h, p)
				}
			}()
			size, err = tcp.VerifClientHelloBufferSize(h)
		}()
		if len(h) < 9 {
			if err == nil {
				t.Fatalf("%d header bytes accepted", len(h))
			}
			return
		}
		rl := int(h[3])<<8 | int(h[4])
		hl := int(h[6])<<16 | int(h[7])<<8 | int(h[8])
		valid := h[0] == 0x16 && h[5] == 1 && rl > 0 && rl <= 16384 && hl > 0 && hl+4 <= rl
		if err == nil {
			if size > 5+rl {
				t.Fatalf("header %x: buffer size %d exceeds the first record (%d)", h, size, 5+rl)
			}
			if valid && size < 9+hl {
				t.Fatalf("header %x: buffer size %d does not cover the ClientHello (%d)", h, size, 9+hl)
			}
			if h[0] != 0x16 || h[5] != 1 {
				t.Fatalf("header %x accepted although it is not a ClientHello", h)
			}
			hx.Class("header:accepted")
			hx.NonTrivial(hex.EncodeToString(h))
		} else {
			if valid {
				t.Fatalf("valid single-record ClientHello header %x rejected: %v", h, err)
			}
			hx.Class("header:rejected")
		}
	})
}

// FuzzC10 (thorough tier): raw bytes, same oracles.
func FuzzC10ReadServerName(f *testing.F) {
	for _, b := range baseHellos() {
		f.Add(b)
	}
	f.Add([]byte{0x16, 3, 1, 0, 5, 1, 0, 0, 1, 0})
	f.Fuzz(func(t *testing.T, data []byte) {
		if len(data) > 20000 {
			return
		}
		func() {
			defer func() {
				if p := recover(); p != nil {
					t.Fatalf("panic on %x: %v", data, p)
				}
			}()
			tcp.VerifReadServerName(data)
			if len(data) > 5 {
				tcp.VerifReadServerName(data[5:])
			}
		}()
		if len(data) >= 9 {
			// make it a self-consistent single record and compare with crypto/tls
			rec := append([]byte(nil), data...)
			hs := len(rec) - 9
			if hs > 0 && hs+4 <= 16384 {
				rec[0], rec[5] = 0x16, 1
				rec[3], rec[4] = byte((hs+4)>>8), byte(hs+4)
				rec[6], rec[7], rec[8] = byte(hs>>16), byte(hs>>8), byte(hs)
				checkWellFormed(t, rec, "fuzzed")
			}
		}
		hx.Eval()
	})
}
