package c17

import (
	"bufio"
	"bytes"
	stdgzip "compress/gzip"
	"fmt"
	"io"
	"math/rand"
	"net"
	"net/http"
	"net/http/httptest"
	"net/url"
	"regexp"
	"strconv"
	"strings"
	"sync"
	"sync/atomic"
	"testing"
	"time"

	"github.com/fabiolb/fabio/config"
	"github.com/fabiolb/fabio/proxy"
	"github.com/fabiolb/fabio/proxy/gzip"
	"github.com/fabiolb/fabio/route"
	"github.com/fabiolb/fabio/transport"
	"pgregory.net/rapid"

	"verifharness/hx"
	mwire "verifharness/wire"
)

func TestMain(m *testing.M) { mwire.Init(true); hx.Main(m) }

var ctRe = regexp.MustCompile(`^(text/.*|application/(javascript|json|font-woff|xml)|.*\+(json|xml))(;.*)?$`)

// ---------------------------------------------------------------------------
// generated responses

type respSpec struct {
	status      int
	explicit    bool // WriteHeader called explicitly before the first write
	contentType string
	encoding    string // pre-set Content-Encoding
	setLength   bool   // inner handler sets Content-Length
	chunks      [][]byte
	extraHdr    map[string]string
	early       []int // informational responses (103, 102) sent before the final status
	flushFirst  bool  // the handler flushes before it has written anything
	flushAt     int   // ... and before chunk number flushAt (-1 = never)
	// through a proxy: the upstream committed its headers (flush) before it wrote anything and named
	// no type, so none travels with the response; whether a later hop sniffs one is not the gzip handler's doing
	typeUnknown bool
	// the upstream dies after it has sent (and flushed) its chunks: the body is never terminated
	abort bool
}

func (s respSpec) body() []byte { return bytes.Join(s.chunks, nil) }

func genBody(t *rapid.T) []byte {
	kind := rapid.IntRange(0, 4).Draw(t, "bodykind")
	size := 0
	switch rapid.IntRange(0, 5).Draw(t, "sizeclass") {
	case 0:
		size = 0
	case 1:
		size = rapid.IntRange(1, 64).Draw(t, "small")
	case 2, 3:
		size = rapid.IntRange(65, 8192).Draw(t, "medium")
	case 4:
		size = rapid.IntRange(8193, 200000).Draw(t, "large")
	default:
		size = rapid.SampledFrom([]int{511, 512, 513, 4095, 4096, 4097, 32767, 32768, 32769, 65536, 1 << 20}).Draw(t, "edge")
	}
	seed := rapid.Int64().Draw(t, "bodyseed")
	rng := rand.New(rand.NewSource(seed)) // expands a drawn seed deterministically; no other randomness
	b := make([]byte, size)
	switch kind {
	case 0, 1: // compressible text
		words := []string{"lorem ", "ipsum ", "dolor ", "sit ", "amet ", "{\"k\":1} ", "<p>x</p>\n", "ü "}
		var buf bytes.Buffer
		for buf.Len() < size {
			buf.WriteString(words[rng.Intn(len(words))])
		}
		copy(b, buf.Bytes())
	case 2: // random bytes
		rng.Read(b)
	case 3: // already gzipped bytes
		var buf bytes.Buffer
		zw := stdgzip.NewWriter(&buf)
		raw := make([]byte, size)
		rng.Read(raw)
		zw.Write(raw)
		zw.Close()
		b = buf.Bytes()
	default: // single repeated byte
		for i := range b {
			b[i] = 'a'
		}
	}
	return b
}

func split(t *rapid.T, b []byte) [][]byte {
	n := rapid.IntRange(0, 8).Draw(t, "nchunks")
	if len(b) == 0 {
		if n == 0 {
			return nil
		}
		return [][]byte{{}} // one empty write
	}
	if n <= 1 {
		return [][]byte{b}
	}
	cuts := map[int]bool{}
	for i := 0; i < n-1; i++ {
		cuts[rapid.IntRange(0, len(b)).Draw(t, "cut")] = true
	}
	var out [][]byte
	last := 0
	for i := 0; i <= len(b); i++ {
		if cuts[i] {
			out = append(out, b[last:i])
			last = i
		}
	}
	out = append(out, b[last:])
	return out
}

func genResp(t *rapid.T) respSpec {
	s := respSpec{
		status: rapid.SampledFrom([]int{200, 200, 200, 201, 202, 203, 206, 301, 400, 404, 418, 500, 503, 599, 600, 799, 999}).Draw(t, "status"),
	}
	if rapid.IntRange(0, 9).Draw(t, "bodiless") == 0 {
		s.status = rapid.SampledFrom([]int{204, 304}).Draw(t, "bodiless_status")
	}
	s.explicit = s.status != 200 || rapid.Bool().Draw(t, "explicit")
	s.contentType = rapid.SampledFrom([]string{"text/html", "text/plain; charset=utf-8", "application/json", "application/javascript", "application/vnd.api+json", "image/svg+xml",
		"image/png", "application/octet-stream", "application/gzip", "", "TEXT/HTML", "text/event-stream", "application/xml;q=1"}).Draw(t, "ctype")
	s.encoding = rapid.SampledFrom([]string{"", "", "", "gzip", "br", "identity", "deflate"}).Draw(t, "encoding")
	s.chunks = split(t, genBody(t))
	if s.status == 204 || s.status == 304 {
		s.chunks = nil
	}
	s.setLength = rapid.IntRange(0, 2).Draw(t, "setlen") == 0
	s.extraHdr = map[string]string{"X-Inner": "yes"}
	if rapid.Bool().Draw(t, "etag") {
		s.extraHdr["Etag"] = `"abc"`
	}
	if rapid.IntRange(0, 2).Draw(t, "vary") == 0 {
		s.extraHdr["Vary"] = rapid.SampledFrom([]string{"Origin", "Accept-Language, Cookie", "origin"}).Draw(t, "varyvalue")
	}
	if rapid.IntRange(0, 3).Draw(t, "cachecontrol") == 0 {
		s.extraHdr["Cache-Control"] = "max-age=60, must-revalidate"
	}
	if rapid.IntRange(0, 3).Draw(t, "acceptranges") == 0 {
		s.extraHdr["Accept-Ranges"] = "bytes"
	}
	if rapid.IntRange(0, 5).Draw(t, "informational") == 0 {
		s.early = rapid.SampledFrom([][]int{{103}, {103, 103}, {102}}).Draw(t, "early")
	}
	s.flushFirst = rapid.IntRange(0, 5).Draw(t, "flushfirst") == 0
	s.flushAt = -1
	if len(s.chunks) > 0 && rapid.IntRange(0, 3).Draw(t, "flushmid") == 0 {
		s.flushAt = rapid.IntRange(0, len(s.chunks)-1).Draw(t, "flushat")
	}
	return s
}

func innerHandler(s respSpec) http.Handler {
	return http.HandlerFunc(func(w http.ResponseWriter, r *http.Request) {
		if s.contentType != "" {
			w.Header().Set("Content-Type", s.contentType)
		}
		if s.encoding != "" {
			w.Header().Set("Content-Encoding", s.encoding)
		}
		if s.setLength {
			w.Header().Set("Content-Length", strconv.Itoa(len(s.body())))
		}
		for k, v := range s.extraHdr {
			w.Header().Set(k, v)
		}
		flush := func() {
			if f, ok := w.(http.Flusher); ok {
				f.Flush()
			}
		}
		for _, code := range s.early {
			w.Header().Set("Link", "</style.css>; rel=preload")
			w.WriteHeader(code)
		}
		if len(s.early) > 0 {
			w.Header().Del("Link")
		}
		if s.flushFirst && s.status == 200 && !s.explicit {
			flush() // commits an implicit 200
		}
		if s.explicit {
			w.WriteHeader(s.status)
		}
		for i, c := range s.chunks {
			if i == s.flushAt {
				flush()
			}
			w.Write(c)
		}
		if s.abort {
			flush()
			panic(http.ErrAbortHandler)
		}
	})
}

type reqSpec struct {
	method         string
	acceptEncoding string // "-" = absent
	accept         string
}

func genReq(t *rapid.T) reqSpec {
	return reqSpec{
		method:         rapid.SampledFrom([]string{"GET", "GET", "GET", "POST", "HEAD"}).Draw(t, "method"),
		acceptEncoding: rapid.SampledFrom([]string{"gzip", "gzip", "gzip, deflate", "gzip, deflate, br", "-", "deflate", "br", "identity", "", "identity;q=1, *;q=0", "*;q=0", "br, *;q=0", "zstd", "compress, identity"}).Draw(t, "ae"),
		accept:         rapid.SampledFrom([]string{"", "*/*", "text/html", "text/event-stream", "application/json, text/event-stream"}).Draw(t, "accept"),
	}
}

func clientAcceptsGzip(r reqSpec) bool {
	return r.acceptEncoding != "-" && strings.Contains(r.acceptEncoding, "gzip")
}

func gunzip(b []byte) ([]byte, error) {
	zr, err := stdgzip.NewReader(bytes.NewReader(b))
	if err != nil {
		return nil, err
	}
	out, err := io.ReadAll(zr)
	if err != nil {
		return nil, err
	}
	return out, zr.Close()
}

// wire is what the client saw.
type wire struct {
	status int
	header http.Header
	body   []byte
}

// judge applies the oracle. bodyVisible is false when the protocol forbids a
// body (HEAD, 204, 304) and the observation point is behind a real server.
func judge(fatalf func(string, ...any), s respSpec, r reqSpec, w wire, plain wire, bodyVisible bool, ctx string) (compressed bool) {
	if w.status != s.status {
		fatalf("status %d, inner handler sent %d\n%s", w.status, s.status, ctx)
	}
	compressed = w.header.Get("Content-Encoding") == "gzip" && s.encoding != "gzip"
	// compressed or not: what the inner handler said about caching stays (the gzip handler may add
	// Accept-Encoding to Vary, it never takes a value away)
	if v := s.extraHdr["Vary"]; v != "" && !strings.Contains(strings.Join(w.header.Values("Vary"), ", "), v) {
		fatalf("Vary %q, the inner handler sent %q\n%s", w.header.Values("Vary"), v, ctx)
	}
	if v := s.extraHdr["Cache-Control"]; v != w.header.Get("Cache-Control") {
		fatalf("Cache-Control %q, the inner handler sent %q\n%s", w.header.Get("Cache-Control"), v, ctx)
	}
	matches := ctRe.MatchString(effectiveType(s))
	mayCompress := clientAcceptsGzip(r) && matches && s.encoding == ""
	if compressed {
		if !mayCompress && !(s.typeUnknown && clientAcceptsGzip(r) && s.encoding == "") {
			fatalf("response compressed although accept-gzip=%v type-matches=%v pre-encoded=%q\n%s", clientAcceptsGzip(r), matches, s.encoding, ctx)
		}
		if cl := w.header.Get("Content-Length"); cl != "" && bodyVisible {
			if n, _ := strconv.Atoi(cl); n != len(w.body) {
				fatalf("stale Content-Length %s on a compressed response of %d bytes\n%s", cl, len(w.body), ctx)
			}
		}
		// (23 is the size of an empty gzip stream, which net/http advertises for a HEAD response by itself)
		if cl := w.header.Get("Content-Length"); cl != "" && cl == strconv.Itoa(len(s.body())) && len(s.body()) > 0 && len(s.body()) != 23 && !bodyVisible {
			// HEAD: the advertised length must not be the uncompressed one while the encoding says gzip
			fatalf("compressed response advertises the uncompressed Content-Length %s\n%s", cl, ctx)
		}
		if bodyVisible {
			got, err := gunzip(w.body)
			if err != nil {
				fatalf("compressed body does not decompress: %v (%d bytes on the wire)\n%s", err, len(w.body), ctx)
			}
			if !bytes.Equal(got, s.body()) {
				fatalf("decompressed body differs from what the inner handler wrote: %d vs %d bytes\n%s", len(got), len(s.body()), ctx)
			}
		}
	} else {
		// delivered byte for byte: identical to the same exchange without the gzip handler
		if bodyVisible && !bytes.Equal(w.body, plain.body) {
			fatalf("uncompressed body altered: %d bytes, without gzip handler %d bytes\n%s", len(w.body), len(plain.body), ctx)
		}
		for _, h := range []string{"Content-Encoding", "Content-Length", "Content-Type", "X-Inner", "Etag", "Accept-Ranges"} {
			a, b := w.header.Get(h), plain.header.Get(h)
			if h == "Content-Length" && !s.setLength {
				// the handler announced no length: whether the HTTP stack computes one or uses
				// chunked framing is its own business (a flush decides it); a length that is
				// there must be right
				if a != "" && bodyVisible && a != strconv.Itoa(len(w.body)) {
					fatalf("Content-Length %s on an uncompressed response of %d bytes\n%s", a, len(w.body), ctx)
				}
				continue
			}
			if h == "Content-Type" && (s.typeUnknown || s.contentType == "" && (b == "" || a == "")) {
				continue // the upstream sent no type at all (it flushed first): whether the last hop's server sniffs one depends on when the first bytes arrive
			}
			if a != b {
				fatalf("header %s = %q, without the gzip handler %q\n%s", h, a, b, ctx)
			}
		}
		// documented: compress when the client sends Accept-Encoding: gzip and the type matches
		bodiless := s.status == 204 || s.status == 304 || r.method == "HEAD"
		if mayCompress && !bodiless && len(s.body()) > 0 && !strings.Contains(r.accept, "text/event-stream") && !s.typeUnknown {
			fatalf("response not compressed although the client accepts gzip, type %q matches and it is not encoded\n%s", effectiveType(s), ctx)
		}
	}
	return
}

// effectiveType: the type net/http (and the gzip handler) sniff when the
// handler set none.
func effectiveType(s respSpec) string {
	if s.contentType != "" {
		return s.contentType
	}
	if len(s.chunks) == 0 {
		return ""
	}
	if s.explicit {
		return "" // WriteHeader came first: the decision is taken without a type
	}
	return http.DetectContentType(s.chunks[0])
}

func record(h http.Handler, r reqSpec) wire {
	req := httptest.NewRequest(r.method, "http://example.com/x", nil)
	if r.acceptEncoding != "-" {
		req.Header.Set("Accept-Encoding", r.acceptEncoding)
	}
	if r.accept != "" {
		req.Header.Set("Accept", r.accept)
	}
	rec := httptest.NewRecorder()
	h.ServeHTTP(rec, req)
	// the headers as they were when they were committed (first WriteHeader, Write or Flush):
	// what a handler changes afterwards never reaches a client
	return wire{status: rec.Code, header: rec.Result().Header, body: rec.Body.Bytes()}
}

func ctxOf(s respSpec, r reqSpec) string {
	return ctxOf0(s, r) + fmt.Sprintf("\ninformational responses first: %v, flush before anything is written: %v, flush before chunk: %d", s.early, s.flushFirst, s.flushAt)
}

func ctxOf0(s respSpec, r reqSpec) string {
	var sizes []int
	for _, c := range s.chunks {
		sizes = append(sizes, len(c))
	}
	return fmt.Sprintf("response: status=%d explicitWriteHeader=%v type=%q encoding=%q setLength=%v chunks=%v\nrequest: %s Accept-Encoding=%q Accept=%q", s.status, s.explicit, s.contentType, s.encoding, s.setLength, sizes, r.method, r.acceptEncoding, r.accept)
}

func TestC17Handler(t *testing.T) {
	hx.Check(t, hx.Scale(5000, 200000), func(t *rapid.T) {
		s, r := genResp(t), genReq(t)
		if r.method == "HEAD" {
			r.method = "GET" // the recorder has no protocol rules; HEAD is exercised behind a real server
		}
		s.early = nil // likewise informational responses
		inner := innerHandler(s)
		got := record(gzip.NewGzipHandler(inner, ctRe), r)
		plain := record(inner, r)
		hx.Eval()
		bodyVisible := s.status != 204 && s.status != 304
		compressed := judge(func(f string, a ...any) { t.Fatalf(f, a...) }, s, r, got, plain, bodyVisible, ctxOf(s, r))
		classify(s, compressed)
	})
}

func classify(s respSpec, compressed bool) {
	if compressed {
		hx.Class("compressed")
	} else {
		hx.Class("passed-through")
	}
	if (len(s.body()) > 0 && len(s.chunks) >= 2 && compressed) || s.encoding != "" {
		var sizes []string
		for _, c := range s.chunks {
			sizes = append(sizes, strconv.Itoa(len(c)))
		}
		hx.NonTrivial(fmt.Sprintf("%d|%s|%s|%v|%s|%x", s.status, s.contentType, s.encoding, s.setLength, strings.Join(sizes, ","), hashOf(s.body())))
		hx.Class("nontrivial")
	}
	if hx.WantSample("resp") && compressed && len(s.chunks) >= 2 {
		var sizes []int
		for _, c := range s.chunks {
			sizes = append(sizes, len(c))
		}
		hx.Sample("resp", map[string]any{"status": s.status, "type": s.contentType, "chunk_sizes": sizes, "compressed": compressed})
	}
}

func hashOf(b []byte) uint32 {
	var h uint32 = 2166136261
	for _, c := range b {
		h = (h ^ uint32(c)) * 16777619
	}
	return h
}

// ---------------------------------------------------------------------------
// behind a real HTTP server (protocol rules for HEAD/204/304 apply), through
// the full proxy with a real upstream.

func rawExchange(addr string, r reqSpec, path string) (wire, error) {
	c, err := net.Dial("tcp", addr)
	if err != nil {
		return wire{}, err
	}
	defer c.Close()
	req := r.method + " " + path + " HTTP/1.1\r\nHost: example.com\r\nConnection: close\r\n"
	if r.acceptEncoding != "-" {
		req += "Accept-Encoding: " + r.acceptEncoding + "\r\n"
	}
	if r.accept != "" {
		req += "Accept: " + r.accept + "\r\n"
	}
	req += "\r\n"
	if _, err := c.Write([]byte(req)); err != nil {
		return wire{}, err
	}
	br := bufio.NewReader(c)
	resp, err := http.ReadResponse(br, &http.Request{Method: r.method})
	for err == nil && resp.StatusCode >= 100 && resp.StatusCode < 200 && resp.StatusCode != 101 {
		resp, err = http.ReadResponse(br, &http.Request{Method: r.method}) // informational responses precede the final one
	}
	if err != nil {
		return wire{}, err
	}
	body, err := io.ReadAll(resp.Body)
	if err != nil {
		return wire{}, err
	}
	if resp.ContentLength >= 0 && resp.Header.Get("Content-Length") == "" {
		resp.Header.Set("Content-Length", strconv.FormatInt(resp.ContentLength, 10))
	}
	return wire{status: resp.StatusCode, header: resp.Header, body: body}, nil
}

func TestC17ThroughProxy(t *testing.T) {
	var cur atomic.Value // respSpec the upstream should serve
	up := httptest.NewServer(http.HandlerFunc(func(w http.ResponseWriter, r *http.Request) {
		innerHandler(cur.Load().(respSpec)).ServeHTTP(w, r)
	}))
	defer up.Close()
	upURL, _ := url.Parse(up.URL)
	// the transport is the one fabio builds for itself (transport.NewTransport: Go's transparent
	// decompression is NOT switched off there); flush intervals as configured by
	// proxy.flushinterval / proxy.globalflushinterval
	transport.SetConfig(&config.Config{})
	mk := func(re *regexp.Regexp, flush time.Duration) *httptest.Server {
		return httptest.NewServer(&proxy.HTTPProxy{
			Stats:     mwire.Stats(),
			Config:    config.Proxy{GZIPContentTypes: re, FlushInterval: flush, GlobalFlushInterval: flush},
			Transport: transport.NewTransport(nil),
			Lookup: func(r *http.Request) *route.Target {
				return &route.Target{Service: "svc", URL: upURL}
			},
		})
	}
	withGzip, without := mk(ctRe, 0), mk(nil, 0)
	withGzipF, withoutF := mk(ctRe, 10*time.Millisecond), mk(nil, 10*time.Millisecond)
	defer withGzip.Close()
	defer without.Close()
	defer withGzipF.Close()
	defer withoutF.Close()
	hx.Check(t, hx.Scale(600, 20000), func(t *rapid.T) {
		s, r := genResp(t), genReq(t)
		if len(s.body()) > 300000 {
			s.chunks = [][]byte{s.body()[:300000]}
		}
		if s.setLength {
			// an upstream that announces a length sends exactly that
			s.setLength = true
		}
		if s.status == 301 {
			s.status = 200 // keep clear of redirect handling in clients
		}
		if s.encoding == "gzip" && len(s.body()) > 0 {
			// an upstream that labels its body gzip sends gzip (fabio's transport decodes it for
			// clients that did not ask for any encoding, as Go's transport does by default)
			var zb bytes.Buffer
			zw := stdgzip.NewWriter(&zb)
			zw.Write(s.body())
			zw.Close()
			s.chunks = [][]byte{zb.Bytes()}
			if s.flushAt >= len(s.chunks) {
				s.flushAt = 0
			}
		}
		if s.status != 204 && s.status != 304 && r.method != "HEAD" && len(s.body()) > 0 && rapid.IntRange(0, 7).Draw(t, "upstream-dies-mid-body") == 0 {
			s.abort, s.setLength = true, false
		}
		cur.Store(s)
		wg, wo := withGzip, without
		flushing := rapid.IntRange(0, 2).Draw(t, "flush-interval-configured") == 0
		if flushing {
			wg, wo = withGzipF, withoutF
		}
		if s.abort {
			// a fault on the upstream side: status, headers and a part of the body were sent, then the
			// connection died.  Compressed or not, the client must not be handed that part as a
			// complete response.
			for _, fr := range []*httptest.Server{wg, wo} {
				w, err := rawExchange(fr.Listener.Addr().String(), r, "/x")
				if err == nil {
					t.Fatalf("the upstream died after %d body bytes without terminating the body, but the client was given a complete response: status %d, %d body bytes, Content-Encoding %q (compression configured: %v, flush interval configured: %v)\n%s",
						len(s.body()), w.status, len(w.body), w.header.Get("Content-Encoding"), fr == wg, flushing, ctxOf(s, r))
				}
			}
			hx.Eval()
			hx.Class("proxy:upstream-dies-mid-body")
			return
		}
		got, err := rawExchange(wg.Listener.Addr().String(), r, "/x")
		if err != nil {
			t.Fatalf("exchange failed: %v\n%s", err, ctxOf(s, r))
		}
		plain, err := rawExchange(wo.Listener.Addr().String(), r, "/x")
		if err != nil {
			t.Fatalf("exchange failed: %v\n%s", err, ctxOf(s, r))
		}
		hx.Eval()
		bodyVisible := s.status != 204 && s.status != 304 && r.method != "HEAD"
		// behind the proxy the upstream's implicit type sniffing has already happened
		s2 := s
		if s2.contentType == "" && len(s.body()) > 0 {
			s2.contentType = plain.header.Get("Content-Type")
			firstData := len(s.chunks)
			for i, c := range s.chunks {
				if len(c) > 0 {
					firstData = i
					break
				}
			}
			// a flush before the first byte of data commits the upstream's headers without a type
			if s.flushFirst && s.status == 200 && !s.explicit || s.flushAt >= 0 && s.flushAt <= firstData {
				s2.typeUnknown = true
			}
		}
		compressed := judge(func(f string, a ...any) { t.Fatalf(f, a...) }, s2, r, got, plain, bodyVisible, fmt.Sprintf("through HTTPProxy (flush interval configured: %v)\n", flushing)+ctxOf(s, r))
		// what the upstream encoded itself reaches a client that asked for an encoding byte for byte, with its label
		// (a client that sent no Accept-Encoding gets Go's transparent decoding of gzip, as in production)
		if s.encoding != "" && bodyVisible && r.acceptEncoding != "-" && r.acceptEncoding != "" {
			for _, w := range []wire{got, plain} {
				if w.header.Get("Content-Encoding") != s.encoding || !bytes.Equal(w.body, s.body()) {
					t.Fatalf("the upstream sent %d bytes labelled Content-Encoding: %s; the client (Accept-Encoding: %s) received %d bytes labelled %q (flush interval configured: %v)\n%s", len(s.body()), s.encoding, r.acceptEncoding, len(w.body), w.header.Get("Content-Encoding"), flushing, ctxOf(s, r))
				}
			}
		}
		if flushing {
			hx.Class("proxy:flush-interval-configured")
		}
		classify(s, compressed)
		if r.method == "HEAD" {
			hx.Class("proxy:HEAD")
		}
	})
}

// ---------------------------------------------------------------------------
// concurrent handlers over the shared writer pool (run with -race)

// goneWriter is the response writer of a client that disconnects: after 'left' body bytes every
// write fails.
type goneWriter struct {
	h    http.Header
	left int
}

func (w *goneWriter) Header() http.Header { return w.h }
func (w *goneWriter) WriteHeader(int)     {}
func (w *goneWriter) Write(p []byte) (int, error) {
	if len(p) <= w.left {
		w.left -= len(p)
		return len(p), nil
	}
	n := w.left
	w.left = 0
	return n, io.ErrClosedPipe
}

func TestC17Concurrent(t *testing.T) {
	hx.Check(t, hx.Scale(15, 150), func(t *rapid.T) {
		G := rapid.IntRange(2, 32).Draw(t, "goroutines")
		per := hx.Pick(60, 400)
		specs := make([]respSpec, G)
		reqs := make([]reqSpec, G)
		for g := range specs {
			specs[g], reqs[g] = genResp(t), genReq(t)
			specs[g].early = nil // the recorder has no protocol rules for informational responses
			if reqs[g].method == "HEAD" {
				reqs[g].method = "GET"
			}
			if b := specs[g].body(); len(b) > 100000 {
				specs[g].chunks = [][]byte{b[:50000], b[50000:100000]}
			}
			// tag every body with its goroutine so that a mixed-up buffer is visible
			tag := []byte(fmt.Sprintf("[g%02d]", g))
			if specs[g].status != 204 && specs[g].status != 304 {
				specs[g].chunks = append([][]byte{tag}, specs[g].chunks...)
			}
		}
		gone := rapid.Bool().Draw(t, "clients-going-away-mid-response")
		if gone {
			hx.Class("concurrent-workloads:with-clients-going-away")
			// the clients that go away were being sent compressed responses of some size (every other
			// handler): that is where the compressor has state to lose
			filler := bytes.Repeat([]byte("the quick brown fox jumps over the lazy dog. "), 1+rapid.IntRange(20, 400).Draw(t, "filler"))
			for g := 0; g < G; g += 2 {
				reqs[g].acceptEncoding, reqs[g].accept = "gzip", ""
				specs[g].contentType, specs[g].encoding, specs[g].status, specs[g].explicit = "text/html", "", 200, rapid.Bool().Draw(t, "explicit200")
				specs[g].setLength = false
				specs[g].chunks = append([][]byte{[]byte(fmt.Sprintf("[g%02d]", g))}, filler[:len(filler)/2], filler[len(filler)/2:])
				specs[g].flushAt = rapid.SampledFrom([]int{-1, 1, 2}).Draw(t, "flushat-gone")
			}
		}
		var wg sync.WaitGroup
		var failed atomic.Value
		start := make(chan struct{})
		for g := 0; g < G; g++ {
			wg.Add(1)
			go func(g int) {
				defer wg.Done()
				<-start
				inner := innerHandler(specs[g])
				h := gzip.NewGzipHandler(inner, ctRe)
				plain := record(inner, reqs[g])
				for i := 0; i < per && failed.Load() == nil; i++ {
					if gone && i%5 == 2 {
						// a client of this handler goes away in the middle of its response: its writes
						// fail from some byte on; nobody looks at that response, the others must not notice
						req := httptest.NewRequest(reqs[g].method, "http://example.com/x", nil)
						if reqs[g].acceptEncoding != "-" {
							req.Header.Set("Accept-Encoding", reqs[g].acceptEncoding)
						}
						h.ServeHTTP(&goneWriter{h: http.Header{}, left: (g*131 + i*17) % 400}, req)
						continue
					}
					got := record(h, reqs[g])
					judge(func(f string, a ...any) {
						failed.CompareAndSwap(nil, fmt.Sprintf("goroutine %d/%d iteration %d: ", g, G, i)+fmt.Sprintf(f, a...))
					}, specs[g], reqs[g], got, plain, specs[g].status != 204 && specs[g].status != 304, ctxOf(specs[g], reqs[g]))
				}
			}(g)
		}
		close(start)
		wg.Wait()
		hx.EvalN(G * per)
		if f := failed.Load(); f != nil {
			t.Fatalf("%s", f)
		}
		hx.NonTrivial(fmt.Sprintf("conc|%d|%v", G, specs[0].status))
		hx.Class("concurrent-workloads")
	})
}
