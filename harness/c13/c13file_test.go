package c13

import (
	"bytes"
	"fmt"
	"net/http/httptest"
	"os"
	"path/filepath"
	"testing"
	"time"

	"github.com/fabiolb/fabio/config"
	"github.com/fabiolb/fabio/registry"
	"github.com/fabiolb/fabio/registry/file"
	"github.com/fabiolb/fabio/registry/static"
	"github.com/fabiolb/fabio/route"
	"pgregory.net/rapid"

	"verifharness/hx"
)

// The redirect route comes from a routes file (registry.backend=file) or from
// registry.static.routes: the backend hands the text on as it is written, $path and $host
// included, and the redirect is answered from the request alone.
func TestC13FromRoutesFile(t *testing.T) {
	dir := t.TempDir()
	os.Setenv("path", "/from-the-environment") // the templates are fabio's, not the shell's
	os.Setenv("host", "env.example")
	n := 0
	hx.Check(t, hx.Scale(1500, 30000), func(t *rapid.T) {
		n++
		x := genTmpl(t)
		cfg := x.routeLine("redir") + "\nroute add other other.example/ http://10.0.0.1:80/\n"
		var be registry.Backend
		var err error
		kind := rapid.SampledFrom([]string{"file", "static"}).Draw(t, "backend")
		if kind == "file" {
			rp, hp := filepath.Join(dir, fmt.Sprintf("routes-%d.txt", n)), filepath.Join(dir, "noroute.html")
			os.WriteFile(rp, []byte(cfg), 0o600)
			os.WriteFile(hp, []byte("<html>no route</html>"), 0o600)
			defer os.Remove(rp)
			be, err = file.NewBackend(&config.File{RoutesPath: rp, NoRouteHTMLPath: hp})
		} else {
			be, err = static.NewBackend(&config.Static{Routes: cfg})
		}
		if err != nil {
			t.Fatalf("%s backend: %v", kind, err)
		}
		var text string
		select {
		case text = <-be.WatchServices():
		case <-time.After(5 * time.Second):
			t.Fatalf("%s backend delivered no routes", kind)
		}
		tbl, err := route.NewTable(bytes.NewBufferString(text))
		if err != nil {
			t.Fatalf("routes delivered by the %s backend rejected: %v\n%s", kind, err, text)
		}
		rt := &countingRT{}
		p := newProxy(tbl, "prefix", rt)
		r := genReq(t, x)
		rec := httptest.NewRecorder()
		p.ServeHTTP(rec, parseRequest(r))
		hx.Eval()
		ctx := fmt.Sprintf("routes as written (%s backend):\n%s\nas delivered:\n%s\nrequest: host=%q path=%q query=%q", kind, cfg, text, r.host, r.rawPath, r.query)
		checkRedirect(func(f string, a ...any) { t.Fatalf(f, a...) }, rec, x, r, ctx)
		if rt.hits != 0 {
			t.Fatalf("an upstream was contacted for a redirect route\n%s", ctx)
		}
		hx.Class("redirect-from-the-" + kind + "-backend")
		if x.hasPath {
			hx.NonTrivial(ctx)
		}
	})
}
