package c13

import (
	"bytes"
	"fmt"
	"net/http/httptest"
	"strings"
	"testing"

	"github.com/fabiolb/fabio/registry/consul"
	"github.com/fabiolb/fabio/route"
	"github.com/hashicorp/consul/api"
	"pgregory.net/rapid"

	"verifharness/hx"
)

// The redirect route comes from a service registration: one urlprefix- tag of an
// instance carries redirect=<code>,<url> (and maybe strip/prepend), its sibling
// tags carry options of their own.  The Location answered for the redirect
// prefix depends on that tag's options only.
func TestC13FromServiceTags(t *testing.T) {
	hx.Check(t, hx.Scale(4000, 60000), func(t *rapid.T) {
		x := genTmpl(t)
		tag := fmt.Sprintf("urlprefix-%s redirect=%d,%s", x.routeSrc, x.code, x.dst())
		if x.strip != "" {
			tag += " strip=" + x.strip
		}
		if x.prepend != "" {
			tag += " prepend=" + x.prepend
		}
		// sibling tags on hosts the requests never ask for
		var tags []string
		nsib := rapid.IntRange(0, 3).Draw(t, "siblings")
		for i := 0; i < nsib; i++ {
			sib := fmt.Sprintf("urlprefix-sibling%d.example/p%d", i, i)
			for _, o := range rapid.SliceOfNDistinct(rapid.SampledFrom([]string{"strip=/p0", "strip=/docs", "prepend=/pre", "proto=https", "host=dst", "weight=0.5", "redirect=302,https://sib.example/fixed", "strip=/s", "strip=/stripme"}), 0, 3, func(s string) string {
				return strings.SplitN(s, "=", 2)[0]
			}).Draw(t, "sibopts") {
				sib += " " + o
			}
			tags = append(tags, sib)
		}
		pos := rapid.IntRange(0, len(tags)).Draw(t, "redirect-tag-position")
		tags = append(tags[:pos:pos], append([]string{tag}, tags[pos:]...)...)
		tags = append(tags, "v1")
		// a registration that exists only to carry redirect tags needs no upstream of its own: it may
		// have no port (and no service address)
		port, saddr := 8080, "10.0.0.5"
		if rapid.IntRange(0, 2).Draw(t, "registered-without-port") == 0 {
			port = 0
			if rapid.Bool().Draw(t, "and-without-address") {
				saddr = ""
			}
			hx.Class("redirect-from-a-registration-without-port")
		}
		svc := &api.CatalogService{Node: "n1", Address: "10.0.0.1", ServiceID: "web-1", ServiceName: "web", ServiceAddress: saddr, ServicePort: port, ServiceTags: tags}
		cmds := consul.VerifRouteCmds(svc, "urlprefix-", map[string]string{"DC": "dc1"})
		cfg := strings.Join(cmds, "\n")
		tbl, err := route.NewTable(bytes.NewBufferString(cfg))
		if err != nil {
			t.Fatalf("commands derived from tags %q rejected: %v\n%s", tags, err, cfg)
		}
		rt := &countingRT{}
		p := newProxy(tbl, "prefix", rt)
		for i, n := 0, rapid.IntRange(1, 3).Draw(t, "requests"); i < n; i++ {
			r := genReq(t, x)
			rec := httptest.NewRecorder()
			p.ServeHTTP(rec, parseRequest(r))
			hx.Eval()
			ctx := fmt.Sprintf("service tags: %q\nderived commands:\n%s\nrequest: host=%q path=%q query=%q", tags, cfg, r.host, r.rawPath, r.query)
			checkRedirect(func(f string, a ...any) { t.Fatalf(f, a...) }, rec, x, r, ctx)
		}
		if rt.hits != 0 {
			t.Fatalf("an upstream was contacted for a redirect route\ntags %q", tags)
		}
		if nsib > 0 && pos > 0 {
			hx.NonTrivial(strings.Join(tags, "|"))
			hx.Class("redirect-tag-after-sibling-tags-with-options")
		}
		hx.Class("redirect-from-service-tags")
	})
}
