package c13

import (
	"bufio"
	"bytes"
	"fmt"
	"io"
	"net/http"
	"net/http/httptest"
	"strings"
	"sync"
	"sync/atomic"
	"testing"

	"github.com/fabiolb/fabio/config"
	"github.com/fabiolb/fabio/proxy"
	"github.com/fabiolb/fabio/route"
	"pgregory.net/rapid"

	"verifharness/hx"
	"verifharness/wire"
)

func TestMain(m *testing.M) { wire.Init(false); hx.Main(m) }

// ---------------------------------------------------------------------------
// model

type tmpl struct {
	scheme   string // http | https
	host     string // literal host or "$host"
	prefix   string // path before $path: "", "/bbb"
	slash    bool   // written as ".../$path" instead of "...$path"
	hasPath  bool   // template contains $path
	fixed    string // fixed path when !hasPath ("/", "/fixed/x")
	query    string // template's own query ("" or "x=1")
	code     int
	strip    string
	prepend  string
	routeSrc string // host/path prefix of the route
}

func (t tmpl) dst() string {
	s := t.scheme + "://" + t.host
	if t.hasPath {
		s += t.prefix
		if t.slash {
			s += "/"
		}
		s += "$path"
	} else {
		s += t.fixed
	}
	if t.query != "" {
		s += "?" + t.query
	}
	return s
}

func (t tmpl) routeLine(svc string) string {
	opts := fmt.Sprintf("redirect=%d", t.code)
	if t.strip != "" {
		opts += " strip=" + t.strip
	}
	if t.prepend != "" {
		opts += " prepend=" + t.prepend
	}
	return fmt.Sprintf("route add %s %s %s opts \"%s\"", svc, t.routeSrc, t.dst(), opts)
}

type reqSpec struct {
	host    string
	rawPath string // as sent, percent-encoding included
	query   string
	xfp     string
	upgrade string // Upgrade header ("" = none)
}

// wantLocation is written from the property statement and the documentation.
func wantLocation(t tmpl, r reqSpec) (loc string, exactQuery bool) {
	host := t.host
	if host == "$host" {
		host = r.host
	}
	if !t.hasPath {
		p := t.fixed
		if p == "" {
			p = "/"
		}
		loc = t.scheme + "://" + host + p
		if t.query != "" {
			loc += "?" + t.query
		}
		return loc, t.query != "" // statement is silent about the request query for fixed targets
	}
	p := r.rawPath
	if t.strip != "" && strings.HasPrefix(p, t.strip) {
		p = p[len(t.strip):]
	}
	p = t.prepend + p
	full := t.prefix + p
	if full == "" {
		full = "/"
	}
	loc = t.scheme + "://" + host + full
	switch {
	case t.query != "":
		loc += "?" + t.query
	case r.query != "":
		loc += "?" + r.query
	}
	return loc, true
}

// ---------------------------------------------------------------------------
// generators

var encSegs = []string{"a", "b", "abc", "a%2Fb", "%20", "%41", "%C3%A9", "x%2fy", "%25", "a+b", "a;b", "a,b", "~u", "a=b", "a@b", "a:b", "%7Euser", "a%3Fb"}

func genRawPath(t *rapid.T, mustStart string) string {
	n := rapid.IntRange(0, 4).Draw(t, "nseg")
	p := mustStart
	for i := 0; i < n; i++ {
		p += "/" + rapid.SampledFrom(encSegs).Draw(t, "seg")
	}
	if rapid.IntRange(0, 3).Draw(t, "trail") == 0 {
		p += "/"
	}
	if p == "" {
		p = "/"
	}
	return p
}

func genTmpl(t *rapid.T) tmpl {
	x := tmpl{
		scheme: rapid.SampledFrom([]string{"https", "http"}).Draw(t, "scheme"),
		host:   rapid.SampledFrom([]string{"$host", "h.example", "h.example:8443"}).Draw(t, "thost"),
		code:   rapid.SampledFrom([]int{301, 302, 303, 307, 308, 300, 399}).Draw(t, "code"),
	}
	if rapid.IntRange(0, 5).Draw(t, "fixed") == 0 {
		x.fixed = rapid.SampledFrom([]string{"/", "/fixed", "/fixed/x", ""}).Draw(t, "fixedpath")
	} else {
		x.hasPath = true
		x.prefix = rapid.SampledFrom([]string{"", "", "/bbb", "/b/c"}).Draw(t, "prefix")
		x.slash = rapid.Bool().Draw(t, "slash")
		if strings.Contains(x.host, ":") && x.prefix == "" {
			x.slash = true // "host:port$path" is not a URL
		}
	}
	if rapid.IntRange(0, 3).Draw(t, "ownquery") == 0 {
		x.query = rapid.SampledFrom([]string{"x=1", "foo=bar&y=2"}).Draw(t, "tquery")
	}
	routeHost := rapid.SampledFrom([]string{"", "", "foo.com", "*:80", "*.foo.com", "foo.com:80"}).Draw(t, "rhost")
	routePath := "/"
	switch rapid.IntRange(0, 3).Draw(t, "sp") {
	case 1:
		x.strip = rapid.SampledFrom([]string{"/stripme", "/s"}).Draw(t, "strip")
		routePath = x.strip
	case 2:
		x.prepend = rapid.SampledFrom([]string{"/prefix", "/p-1", "/~p"}).Draw(t, "prepend")
	case 3:
		x.strip = rapid.SampledFrom([]string{"/stripme", "/s", "/stripme/", "/old/"}).Draw(t, "strip")
		x.prepend = rapid.SampledFrom([]string{"/prefix", "/p_2", "/prefix/", "/v2/"}).Draw(t, "prepend")
		routePath = x.strip
	}
	// a route whose own path is shorter than what it strips: the strip applies only to
	// requests that start with it
	if x.strip != "" && rapid.IntRange(0, 2).Draw(t, "route-shorter-than-strip") == 0 {
		routePath = "/"
	}
	if !x.hasPath {
		x.strip, x.prepend, routePath = "", "", rapid.SampledFrom([]string{"/", "/old"}).Draw(t, "fixedroute")
	}
	x.routeSrc = routeHost + routePath
	return x
}

func genReq(t *rapid.T, x tmpl) reqSpec {
	rh := x.routeSrc[:strings.Index(x.routeSrc, "/")]
	rp := x.routeSrc[strings.Index(x.routeSrc, "/"):]
	var host string
	switch rh {
	case "":
		host = rapid.SampledFrom([]string{"foo.com", "bar.org", "foo.com:8080", "Foo.COM"}).Draw(t, "host")
	case "*:80":
		host = rapid.SampledFrom([]string{"foo.com:80", "bar.org:80"}).Draw(t, "host")
	case "*.foo.com":
		host = rapid.SampledFrom([]string{"a.foo.com", "b.c.foo.com"}).Draw(t, "host")
	default:
		host = rh
	}
	start := ""
	if rp != "/" {
		start = rp
	} else if x.strip != "" {
		// the stripped piece at the front, further down the path, or not at all
		start = rapid.SampledFrom([]string{x.strip, "/docs" + x.strip, "/d" + x.strip + x.strip, ""}).Draw(t, "strip-position")
	}
	r := reqSpec{host: host, rawPath: genRawPath(t, start)}
	if rapid.IntRange(0, 2).Draw(t, "hasq") == 0 {
		r.query = rapid.SampledFrom([]string{"a=1", "a=1&b=%20x", "q", "x=%2F", "from=2024;to=2025", "a;b", "q=100%", "id=7;jsessionid=A&x=1", "%zz=1"}).Draw(t, "query")
	}
	// any request that matches a redirect route is redirected, a websocket handshake included
	if rapid.IntRange(0, 5).Draw(t, "upgrade") == 0 {
		r.upgrade = rapid.SampledFrom([]string{"websocket", "Websocket", "h2c"}).Draw(t, "upgradeval")
	}
	return r
}

func parseRequest(r reqSpec) *http.Request {
	target := r.rawPath
	if r.query != "" {
		target += "?" + r.query
	}
	raw := "GET " + target + " HTTP/1.1\r\nHost: " + r.host + "\r\n"
	if r.xfp != "" {
		raw += "X-Forwarded-Proto: " + r.xfp + "\r\n"
	}
	if r.upgrade != "" {
		raw += "Upgrade: " + r.upgrade + "\r\nConnection: Upgrade\r\nSec-WebSocket-Key: dGhlIHNhbXBsZSBub25jZQ==\r\nSec-WebSocket-Version: 13\r\n"
	}
	raw += "\r\n"
	req, err := http.ReadRequest(bufio.NewReader(strings.NewReader(raw)))
	if err != nil {
		panic(fmt.Sprintf("harness request does not parse: %v: %q", err, raw))
	}
	req.RemoteAddr = "192.0.2.1:4711"
	return req
}

type countingRT struct{ hits int64 }

func (c *countingRT) RoundTrip(r *http.Request) (*http.Response, error) {
	atomic.AddInt64(&c.hits, 1)
	return &http.Response{StatusCode: 200, Proto: "HTTP/1.1", ProtoMajor: 1, ProtoMinor: 1, Header: http.Header{"X-Upstream": {r.URL.Host}}, Body: io.NopCloser(strings.NewReader("up")), ContentLength: 2, Request: r}, nil
}

func newProxy(tbl route.Table, matcher string, rt http.RoundTripper) *proxy.HTTPProxy {
	cache := route.NewGlobCache(100)
	return &proxy.HTTPProxy{
		Stats:     wire.Stats(),
		Config:    config.Proxy{},
		Transport: rt,
		Lookup: func(r *http.Request) *route.Target {
			return tbl.Lookup(r, "", route.Picker["rr"], route.Matcher[matcher], cache, false)
		},
	}
}

func checkRedirect(fatalf func(string, ...any), rec *httptest.ResponseRecorder, x tmpl, r reqSpec, ctx string) {
	if rec.Code != x.code {
		fatalf("status %d, want the configured redirect code %d\n%s", rec.Code, x.code, ctx)
	}
	want, exact := wantLocation(x, r)
	got := rec.Header().Get("Location")
	if exact {
		if got != want {
			fatalf("Location %q, want %q\n%s", got, want, ctx)
		}
	} else if got != want && !strings.HasPrefix(got, want+"?") {
		fatalf("Location %q, want %q (query unspecified)\n%s", got, want, ctx)
	}
}

func TestC13Sequential(t *testing.T) {
	hx.Check(t, hx.Scale(50000, 1000000), func(t *rapid.T) {
		x := genTmpl(t)
		r := genReq(t, x)
		cfg := x.routeLine("redir")
		tbl, err := route.NewTable(bytes.NewBufferString(cfg))
		if err != nil {
			t.Fatalf("%v\n%s", err, cfg)
		}
		rt := &countingRT{}
		p := newProxy(tbl, rapid.SampledFrom([]string{"prefix", "iprefix"}).Draw(t, "matcher"), rt)
		// earlier requests with other hosts/paths on the same table must not influence this one
		for i, n := 0, rapid.IntRange(0, 2).Draw(t, "nbefore"); i < n; i++ {
			r0 := genReq(t, x)
			rec0 := httptest.NewRecorder()
			p.ServeHTTP(rec0, parseRequest(r0))
			hx.Eval()
			checkRedirect(func(f string, a ...any) { t.Fatalf(f, a...) }, rec0, x, r0, fmt.Sprintf("%s\nrequest (earlier on the same table): host=%q path=%q query=%q", cfg, r0.host, r0.rawPath, r0.query))
		}
		rec := httptest.NewRecorder()
		p.ServeHTTP(rec, parseRequest(r))
		hx.Eval()
		ctx := fmt.Sprintf("%s\nrequest: host=%q path=%q query=%q", cfg, r.host, r.rawPath, r.query)
		checkRedirect(func(f string, a ...any) { t.Fatalf(f, a...) }, rec, x, r, ctx)
		if rt.hits != 0 {
			t.Fatalf("an upstream was contacted for a redirect route\n%s", ctx)
		}
		if x.hasPath && (strings.Contains(r.rawPath, "%") || x.strip != "" || x.prepend != "") {
			hx.NonTrivial(ctx)
			hx.Class("nontrivial")
		}
		if strings.Contains(r.rawPath, "%") && x.hasPath {
			hx.Class("encoded-octet-in-path")
		}
		if x.host == "$host" {
			hx.Class("$host-template")
		}
		if hx.WantSample("redirect") && strings.Contains(r.rawPath, "%") && x.hasPath {
			hx.Sample("redirect", map[string]any{"route": cfg, "request": r, "location": rec.Header().Get("Location"), "status": rec.Code})
		}
	})
}

// A redirect that points back at the request itself is skipped in favour of the next matching host.
func TestC13SelfRedirectSkipped(t *testing.T) {
	hx.Check(t, hx.Scale(4000, 200000), func(t *rapid.T) {
		scheme := rapid.SampledFrom([]string{"https", "http"}).Draw(t, "scheme")
		host := rapid.SampledFrom([]string{"foo.com", "a.foo.com"}).Draw(t, "host")
		form := rapid.SampledFrom([]string{"$host$path", "$host/$path", host + "$path"}).Draw(t, "form")
		code := rapid.SampledFrom([]int{301, 302, 308}).Draw(t, "code")
		routeHost := rapid.SampledFrom([]string{host, "*.com", "*"}).Draw(t, "routehost")
		fallback := rapid.SampledFrom([]string{"hostless", "wildcard", "none"}).Draw(t, "fallback")
		if fallback == "wildcard" && routeHost != host {
			fallback = "hostless"
		}
		cfg := fmt.Sprintf("route add redir %s/ %s://%s opts \"redirect=%d\"\n", routeHost, scheme, form, code)
		switch fallback {
		case "hostless":
			cfg += "route add app / http://app.internal:8080/\n"
		case "wildcard":
			cfg += "route add app *.com/ http://app.internal:8080/\n"
		}
		tbl, err := route.NewTable(bytes.NewBufferString(cfg))
		if err != nil {
			t.Fatalf("%v\n%s", err, cfg)
		}
		r := reqSpec{host: host, rawPath: genRawPath(t, "")}
		// plain paths only: the skip rule compares decoded paths
		r.rawPath = strings.NewReplacer("%2F", "x", "%2f", "x", "%20", "y", "%41", "z", "%C3%A9", "e", "%25", "p", "%7E", "t", "%3F", "q").Replace(r.rawPath)
		xfpKind := rapid.SampledFrom([]string{"same", "same", "other", "absent"}).Draw(t, "xfp")
		switch xfpKind {
		case "same":
			r.xfp = scheme
		case "other":
			r.xfp = map[string]string{"https": "http", "http": "https"}[scheme]
		}
		rt := &countingRT{}
		p := newProxy(tbl, "prefix", rt)
		rec := httptest.NewRecorder()
		p.ServeHTTP(rec, parseRequest(r))
		hx.Eval()
		ctx := fmt.Sprintf("%s\nrequest: host=%q path=%q X-Forwarded-Proto=%q", cfg, r.host, r.rawPath, r.xfp)
		self := xfpKind == "same"
		switch {
		case !self:
			want := scheme + "://" + host + r.rawPath
			if rec.Code != code || rec.Header().Get("Location") != want {
				t.Fatalf("got %d %q, want %d %q\n%s", rec.Code, rec.Header().Get("Location"), code, want, ctx)
			}
			if rt.hits != 0 {
				t.Fatalf("upstream contacted on a redirect\n%s", ctx)
			}
			hx.Class("skip:not-self")
		case fallback != "none":
			if rec.Code != 200 || rt.hits != 1 || rec.Header().Get("X-Upstream") != "app.internal:8080" {
				t.Fatalf("self-redirect was not skipped in favour of the next matching host: status %d Location %q upstream hits %d\n%s", rec.Code, rec.Header().Get("Location"), rt.hits, ctx)
			}
			hx.Class("skip:next-host-answers")
			hx.NonTrivial(ctx)
		default:
			// no other matching host: the statement does not say what answers; only "no upstream" is certain
			if rt.hits != 0 {
				t.Fatalf("upstream contacted although only a redirect route exists\n%s", ctx)
			}
			hx.Class("skip:no-other-host(unspecified)")
		}
	})
}

// Under any number of simultaneous requests everybody gets the Location of their own request.
func TestC13Concurrent(t *testing.T) {
	hx.Check(t, hx.Scale(20, 200), func(t *rapid.T) {
		x := genTmpl(t)
		if !x.hasPath && x.host != "$host" {
			x.hasPath, x.fixed = true, ""
			if strings.Contains(x.host, ":") && x.prefix == "" {
				x.slash = true // "host:port$path" is not a URL
			}
		}
		cfg := x.routeLine("redir")
		tbl, err := route.NewTable(bytes.NewBufferString(cfg))
		if err != nil {
			t.Fatalf("%v\n%s", err, cfg)
		}
		G := rapid.IntRange(2, 32).Draw(t, "goroutines")
		per := hx.Pick(400, 3000)
		reqs := make([]reqSpec, G)
		for g := range reqs {
			reqs[g] = genReq(t, x)
			reqs[g].rawPath += fmt.Sprintf("/g%d", g) // every goroutine has its own path
		}
		rt := &countingRT{}
		p := newProxy(tbl, "prefix", rt)
		var wg sync.WaitGroup
		var failed atomic.Value
		start := make(chan struct{})
		for g := 0; g < G; g++ {
			wg.Add(1)
			go func(g int) {
				defer wg.Done()
				<-start
				for i := 0; i < per && failed.Load() == nil; i++ {
					rec := httptest.NewRecorder()
					p.ServeHTTP(rec, parseRequest(reqs[g]))
					checkRedirect(func(f string, a ...any) {
						failed.CompareAndSwap(nil, fmt.Sprintf("goroutine %d of %d, iteration %d: ", g, G, i)+fmt.Sprintf(f, a...))
					}, rec, x, reqs[g], fmt.Sprintf("%s\nrequest: %+v", cfg, reqs[g]))
				}
			}(g)
		}
		close(start)
		wg.Wait()
		hx.EvalN(G * per)
		if f := failed.Load(); f != nil {
			t.Fatalf("%s", f)
		}
		if rt.hits != 0 {
			t.Fatalf("upstream contacted")
		}
		hx.NonTrivial(fmt.Sprintf("conc|%s|%d", cfg, G))
		hx.Class("concurrent-workloads")
	})
}
