package c15

import (
	"fmt"
	"os"
	"path/filepath"
	"reflect"
	"regexp"
	"strings"
	"sync/atomic"
	"testing"

	"github.com/fabiolb/fabio/config"
	"pgregory.net/rapid"

	"verifharness/hx"
)

func TestMain(m *testing.M) { hx.Main(m) }

// ---------------------------------------------------------------------------
// the option list is extracted from the source the check is run against

type option struct {
	name string
	typ  string // Bool Int Uint String Duration Float64 StringSlice FloatSlice
}

var reVar = regexp.MustCompile(`f\.(Bool|Int|Uint|String|Duration|Float64|StringSlice|FloatSlice)Var\(&[\w.]+,\s*"([^"]+)"`)

func loadOptions(t *testing.T) []option {
	repo := os.Getenv("VERIF_REPO")
	if repo == "" {
		repo = "/repo"
	}
	src, err := os.ReadFile(filepath.Join(repo, "config", "load.go"))
	if err != nil {
		t.Fatalf("cannot read config/load.go: %v", err)
	}
	var opts []option
	seen := map[string]bool{}
	for _, m := range reVar.FindAllStringSubmatch(string(src), -1) {
		if seen[m[2]] {
			continue
		}
		seen[m[2]] = true
		opts = append(opts, option{name: m[2], typ: m[1]})
	}
	if len(opts) < 100 {
		t.Fatalf("only %d options extracted from config/load.go: the extraction pattern no longer fits", len(opts))
	}
	return opts
}

// ---------------------------------------------------------------------------
// values

var enumerated = map[string][]string{
	"proxy.strategy":                 {"rr", "rnd", "RR", "random"},
	"proxy.matcher":                  {"prefix", "glob", "iprefix", "regexp"},
	"ui.access":                      {"ro", "rw", "none"},
	"registry.backend":               {"consul", "file", "static", "custom", "other"},
	"registry.consul.checksRequired": {"one", "all", "some"},
	"log.access.target":              {"", "stdout", "stderr"},
	"proxy.gzip.contenttype":         {"^text/.*$", "^(text/.*|application/(javascript|json|font-woff|xml)|.*\\+(json|xml))(;.*)?$", "(", "", "a|b"},
	"proxy.localip":                  {"10.1.2.3", "fabio.example.com", "::1"},
	"registry.consul.register.addr":  {":9998", "10.0.0.1:9998", "fabio.example.com:1"},
	"registry.consul.addr":           {"localhost:8500", "https://consul.example.com:8501/", "HTTP://Consul:8500/ui", "consul:8500"},
	"proxy.addr": {":9999", ":1234;proto=tcp", ":80,:443;proto=tcp+sni", "1.2.3.4:5555;rt=5s;wt=1m;it=30s", ":1;pxyproto=true", ":1;pxyproto=true;pxytimeout=3s",
		"addr=:7777;proto=grpc", ":9999;proto=bogus", ":9999;rt=xx", "", ",", ";", "\"\"", ",,;", "proto=tcp", ":1;proto=tcp-dynamic;refresh=5s", ":1,:2,:3", "\":99\";proto=\"http\"", ":443;proto=https"},
	"ui.addr":             {":9998", "127.0.0.1:7000", ":1;rt=3s", ":1,:2", "", ":1;proto=nope", ",", ";", ";;,", "\"\"", "''", "=", "rt=3s"},
	"proxy.cs":            {"cs=a;type=file;cert=/c.pem;key=/k.pem", "cs=b;type=path;cert=/certs;refresh=7s", "cs=c;type=http;cert=http://h/certs;hdr=X-Token: abc", "cs=d;type=vault;cert=secret/fabio/cert", "cs=e;type=nope;cert=x", "cs=f;type=file", "", ",", ";", "\"\"", "cs=a;type=file;cert=/c.pem,cs=b;type=consul;cert=http://c/v1/kv/x"},
	"proxy.auth":          {"name=a;type=basic;file=/etc/htpasswd", "name=a;type=basic;file=/x;realm=R;refresh=10s", "name=b;type=basic;file=/x;refresh=1ms", "name=c;type=oauth", "type=basic;file=/x", "", ",", ";", "\"\"", "name=a;type=basic;file=/x,name=b;type=basic;file=/y"},
	"bgp.peers":           {"address=1.2.3.4;asn=65001", "address=1.2.3.4;asn=65001;port=179;multihop=true;multihoplength=3;password=pw", "address=1.2.3.4;asn=x", "", ",", ";", "\"\"", "address=10.0.0.1;asn=1,address=10.0.0.2;asn=2"},
	"proxy.noroutestatus": {"404", "503", "100", "999", "99", "1000", "0"},
	"glob.cache.size":     {"1000", "1", "17"},
}

func genValue(t *rapid.T, o option, label string) string {
	if vs, ok := enumerated[o.name]; ok {
		return rapid.SampledFrom(vs).Draw(t, label)
	}
	switch o.typ {
	case "Bool":
		return rapid.SampledFrom([]string{"true", "false", "1", "0", "t", "F", "TRUE", "False"}).Draw(t, label)
	case "Int":
		return rapid.SampledFrom([]string{"0", "1", "7", "42", "-1", "65536", "2147483647", "0x10", "-300", "100000"}).Draw(t, label)
	case "Uint":
		return rapid.SampledFrom([]string{"0", "1", "65000", "4294967295", "0x1F"}).Draw(t, label)
	case "Duration":
		return rapid.SampledFrom([]string{"0", "1s", "250ms", "1h2m3s", "90m", "-5s", "1.5s", "100us", "24h"}).Draw(t, label)
	case "Float64":
		return rapid.SampledFrom([]string{"0", "0.5", "1", "1e-3", "-2.5", "100"}).Draw(t, label)
	case "StringSlice":
		return rapid.SampledFrom([]string{"a", "a,b", " a , b ,, c ", "", "passing,warning", "x y,z", "ü,é"}).Draw(t, label)
	case "FloatSlice":
		return rapid.SampledFrom([]string{"0.1", "0.1,0.5,1", " 0.005 , 0.01 ,, 10 ", "", "1e-3,2.5"}).Draw(t, label)
	}
	// free string: no leading/trailing white space, no "${" (the properties
	// format defines expansion there)
	if rapid.Bool().Draw(t, label+"simple") {
		return rapid.SampledFrom([]string{"value", "x", "some/path.txt", "a b c", "k=v", "#hash", "!bang", "c:\\dir\\file", "ünï©ode", "\"quoted\"", "'single'", "a,b;c", "$HOME", "100%", "tab\tinside", "-dash", "--double", "a=b=c",
			// values that look like fabio's own meta arguments when they stand alone on the command line
			"v", "version", "cfg", "cfg=/etc/other.properties", "test.run", "test.v", "h", "help", "{{x}}"[0:1] + "curly}"}).Draw(t, label)
	}
	s := rapid.StringMatching(`[!-~¡-ÿ]([ -~¡-ÿ]{0,14}[!-~¡-ÿ])?`).Draw(t, label)
	return strings.ReplaceAll(s, "${", "$(")
}

// ---------------------------------------------------------------------------
// sources

type source int

const (
	srcCmdline source = iota // highest precedence
	srcEnvFabio
	srcEnvPlain
	srcFile // lowest
)

var srcNames = []string{"cmdline", "FABIO_env", "plain_env", "file"}

var fileSeq int64

type invocation struct {
	args []string
	env  []string
	file []string // lines of the properties file
}

func propsEscape(v string) string { return strings.ReplaceAll(v, `\`, `\\`) }

func envName(t *rapid.T, name string) string {
	n := strings.ToUpper(strings.ReplaceAll(name, ".", "_"))
	switch rapid.IntRange(0, 2).Draw(t, "envcase") {
	case 1:
		n = strings.ToLower(n)
	case 2:
		b := []byte(n)
		for i := range b {
			if b[i] >= 'A' && b[i] <= 'Z' && rapid.Bool().Draw(t, "lc") {
				b[i] += 32
			}
		}
		n = string(b)
	}
	return n
}

func (inv *invocation) add(t *rapid.T, o option, v string, s source) {
	switch s {
	case srcCmdline:
		form := rapid.IntRange(0, 2).Draw(t, "cmdform")
		if o.typ == "Bool" && form == 1 {
			form = 0 // '-flag value' is not a form the flag package has for booleans
		}
		switch form {
		case 0:
			inv.args = append(inv.args, "-"+o.name+"="+v)
		case 1:
			inv.args = append(inv.args, "-"+o.name, v)
		default:
			inv.args = append(inv.args, "--"+o.name+"="+v)
		}
	case srcEnvFabio:
		pfx := rapid.SampledFrom([]string{"FABIO_", "fabio_", "Fabio_"}).Draw(t, "pfx")
		inv.env = append(inv.env, pfx+envName(t, o.name)+"="+v)
	case srcEnvPlain:
		inv.env = append(inv.env, envName(t, o.name)+"="+v)
	case srcFile:
		sep := rapid.SampledFrom([]string{" = ", "=", ": ", " "}).Draw(t, "sep")
		if sep == " " && (v == "" || strings.HasPrefix(v, ":") || strings.HasPrefix(v, "=")) {
			sep = "=" // a leading ':' or '=' would be taken as the separator
		}
		inv.file = append(inv.file, o.name+sep+propsEscape(v))
	}
}

type result struct {
	cfg *config.Config
	err error
	pan any
}

func (inv *invocation) load(dir string) (r result) {
	args := append([]string{"fabio"}, inv.args...)
	if inv.file != nil {
		p := filepath.Join(dir, fmt.Sprintf("f%d.properties", atomic.AddInt64(&fileSeq, 1)))
		if err := os.WriteFile(p, []byte(strings.Join(inv.file, "\n")+"\n"), 0o600); err != nil {
			panic(err)
		}
		defer os.Remove(p)
		args = append(args, "-cfg", p)
	}
	env := append([]string{"PATH=/usr/bin", "HOME=/root", "LANG=C"}, inv.env...)
	defer func() {
		if p := recover(); p != nil {
			r.pan = p
		}
	}()
	r.cfg, r.err = config.Load(args, env)
	return
}

// canon renders a configuration for comparison (regular expressions by source).
func canon(r result) string {
	if r.pan != nil {
		return fmt.Sprintf("PANIC %v", r.pan)
	}
	if r.err != nil {
		return "ERROR"
	}
	if r.cfg == nil {
		return "NIL"
	}
	c := *r.cfg
	re := "<nil>"
	if c.Proxy.GZIPContentTypes != nil {
		re = c.Proxy.GZIPContentTypes.String()
	}
	c.Proxy.GZIPContentTypes = nil
	return fmt.Sprintf("%#v|gzip=%s", c, re)
}

func sameResult(a, b result) bool {
	if a.pan != nil || b.pan != nil {
		return false
	}
	if (a.err != nil) != (b.err != nil) {
		return false
	}
	if a.err != nil {
		return true
	}
	ca, cb := *a.cfg, *b.cfg
	ra, rb := "", ""
	if ca.Proxy.GZIPContentTypes != nil {
		ra = ca.Proxy.GZIPContentTypes.String()
	}
	if cb.Proxy.GZIPContentTypes != nil {
		rb = cb.Proxy.GZIPContentTypes.String()
	}
	ca.Proxy.GZIPContentTypes, cb.Proxy.GZIPContentTypes = nil, nil
	return ra == rb && reflect.DeepEqual(ca, cb)
}

// companion options that make an option's effect visible in the result
func companions(o option, v string) []string {
	if o.name == "proxy.cs" {
		// reference the first cert source from a listener
		if i := strings.Index(v, "cs="); i >= 0 {
			name := v[i+3:]
			if j := strings.IndexAny(name, ";,"); j >= 0 {
				name = name[:j]
			}
			return []string{"-proxy.addr=:4433;cs=" + name}
		}
	}
	return nil
}

// ---------------------------------------------------------------------------

func TestC15SourceEquivalence(t *testing.T) {
	opts := loadOptions(t)
	dir := t.TempDir()
	def := (&invocation{}).load(dir)
	if def.err != nil || def.pan != nil {
		t.Fatalf("default configuration does not load: %v %v", def.err, def.pan)
	}
	per := hx.Pick(2, 12)
	idx := 0
	for _, o := range opts {
		for s1 := srcCmdline; s1 <= srcFile; s1++ {
			for s2 := s1 + 1; s2 <= srcFile; s2++ {
				idx++
				if idx%hx.Shards() != hx.Shard() {
					continue
				}
				o, s1, s2 := o, s1, s2
				hx.Check(t, per, func(t *rapid.T) {
					v := genValue(t, o, "value")
					a, b := &invocation{}, &invocation{}
					a.add(t, o, v, s1)
					b.add(t, o, v, s2)
					comp := companions(o, v)
					a.args = append(a.args, comp...)
					b.args = append(b.args, comp...)
					ra, rb := a.load(dir), b.load(dir)
					hx.Eval()
					desc := fmt.Sprintf("option %s (%s) value %q: %s %v %v %v vs %s %v %v %v", o.name, o.typ, v, srcNames[s1], a.args, a.env, a.file, srcNames[s2], b.args, b.env, b.file)
					if ra.pan != nil || rb.pan != nil {
						t.Fatalf("config.Load panicked: %v / %v\n%s", ra.pan, rb.pan, desc)
					}
					if !sameResult(ra, rb) {
						t.Fatalf("the same option value means different things from two sources\n%s\n%s: %s\n%s: %s", desc, srcNames[s1], hx.Trunc(canon(ra), 3000), srcNames[s2], hx.Trunc(canon(rb), 3000))
					}
					hx.Class("pair:" + srcNames[s1] + "~" + srcNames[s2])
					if ra.err == nil && !sameResult(ra, def) {
						hx.NonTrivial(fmt.Sprintf("%s|%s|%d|%d", o.name, v, s1, s2))
						hx.Class("took-effect")
					} else if ra.err != nil {
						hx.Class("rejected-by-both")
					}
					if hx.WantSample("equiv") && ra.err == nil && !sameResult(ra, def) {
						hx.Sample("equiv", desc)
					}
				})
			}
		}
	}
	hx.Note(fmt.Sprintf("%d options extracted from config/load.go, every unordered pair of the 4 sources per option", len(opts)))
}

func TestC15Precedence(t *testing.T) {
	opts := loadOptions(t)
	dir := t.TempDir()
	per := hx.Pick(2, 12)
	idx := 0
	for _, o := range opts {
		for hi := srcCmdline; hi <= srcFile; hi++ {
			for lo := hi + 1; lo <= srcFile; lo++ {
				idx++
				if idx%hx.Shards() != hx.Shard() {
					continue
				}
				o, hi, lo := o, hi, lo
				hx.Check(t, per, func(t *rapid.T) {
					v1 := genValue(t, o, "winner")
					v2 := genValue(t, o, "loser")
					both, alone := &invocation{}, &invocation{}
					// the lower source is added first on purpose: order of
					// appearance must not matter
					if rapid.Bool().Draw(t, "lowfirst") {
						both.add(t, o, v2, lo)
						both.add(t, o, v1, hi)
					} else {
						both.add(t, o, v1, hi)
						both.add(t, o, v2, lo)
					}
					alone.add(t, o, v1, hi)
					comp := companions(o, v1)
					both.args = append(both.args, comp...)
					alone.args = append(alone.args, comp...)
					rb, ra := both.load(dir), alone.load(dir)
					hx.Eval()
					desc := fmt.Sprintf("option %s: %q in %s and %q in %s; args=%v env=%v file=%v", o.name, v1, srcNames[hi], v2, srcNames[lo], both.args, both.env, both.file)
					if rb.pan != nil || ra.pan != nil {
						t.Fatalf("config.Load panicked: %v / %v\n%s", rb.pan, ra.pan, desc)
					}
					if !sameResult(rb, ra) {
						t.Fatalf("precedence violated: %s does not win over %s\n%s\nboth:  %s\nalone: %s", srcNames[hi], srcNames[lo], desc, hx.Trunc(canon(rb), 3000), hx.Trunc(canon(ra), 3000))
					}
					hx.Class("precedence:" + srcNames[hi] + ">" + srcNames[lo])
					if v1 != v2 {
						lower := &invocation{}
						lower.add(t, o, v2, lo)
						lower.args = append(lower.args, companions(o, v2)...)
						if rl := lower.load(dir); !sameResult(rl, ra) {
							// the two values really mean different things
							hx.NonTrivial(fmt.Sprintf("prec|%s|%s|%s|%d|%d", o.name, v1, v2, hi, lo))
							hx.Class("precedence-distinguishing")
						}
					}
				})
			}
		}
	}
}

// A value given on the command line beats the default; and the default is
// what an empty invocation yields (sanity of the default chain).
func TestC15ThreeSourcesChain(t *testing.T) {
	opts := loadOptions(t)
	dir := t.TempDir()
	hx.Check(t, hx.Scale(300, 10000), func(t *rapid.T) {
		o := rapid.SampledFrom(opts).Draw(t, "option")
		vals := []string{genValue(t, o, "v0"), genValue(t, o, "v1"), genValue(t, o, "v2"), genValue(t, o, "v3")}
		present := []bool{rapid.Bool().Draw(t, "p0"), rapid.Bool().Draw(t, "p1"), rapid.Bool().Draw(t, "p2"), rapid.Bool().Draw(t, "p3")}
		all := &invocation{}
		winner := -1
		for s := srcFile; s >= srcCmdline; s-- {
			if present[s] {
				all.add(t, o, vals[s], s)
				winner = int(s)
			}
		}
		alone := &invocation{}
		if winner >= 0 {
			alone.add(t, o, vals[winner], source(winner))
			c := companions(o, vals[winner])
			all.args = append(all.args, c...)
			alone.args = append(alone.args, c...)
		}
		ra, rb := all.load(dir), alone.load(dir)
		hx.Eval()
		if !sameResult(ra, rb) {
			t.Fatalf("option %s set in %v (values %q): result differs from the highest source alone\nall:   %s\nalone: %s", o.name, present, vals, hx.Trunc(canon(ra), 2000), hx.Trunc(canon(rb), 2000))
		}
		n := 0
		for _, p := range present {
			if p {
				n++
			}
		}
		if n >= 3 {
			hx.NonTrivial(fmt.Sprintf("chain|%s|%v|%q", o.name, present, vals))
			hx.Class("three-or-more-sources")
		}
	})
}

// ---------------------------------------------------------------------------
// robustness: arbitrary environment blocks and properties files

func genEnvEntry(t *rapid.T, opts []option) string {
	switch rapid.IntRange(0, 9).Draw(t, "envkind") {
	case 0:
		return rapid.SampledFrom([]string{"NOEQUALS", "", "=", "=value", "==", "A", "FABIO_", "FABIO_PROXY_ADDR", "proxy_addr", "\x00", "\xff\xfe", "A\x00=B", "FABIO_=x"}).Draw(t, "odd")
	case 1:
		return rapid.StringMatching(`[ -~]{0,12}`).Draw(t, "junk")
	case 2, 3:
		o := rapid.SampledFrom(opts).Draw(t, "opt")
		return strings.ToUpper(strings.ReplaceAll(o.name, ".", "_")) + "=" + rapid.StringMatching(`[ -~]{0,10}`).Draw(t, "anyval")
	case 4:
		o := rapid.SampledFrom(opts).Draw(t, "opt")
		return "FABIO_" + strings.ToUpper(strings.ReplaceAll(o.name, ".", "_")) // known name without '='
	default:
		o := rapid.SampledFrom(opts).Draw(t, "opt")
		return "FABIO_" + envName(t, o.name) + "=" + genValue(t, o, "val")
	}
}

func TestC15RobustEnvironment(t *testing.T) {
	opts := loadOptions(t)
	dir := t.TempDir()
	hx.Check(t, hx.Scale(10000, 500000), func(t *rapid.T) {
		inv := &invocation{}
		n := rapid.IntRange(0, 8).Draw(t, "nenv")
		odd := false
		for i := 0; i < n; i++ {
			e := genEnvEntry(t, opts)
			if !strings.Contains(e, "=") {
				odd = true
			}
			inv.env = append(inv.env, e)
		}
		if rapid.IntRange(0, 3).Draw(t, "withfile") == 0 {
			var lines []string
			for i, k := 0, rapid.IntRange(0, 5).Draw(t, "nlines"); i < k; i++ {
				switch rapid.IntRange(0, 3).Draw(t, "linekind") {
				case 0:
					lines = append(lines, rapid.StringMatching(`[ -~]{0,30}`).Draw(t, "rawline"))
				case 1:
					lines = append(lines, rapid.SampledFrom([]string{"a = ${a}", "a = ${b}\nb = ${a}", "key = \\u00zz", "k = v \\", "= novalue", "# c", "! c", "\\", "a=${", "a=${}"}).Draw(t, "trick"))
				default:
					o := rapid.SampledFrom(opts).Draw(t, "opt")
					lines = append(lines, o.name+" = "+genValue(t, o, "fval"))
				}
			}
			inv.file = lines
			if inv.file == nil {
				inv.file = []string{}
			}
		}
		r := inv.load(dir)
		hx.Eval()
		if r.pan != nil {
			t.Fatalf("config.Load panicked: %v\nenv=%q\nfile=%q", r.pan, inv.env, inv.file)
		}
		if (r.cfg == nil) == (r.err == nil) {
			t.Fatalf("config.Load returned cfg=%v err=%v", r.cfg != nil, r.err)
		}
		if odd {
			hx.Class("env-entry-without-equals")
		}
		if r.err == nil {
			hx.Class("loaded")
		} else {
			hx.Class("error")
		}
		if n >= 2 {
			hx.NonTrivial(fmt.Sprintf("%q|%q", inv.env, inv.file))
		}
	})
}

// An accepted configuration never carries a glob cache size that cannot work.
func TestC15AcceptedGlobCacheSize(t *testing.T) {
	dir := t.TempDir()
	o := option{name: "glob.cache.size", typ: "Int"}
	hx.Check(t, hx.Scale(400, 20000), func(t *rapid.T) {
		v := rapid.SampledFrom([]string{"0", "-1", "-1000", "1", "2", "1000", "-2147483648", "5"}).Draw(t, "size")
		if rapid.IntRange(0, 3).Draw(t, "rnd") == 0 {
			v = fmt.Sprint(rapid.IntRange(-50, 50).Draw(t, "n"))
		}
		inv := &invocation{}
		inv.add(t, o, v, source(rapid.IntRange(0, 3).Draw(t, "src")))
		r := inv.load(dir)
		hx.Eval()
		if r.pan != nil {
			t.Fatalf("panic: %v", r.pan)
		}
		if r.err == nil && r.cfg.GlobCacheSize <= 0 {
			t.Fatalf("glob.cache.size=%s accepted (cfg.GlobCacheSize=%d): every request with a host pattern would panic", v, r.cfg.GlobCacheSize)
		}
		hx.NonTrivial("globsize|" + v + fmt.Sprint(inv.args, inv.env, inv.file))
	})
}

// Native fuzz targets (thorough tier).
func FuzzC15Properties(f *testing.F) {
	f.Add([]byte("proxy.addr = :1234\nproxy.strategy = rnd\n"))
	f.Add([]byte("a = ${a}\n"))
	f.Add([]byte("proxy.cs = cs=a;type=file;cert=/x\nproxy.addr = :1;cs=a\n"))
	dir := f.TempDir()
	f.Fuzz(func(t *testing.T, data []byte) {
		p := filepath.Join(dir, fmt.Sprintf("z%d.properties", atomic.AddInt64(&fileSeq, 1)))
		os.WriteFile(p, data, 0o600)
		defer os.Remove(p)
		func() {
			defer func() {
				if p := recover(); p != nil {
					t.Fatalf("config.Load panicked on properties file %q: %v", data, p)
				}
			}()
			cfg, err := config.Load([]string{"fabio", "-cfg", p}, []string{"A=b"})
			if (cfg == nil) == (err == nil) {
				t.Fatalf("cfg=%v err=%v", cfg != nil, err)
			}
		}()
		hx.Eval()
	})
}

func FuzzC15Environ(f *testing.F) {
	f.Add("FABIO_PROXY_ADDR=:1", "NOEQ", "x=")
	f.Add("proxy_cs=cs=a;type=file;cert=/x", "PROXY_ADDR=:1;cs=a", "=")
	f.Fuzz(func(t *testing.T, a, b, c string) {
		func() {
			defer func() {
				if p := recover(); p != nil {
					t.Fatalf("config.Load panicked on env %q: %v", []string{a, b, c}, p)
				}
			}()
			cfg, err := config.Load([]string{"fabio"}, []string{a, b, c})
			if (cfg == nil) == (err == nil) {
				t.Fatalf("cfg=%v err=%v", cfg != nil, err)
			}
		}()
		hx.Eval()
	})
}

// ---------------------------------------------------------------------------
// "over the default": what a Load without an option returns for it is the
// documented default, whatever earlier Loads in the same process were given
// (the admin UI and tests load configurations repeatedly)

var pristine = func() string {
	cfg, err := config.Load([]string{"fabio"}, []string{"PATH=/usr/bin"})
	return canon(result{cfg: cfg, err: err})
}()

func TestC15DefaultsSurviveEarlierLoads(t *testing.T) {
	opts := loadOptions(t)
	dir := t.TempDir()
	hx.Check(t, hx.Scale(400, 10000), func(t *rapid.T) {
		var hist []string
		for i, n := 0, rapid.IntRange(1, 4).Draw(t, "earlier-loads"); i < n; i++ {
			inv := &invocation{}
			for j, m := 0, rapid.IntRange(1, 4).Draw(t, "nopts"); j < m; j++ {
				o := rapid.SampledFrom(opts).Draw(t, "opt")
				if rapid.IntRange(0, 2).Draw(t, "listopt") == 0 {
					// the list-valued options
					for _, c := range opts {
						if c.name == rapid.SampledFrom([]string{"metrics.prometheus.buckets", "registry.consul.service.status", "bgp.listenaddresses"}).Draw(t, "listname") {
							o = c
						}
					}
				}
				v := genValue(t, o, "v")
				inv.add(t, o, v, rapid.SampledFrom([]source{srcCmdline, srcEnvFabio, srcEnvPlain, srcFile}).Draw(t, "src"))
				hist = append(hist, o.name+"="+v)
			}
			inv.load(dir)
			hx.Eval()
		}
		cfg, err := config.Load([]string{"fabio"}, []string{"PATH=/usr/bin"})
		hx.Eval()
		if got := canon(result{cfg: cfg, err: err}); got != pristine {
			t.Fatalf("a Load without any option no longer returns the defaults after earlier Loads in this process with %q\ngot:\n%s\nfirst Load of the process:\n%s", hist, hx.Trunc(got, 3000), hx.Trunc(pristine, 3000))
		}
		hx.NonTrivial(strings.Join(hist, ","))
		hx.Class("defaults-after-earlier-loads")
	})
}
