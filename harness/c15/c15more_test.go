package c15

import (
	"fmt"
	"net"
	"net/http"
	"net/http/httptest"
	"strconv"
	"strings"
	"testing"

	"github.com/fabiolb/fabio/config"
	"pgregory.net/rapid"

	"verifharness/hx"
)

// An accepted configuration can be run: the listener lists may be written with blanks around
// the separators (the usual style in a properties file or a shell script); every listener that
// Load returns then has an address that can be bound as it stands - the blanks never become a
// part of it - and there are as many listeners as were written.
func TestC15ListenerListWithBlanks(t *testing.T) {
	dir := t.TempDir()
	hx.Check(t, hx.Scale(1500, 40000), func(t *rapid.T) {
		opt := rapid.SampledFrom([]string{"proxy.addr", "ui.addr"}).Draw(t, "option")
		n := 1
		if opt == "proxy.addr" {
			n = rapid.IntRange(1, 4).Draw(t, "listeners")
		}
		blank := func(label string) string {
			return rapid.SampledFrom([]string{"", "", " ", "  ", "\t"}).Draw(t, label)
		}
		var items, addrs []string
		blanks := false
		for i := 0; i < n; i++ {
			addr := rapid.SampledFrom([]string{":%d", "127.0.0.1:%d", "[::1]:%d", "localhost:%d"}).Draw(t, "addr")
			addr = fmt.Sprintf(addr, 20000+i)
			addrs = append(addrs, addr)
			item := blank("before") + addr + blank("after")
			if opt == "proxy.addr" && rapid.Bool().Draw(t, "with-proto") {
				item += ";" + blank("beforekey") + "proto" + blank("afterkey") + "=" + rapid.SampledFrom([]string{"http", "tcp", "grpc"}).Draw(t, "proto")
			}
			if strings.ContainsAny(item, " \t") {
				blanks = true
			}
			items = append(items, item)
		}
		value := strings.Join(items, ",")
		src := rapid.SampledFrom([]string{"cmdline", "env", "file"}).Draw(t, "source")
		inv := &invocation{}
		switch src {
		case "cmdline":
			inv.args = []string{"-" + opt + "=" + value}
		case "env":
			inv.env = []string{"FABIO_" + strings.ToUpper(strings.ReplaceAll(opt, ".", "_")) + "=" + value}
		default:
			inv.file = []string{opt + " = " + value}
		}
		r := inv.load(dir)
		hx.Eval()
		if r.pan != nil {
			t.Fatalf("Load panicked: %v (%s=%q from %s)", r.pan, opt, value, src)
		}
		if r.err != nil {
			return // rejected: nothing to run
		}
		var got []string
		if opt == "ui.addr" {
			got = []string{r.cfg.UI.Listen.Addr}
		} else {
			for _, l := range r.cfg.Listen {
				got = append(got, l.Addr)
			}
		}
		if len(got) != n {
			t.Fatalf("%s=%q (from %s) was accepted with %d listeners %q, %d were written", opt, value, src, len(got), got, n)
		}
		for i, a := range got {
			host, port, err := net.SplitHostPort(a)
			if _, perr := strconv.Atoi(port); err != nil || perr != nil || strings.ContainsAny(host, " \t") || a != strings.TrimSpace(a) {
				t.Fatalf("%s=%q (from %s) was accepted, but listener %d has the address %q which cannot be bound (written: %q)", opt, value, src, i, a, addrs[i])
			}
		}
		if blanks {
			hx.Class("listener-list-with-blanks")
			hx.NonTrivial(fmt.Sprintf("blanks|%s|%s|%q", opt, src, value))
		}
	})
}

// The properties file may come from a URL.  When the download breaks off in the middle of the
// body (the connection dies after a part of the announced length), Load must not hand back a
// configuration made from the part that arrived as if it were the whole file.
func TestC15ConfigFromURLCutOff(t *testing.T) {
	hx.Check(t, hx.Scale(150, 2000), func(t *rapid.T) {
		port := rapid.IntRange(1000, 60000).Draw(t, "port")
		lines := []string{
			fmt.Sprintf("proxy.addr = :%d", port),
			"proxy.strategy = rr",
			"proxy.matcher = glob",
			fmt.Sprintf("proxy.noroutestatus = %d", rapid.SampledFrom([]int{404, 503, 418}).Draw(t, "status")),
			"registry.backend = static",
		}
		full := strings.Join(lines, "\n") + "\n"
		cutAt := rapid.IntRange(1, len(full)-1).Draw(t, "cut-at")
		cut := rapid.Bool().Draw(t, "connection-dies-mid-body")
		srv := httptest.NewServer(http.HandlerFunc(func(w http.ResponseWriter, r *http.Request) {
			if !cut {
				fmt.Fprint(w, full)
				return
			}
			w.Header().Set("Content-Length", strconv.Itoa(len(full)))
			w.WriteHeader(200)
			fmt.Fprint(w, full[:cutAt])
			w.(http.Flusher).Flush()
			if hj, ok := w.(http.Hijacker); ok {
				if c, _, err := hj.Hijack(); err == nil {
					c.Close()
				}
			}
		}))
		defer srv.Close()
		var cfg *config.Config
		var err error
		var pan any
		func() {
			defer func() { pan = recover() }()
			cfg, err = config.Load([]string{"fabio", "-cfg", srv.URL + "/fabio.properties"}, nil)
		}()
		hx.Eval()
		if pan != nil {
			t.Fatalf("Load panicked: %v", pan)
		}
		want := fmt.Sprintf(":%d", port)
		if !cut {
			if err != nil || cfg == nil || len(cfg.Listen) != 1 || cfg.Listen[0].Addr != want || cfg.Proxy.Matcher != "glob" {
				t.Fatalf("configuration from a URL: err=%v cfg=%v, want proxy.addr %s and matcher glob", err, cfg != nil, want)
			}
			hx.Class("config-from-url")
			return
		}
		if err == nil {
			got := "?"
			if cfg != nil && len(cfg.Listen) > 0 {
				got = cfg.Listen[0].Addr
			}
			t.Fatalf("the download of the properties file broke off after %d of %d bytes (%q), but Load returned a configuration without an error (proxy.addr %q, matcher %q; the file says %s and glob)", cutAt, len(full), full[:cutAt], got, cfg.Proxy.Matcher, want)
		}
		hx.Class("config-from-url-cut-off-mid-body")
		hx.NonTrivial(fmt.Sprintf("cfgurl|%d|%d", cutAt, port%7))
	})
}
