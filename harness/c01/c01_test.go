package c01

import (
	"fmt"
	"sort"
	"strings"
	"testing"

	"github.com/fabiolb/fabio/registry/consul"
	"github.com/hashicorp/consul/api"
	"pgregory.net/rapid"

	"verifharness/hx"
)

func TestMain(m *testing.M) { hx.Main(m) }

const prefix = "urlprefix-"

// ---------------------------------------------------------------------------
// Layer A: the health filter as a function of the check multiset

type instance struct {
	node, id, name string
	tagged         bool
	statuses       []string // one service check per entry
	svcMaint       string   // "" absent, else status of _service_maintenance:<id>
}

type nodeState struct {
	name      string
	serf      []string // statuses of serfHealth checks (absent / one / duplicated)
	maint     string   // "" absent, else status of _node_maintenance
	otherNode []string // statuses of other node-level checks
}

type world struct {
	nodes     []nodeState
	instances []instance
}

var allStatus = []string{"passing", "warning", "critical", "unknown", ""}

func genWorld(t *rapid.T) world {
	var w world
	nn := rapid.IntRange(1, 3).Draw(t, "nnodes")
	for n := 0; n < nn; n++ {
		ns := nodeState{name: fmt.Sprintf("node%d", n)}
		switch rapid.IntRange(0, 5).Draw(t, "serf") {
		case 0:
		case 1:
			ns.serf = []string{"critical"}
		case 2:
			ns.serf = []string{"passing", "passing"}
		case 3:
			ns.serf = []string{"passing", "critical"}
		default:
			ns.serf = []string{"passing"}
		}
		if rapid.IntRange(0, 5).Draw(t, "nodemaint") == 0 {
			ns.maint = "critical" // Consul registers the maintenance checks as critical
		}
		for i, k := 0, rapid.IntRange(0, 2).Draw(t, "nothernode"); i < k; i++ {
			ns.otherNode = append(ns.otherNode, rapid.SampledFrom(allStatus).Draw(t, "othernodestatus"))
		}
		w.nodes = append(w.nodes, ns)
		ni := rapid.IntRange(0, 4).Draw(t, "ninst")
		for i := 0; i < ni; i++ {
			in := instance{node: ns.name, id: fmt.Sprintf("svc%d-%d", i%2, i), name: fmt.Sprintf("svc%d", i%2), tagged: rapid.IntRange(0, 4).Draw(t, "tagged") > 0}
			if rapid.IntRange(0, 6).Draw(t, "sharedid") == 0 && n > 0 {
				in.id = "svc0-0" // the same service id on another node: ids are only unique per agent
			}
			for c, k := 0, rapid.IntRange(0, 4).Draw(t, "nchecks"); c < k; c++ {
				in.statuses = append(in.statuses, rapid.SampledFrom(allStatus).Draw(t, "status"))
			}
			if rapid.IntRange(0, 5).Draw(t, "svcmaint") == 0 {
				in.svcMaint = "critical"
			}
			w.instances = append(w.instances, in)
		}
	}
	// ids must be unique per node
	seen := map[string]bool{}
	var keep []instance
	for _, in := range w.instances {
		k := in.node + "/" + in.id
		if !seen[k] {
			seen[k] = true
			keep = append(keep, in)
		}
	}
	w.instances = keep
	return w
}

func (w world) checks(t *rapid.T) api.HealthChecks {
	var out api.HealthChecks
	for _, n := range w.nodes {
		for _, s := range n.serf {
			out = append(out, &api.HealthCheck{Node: n.name, CheckID: "serfHealth", Name: "Serf Health Status", Status: s})
		}
		if n.maint != "" {
			out = append(out, &api.HealthCheck{Node: n.name, CheckID: "_node_maintenance", Name: "Node Maintenance Mode", Status: n.maint})
		}
		for i, s := range n.otherNode {
			out = append(out, &api.HealthCheck{Node: n.name, CheckID: fmt.Sprintf("disk-%d", i), Status: s})
		}
	}
	for _, in := range w.instances {
		tags := []string{"v1"}
		if in.tagged {
			tags = []string{"v1", prefix + "/" + in.name, "other"}
		}
		for c, s := range in.statuses {
			out = append(out, &api.HealthCheck{Node: in.node, CheckID: fmt.Sprintf("service:%s:%d", in.id, c), ServiceID: in.id, ServiceName: in.name, ServiceTags: tags, Status: s})
		}
		if in.svcMaint != "" {
			out = append(out, &api.HealthCheck{Node: in.node, CheckID: "_service_maintenance:" + in.id, ServiceID: in.id, ServiceName: in.name, ServiceTags: tags, Status: in.svcMaint})
		}
	}
	perm := rapid.Permutation(out).Draw(t, "order")
	return perm
}

// healthy is the reference predicate, written from the property statement.
func (w world) healthy(in instance, accepted []string, strict bool) (bool, string) {
	if !in.tagged {
		return false, "untagged"
	}
	if len(in.statuses) == 0 {
		return false, "no-service-check"
	}
	var node nodeState
	for _, n := range w.nodes {
		if n.name == in.node {
			node = n
		}
	}
	for _, s := range node.serf {
		if s == "critical" {
			return false, "agent-down"
		}
	}
	if node.maint != "" {
		return false, "node-maintenance"
	}
	if in.svcMaint == "critical" {
		return false, "service-maintenance"
	}
	ok := func(s string) bool {
		for _, a := range accepted {
			if a == s {
				return true
			}
		}
		return false
	}
	n := countOK(in.statuses, ok)
	if n == 0 {
		return false, "no-accepted-check"
	}
	if strict && n != len(in.statuses) {
		return false, "strict-not-all"
	}
	return true, "healthy"
}

func countOK(ss []string, ok func(string) bool) int {
	n := 0
	for _, s := range ss {
		if ok(s) {
			n++
		}
	}
	return n
}

func TestC01HealthFilter(t *testing.T) {
	hx.Check(t, hx.Scale(20000, 500000), func(t *rapid.T) {
		w := genWorld(t)
		var accepted []string
		for _, s := range []string{"passing", "warning", "critical", "unknown"} {
			if rapid.Bool().Draw(t, "accept-"+s) {
				accepted = append(accepted, s)
			}
		}
		if len(accepted) == 0 {
			accepted = []string{"passing"}
		}
		strict := rapid.Bool().Draw(t, "strict")
		checks := w.checks(t)
		got := consul.VerifPassingServices(prefix, checks, accepted, strict)
		hx.Eval()
		gotSet := map[string]bool{}
		for _, c := range got {
			gotSet[c.Node+"/"+c.ServiceID] = true
		}
		reasons := map[string]bool{}
		var desc []string
		for _, in := range w.instances {
			want, why := w.healthy(in, accepted, strict)
			reasons[why] = true
			k := in.node + "/" + in.id
			desc = append(desc, fmt.Sprintf("%s tagged=%v checks=%q svcmaint=%q -> %s", k, in.tagged, in.statuses, in.svcMaint, why))
			if want != gotSet[k] {
				sort.Strings(desc)
				t.Fatalf("instance %s: in the passing set = %v, reference says %v (%s)\naccepted=%v strict=%v\nnodes: %+v\ninstances so far:\n%s", k, gotSet[k], want, why, accepted, strict, w.nodes, strings.Join(desc, "\n"))
			}
			delete(gotSet, k)
		}
		if len(gotSet) != 0 {
			t.Fatalf("passing set contains instances that do not exist: %v", gotSet)
		}
		for r := range reasons {
			hx.Class("reason:" + r)
		}
		delete(reasons, "healthy")
		delete(reasons, "no-accepted-check")
		if len(w.instances) >= 2 && len(reasons) >= 1 {
			hx.NonTrivial(fmt.Sprintf("%+v|%v|%v", w, accepted, strict))
			hx.Class("nontrivial")
		}
		if hx.WantSample("filter") && len(w.instances) >= 3 && len(reasons) >= 2 {
			hx.Sample("filter", map[string]any{"accepted": accepted, "strict": strict, "instances": desc})
		}
	})
}
