package main

import (
	"testing"

	"verifharness/hx"
)

func TestMain(m *testing.M) { hx.Main(m) }
