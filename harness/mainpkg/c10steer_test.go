package main

import (
	"bytes"
	"context"
	"crypto/tls"
	"fmt"
	"io"
	"net"
	"net/http"
	"strings"
	"sync/atomic"
	"testing"
	"time"

	"github.com/fabiolb/fabio/config"
	"github.com/fabiolb/fabio/metrics"
	"github.com/fabiolb/fabio/proxy"
	"github.com/fabiolb/fabio/proxy/tcp"
	"github.com/fabiolb/fabio/route"
	"pgregory.net/rapid"

	"verifharness/hx"
)

// TestC10SNISteeringFollowsTheTable: on an https+tcp+sni listener (wired the way main.go wires
// it) every connection is steered by the server name in ITS hello and the table as it is at
// that moment: a name that has a tcp route is tunnelled, the same name is served by the HTTPS
// side once the route has gone, and tunnelled again when it is back.
func TestC10SNISteeringFollowsTheTable(t *testing.T) {
	var tunnelled int64
	up, err := hx.Listen("tcp", "127.0.0.1:0")
	if err != nil {
		t.Fatalf("VERIF-INCONCLUSIVE %v", err)
	}
	defer up.Close()
	go func() {
		for {
			c, err := up.Accept()
			if err != nil {
				return
			}
			atomic.AddInt64(&tunnelled, 1)
			go func() {
				c.SetDeadline(time.Now().Add(5 * time.Second))
				buf := make([]byte, 4096)
				c.Read(buf)
				io.WriteString(c, "TUNNEL-UPSTREAM")
				c.Close()
			}()
		}
	}()
	cfg, err := config.Load([]string{"fabio"}, nil)
	if err != nil {
		t.Fatal(err)
	}
	cert := selfSigned()
	dp := metrics.DiscardProvider{}
	hx.Check(t, hx.Scale(8, 80), func(t *rapid.T) {
		addr := freeAddr()
		l := config.Listen{Addr: addr, Proto: "https+tcp+sni"}
		cache := route.NewGlobCache(10)
		httpHandler := &proxy.HTTPProxy{
			Config:    cfg.Proxy,
			Transport: &http.Transport{DisableKeepAlives: true},
			Lookup: func(r *http.Request) *route.Target {
				return route.GetTable().Lookup(r, "", route.Picker["rr"], route.Matcher["prefix"], cache, false)
			},
		}
		route.SetTable(make(route.Table))
		done := make(chan struct{})
		go func() {
			defer close(done)
			tlscfg := &tls.Config{Certificates: []tls.Certificate{cert}}
			proxy.ListenAndServeHTTPSTCPSNI(l, httpHandler, &tcp.SNIProxy{Lookup: flexAs[func(string) *route.Target](lookupHostFn, cfg, dp.NewCounter("nf")), DialTimeout: time.Second}, tlscfg, flexAs[func(context.Context, string) bool](lookupHostMatcher, cfg))
		}()
		if !waitListening(addr) {
			t.Fatalf("VERIF-INCONCLUSIVE listener did not come up")
		}
		defer func() {
			proxy.Shutdown(100 * time.Millisecond)
			<-done
		}()
		time.Sleep(100 * time.Millisecond) // the readiness probe has been dealt with
		names := []string{"a.sni.example", "b.sni.example"}
		routeOpts := rapid.SampledFrom([]string{"", ` opts "pxyproto=false"`, ` opts "allow=ip:0.0.0.0/0,ip:::/0"`, ` opts "proto=tcp"`, ` tags "a,b"`, ` opts "proto=tcp pxyproto=false"`}).Draw(t, "route-options")
		has := map[string]bool{}
		var hist []string
		for i, n := 0, rapid.IntRange(3, 8).Draw(t, "steps"); i < n; i++ {
			// the table changes: a name gets its tcp route, or loses it
			name := rapid.SampledFrom(names).Draw(t, "name")
			if rapid.Bool().Draw(t, "toggle-route") || i == 0 {
				has[name] = !has[name]
			}
			var text strings.Builder
			for _, nm := range names {
				if has[nm] {
					// (options on the route, or none: it is the tcp:// destination that makes it a tcp route)
					fmt.Fprintf(&text, "route add svc-%s %s/ tcp://%s%s\n", nm[:1], nm, up.Addr(), routeOpts)
				}
			}
			tbl, err := route.NewTable(bytes.NewBufferString(text.String()))
			if err != nil {
				t.Fatal(err)
			}
			route.SetTable(tbl)
			// a connection for a name
			ask := rapid.SampledFrom(names).Draw(t, "ask")
			before := atomic.LoadInt64(&tunnelled)
			c, err := net.DialTimeout("tcp", addr, 2*time.Second)
			if err != nil {
				t.Fatalf("VERIF-INCONCLUSIVE dial: %v", err)
			}
			c.SetDeadline(time.Now().Add(3 * time.Second))
			c.Write(c18Hello(ask))
			reply, _ := io.ReadAll(io.LimitReader(c, 64))
			c.Close()
			hx.Eval()
			got := atomic.LoadInt64(&tunnelled) - before
			hist = append(hist, fmt.Sprintf("table: %q; hello for %s -> tunnelled=%v", strings.ReplaceAll(strings.TrimSpace(text.String()), "\n", " ; "), ask, got == 1))
			if has[ask] {
				if got != 1 || !bytes.Contains(reply, []byte("TUNNEL-UPSTREAM")) {
					t.Fatalf("the table has a tcp route for %s, but the connection was not tunnelled to its target (upstream connections: %d, reply %q)\n%s", ask, got, reply, strings.Join(hist, "\n"))
				}
			} else if got != 0 || bytes.Contains(reply, []byte("TUNNEL-UPSTREAM")) {
				t.Fatalf("the table has no tcp route for %s (any more), but the connection was tunnelled\n%s", ask, strings.Join(hist, "\n"))
			}
		}
		hx.NonTrivial(strings.Join(hist, "|"))
		hx.Class("sni-steering-follows-the-table")
	})
}
