package main

import (
	"bytes"
	"fmt"
	"net/http"
	"net/http/httptest"
	"sync"
	"testing"

	"github.com/fabiolb/fabio/config"
	"github.com/fabiolb/fabio/metrics"
	"github.com/fabiolb/fabio/proxy"
	"github.com/fabiolb/fabio/route"
	"pgregory.net/rapid"

	"verifharness/hx"
)

// Through the proxy main.go builds (newHTTPProxy: its Lookup closure and the handler in front of
// it): whatever legal form the client's Host header has - underscores, a label that starts with
// a hyphen, a trailing dot, upper case, a port - the request is routed (to the host route when
// one matches, else to the host-less one) and the upstream is told the Host the client sent.
func TestC03MainWiringHostForms(t *testing.T) { hostForms(t) }
func TestC07MainWiringHostForms(t *testing.T) { hostForms(t) }

func hostForms(t *testing.T) {
	var mu sync.Mutex
	var seenHost, seenVia, seenXFH string
	up := httptest.NewServer(http.HandlerFunc(func(w http.ResponseWriter, r *http.Request) {
		mu.Lock()
		seenHost, seenVia, seenXFH = r.Host, r.URL.Query().Get("via"), r.Header.Get("X-Forwarded-Host")
		mu.Unlock()
		fmt.Fprint(w, "ok")
	}))
	defer up.Close()
	cfg, err := config.Load([]string{"fabio"}, nil)
	if err != nil {
		t.Fatal(err)
	}
	hx.Check(t, hx.Scale(200, 3000), func(t *rapid.T) {
		text := fmt.Sprintf("route add byhost example.com/ %s/?via=host\nroute add under my_app.internal/ %s/?via=host\nroute add fallback / %s/?via=fallback\n", up.URL, up.URL, up.URL)
		tbl, err := route.NewTable(bytes.NewBufferString(text))
		if err != nil {
			t.Fatal(err)
		}
		route.SetTable(tbl)
		h := flexAs[*proxy.HTTPProxy](newHTTPProxy, cfg, &proxy.HttpStatsHandler{Noroute: metrics.DiscardProvider{}.NewCounter("x")}, firstListen(cfg))
		type hf struct{ host, via string }
		c := rapid.SampledFrom([]hf{
			{"example.com", "host"}, {"EXAMPLE.com", "host"}, {"example.com:80", "host"},
			{"example.com.", "fallback"}, {"example.com.:8080", "fallback"}, {"example.com:8080", "fallback"},
			{"my_app.internal", "host"}, {"other_app.internal", "fallback"}, {"-x.example", "fallback"}, {"x-.example:81", "fallback"},
			{"xn--bcher-kva.example", "fallback"}, {"a..b", "fallback"}, {"localhost", "fallback"}, {"[::1]:8080", "fallback"}, {"10.0.0.1", "fallback"},
		}).Draw(t, "host-as-the-client-sends-it")
		req := httptest.NewRequest("GET", "/x", nil)
		req.Host = c.host
		req.RemoteAddr = "192.0.2.1:999"
		rec := httptest.NewRecorder()
		mu.Lock()
		seenHost, seenVia, seenXFH = "", "", ""
		mu.Unlock()
		h.ServeHTTP(rec, req)
		hx.Eval()
		mu.Lock()
		gotHost, gotVia, gotXFH := seenHost, seenVia, seenXFH
		mu.Unlock()
		if rec.Code != 200 {
			t.Fatalf("request with Host %q answered %d; it has a route (%s)\n%s", c.host, rec.Code, c.via, text)
		}
		// (a trailing dot: fabio compares host names as written; either route is a route)
		if gotVia != c.via && !(c.via == "fallback" && (c.host == "example.com." || c.host == "example.com.:8080")) {
			t.Fatalf("request with Host %q was routed via the %s route, want the %s route\n%s", c.host, gotVia, c.via, text)
		}
		if gotHost != c.host {
			t.Fatalf("the client sent Host %q; the upstream (route without host= option) saw Host %q", c.host, gotHost)
		}
		if gotXFH != c.host {
			t.Fatalf("the client asked for host %q; X-Forwarded-Host says %q", c.host, gotXFH)
		}
		hx.Class("host-form-through-main-wiring")
		hx.NonTrivial("hostform|" + c.host)
	})
}
