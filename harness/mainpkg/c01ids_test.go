package main

import (
	"fmt"
	"strings"
	"testing"

	"pgregory.net/rapid"

	"verifharness/fakeconsul"
	"verifharness/hx"
)

// Two instances on one node whose ids start alike (web / web-canary, web-1 / web-10): maintenance
// mode, a failing check or the removal of one of them concerns that instance only; the other one
// keeps (or gets back) exactly the routes its own tags ask for.
func siblingIDs(t *rapid.T, p *pipeline) {
	fc := p.fc
	w := newWorld()
	h0, k0 := fc.Served()
	fc.Reset()
	var hist []string
	check := func(op string) {
		hist = append(hist, op)
		want := p.expected(w)
		d, quiet := p.settle(want, h0, k0)
		h0, k0 = fc.Served()
		hx.Eval()
		if d != "" {
			if !quiet {
				t.Fatalf("VERIF-INCONCLUSIVE watchers did not reach the registry's current state within the time limit after: %s", op)
			}
			t.Fatalf("after the registry stopped changing the active table differs from the healthy, tagged instances\n%s\nrule: accepted=%v strict=%v poll=%v\nhistory:\n%s", d, p.accepted, p.strict, p.poll, strings.Join(hist, "\n"))
		}
	}
	pair := rapid.SampledFrom([][2]string{{"web", "web-canary"}, {"web-1", "web-10"}, {"api", "api2"}, {"db-a", "db-a-replica"}}).Draw(t, "ids")
	sameName := rapid.Bool().Draw(t, "same-service-name")
	var ins [2]*fakeconsul.Instance
	for i, id := range pair {
		name := id
		if sameName {
			name = pair[0]
		}
		ins[i] = &fakeconsul.Instance{Node: "node1", NodeAddr: "10.0.1.1", ID: id, Name: name, Addr: fmt.Sprintf("10.5.5.%d", 5+i), Port: 1000 + i,
			Tags: []string{[]string{"urlprefix-/a", "urlprefix-/b"}[i], "v1"}, Checks: []string{"passing"}}
		w.ensureNode(fc, ins[i])
		w.inst["node1/"+id] = ins[i]
		fc.SetInstance(*ins[i])
	}
	check(fmt.Sprintf("instances %q and %q registered on node1, both passing", pair[0], pair[1]))
	maint := 0
	for i, n := 0, rapid.IntRange(2, 5).Draw(t, "steps"); i < n; i++ {
		k := rapid.IntRange(0, 1).Draw(t, "which")
		in := ins[k]
		what := rapid.IntRange(0, 3).Draw(t, "what")
		if _, registered := w.inst["node1/"+in.ID]; !registered {
			what = 3 // it is gone: it can only come back
		}
		switch what {
		case 0, 1:
			in.Maintenance = !in.Maintenance
			fc.SetInstance(*in)
			maint++
			check(fmt.Sprintf("service maintenance of %s -> %v", in.ID, in.Maintenance))
		case 2:
			if in.Checks[0] == "passing" {
				in.Checks[0] = "critical"
			} else {
				in.Checks[0] = "passing"
			}
			fc.SetInstance(*in)
			check(fmt.Sprintf("check of %s -> %s", in.ID, in.Checks[0]))
		default:
			if _, ok := w.inst["node1/"+in.ID]; ok {
				delete(w.inst, "node1/"+in.ID)
				fc.RemoveInstance(in.Node, in.ID)
				check("deregistered " + in.ID)
			} else {
				w.inst["node1/"+in.ID] = in
				fc.SetInstance(*in)
				check("registered " + in.ID + " again")
			}
		}
	}
	hx.Class("two-instances-whose-ids-start-alike")
	if maint > 0 {
		hx.Class("maintenance-of-an-instance-whose-id-extends-or-is-extended-by-another")
	}
	hx.NonTrivial("sibling-ids|" + strings.Join(hist, "|"))
}

func TestC01SiblingIDs(t *testing.T) {
	p := startPipeline(t)
	hx.Check(t, hx.Scale(6, 80), func(t *rapid.T) { siblingIDs(t, p) })
}

func TestC14SiblingIDs(t *testing.T) {
	p := startPipeline(t)
	hx.Check(t, hx.Scale(6, 80), func(t *rapid.T) { siblingIDs(t, p) })
}
