package main

import (
	"fmt"
	"testing"
	"time"

	"github.com/fabiolb/fabio/config"
	"github.com/fabiolb/fabio/registry/consul"
	"pgregory.net/rapid"

	"verifharness/fakeconsul"
	"verifharness/hx"
)

// The first thing fabio's exit handler does is registry.Default.DeregisterAll();
// proxy.Shutdown comes after it.  Whatever history of alias registrations the
// update loop produced (routes with register=<alias> appearing and leaving),
// that call returns: otherwise shutdown never begins.
func TestC18DeregisterAllAfterAliasHistory(t *testing.T) { aliasHistory(t) }

// C14: a registration detail that cannot be honoured (an alias the agent refuses to register) never
// keeps the update loop from going on: Register, which the loop calls for every table, returns.
func TestC14AliasRegistrationNeverBlocksUpdates(t *testing.T) { aliasHistory(t) }

func aliasHistory(t *testing.T) {
	fc := fakeconsul.New()
	hx.Check(t, hx.Scale(30, 400), func(t *rapid.T) {
		cfg := &config.Consul{Addr: fc.Addr(), Scheme: "http", KVPath: "/fabio/config", NoRouteHTMLPath: "/fabio/noroute.html", TagPrefix: "urlprefix-",
			ServiceAddr: "127.0.0.1:9998", ServiceName: "fabio", CheckScheme: "http", CheckInterval: time.Second, CheckTimeout: time.Second,
			Register: rapid.Bool().Draw(t, "registry.consul.register.enabled")}
		refused := rapid.IntRange(0, 2).Draw(t, "agent-refuses-registrations") == 0
		fc.SetAgentRefuses(refused)
		if refused {
			hx.Class("alias-history:agent-refuses-registrations")
		}
		// ... or answers deregistrations with an error (it is going down together with fabio)
		deregFails := rapid.IntRange(0, 2).Draw(t, "agent-fails-deregistrations") == 0
		fc.SetAgentRefusesDeregister(deregFails)
		if deregFails {
			hx.Class("alias-history:agent-fails-deregistrations")
		}
		be, err := consul.NewBackend(cfg)
		if err != nil {
			t.Fatalf("VERIF-INCONCLUSIVE backend: %v", err)
		}
		within := func(what string, d time.Duration, fn func()) {
			done := make(chan struct{})
			go func() { fn(); close(done) }()
			select {
			case <-done:
			case <-time.After(d):
				t.Fatalf("%s did not return within %v", what, d)
			}
		}
		var hist []string
		for i, n := 0, rapid.IntRange(1, 6).Draw(t, "updates"); i < n; i++ {
			aliases := rapid.SliceOfNDistinct(rapid.SampledFrom([]string{"alias-a", "alias-b", "alias-c"}), 0, 3, func(s string) string { return s }).Draw(t, "aliases")
			hist = append(hist, fmt.Sprint(aliases))
			within(fmt.Sprintf("Register(%v) after the history %v", aliases, hist), 5*time.Second, func() { be.Register(aliases) })
			hx.Eval()
		}
		within(fmt.Sprintf("DeregisterAll() - the first step of fabio's exit handler - after the alias history %v", hist), 5*time.Second, func() { be.DeregisterAll() })
		hx.Eval()
		hx.NonTrivial(fmt.Sprint(hist, cfg.Register))
		hx.Class("deregister-all-after-alias-history")
	})
}
