package main

import (
	"bytes"
	"context"
	"crypto/tls"
	"fmt"
	"testing"
	"time"

	"github.com/fabiolb/fabio/config"
	"github.com/fabiolb/fabio/metrics"
	"github.com/fabiolb/fabio/proxy"
	"github.com/fabiolb/fabio/route"
	"google.golang.org/grpc"
	"google.golang.org/grpc/credentials"
	"google.golang.org/grpc/credentials/insecure"
	"pgregory.net/rapid"

	"verifharness/hx"
)

// TestC16TwoListeners: fabio started by main.go's startServers with a plain (proto=grpc) and a
// TLS (proto=grpcs) gRPC listener side by side, in either order in proxy.addr, and a table with
// a plain and a TLS backend.  A call is forwarded to the backend of its route whatever other
// listeners the process has: a call that arrives on the plain listener reaches the plain
// backend, a call that arrives on the TLS listener reaches the TLS backend (and the plain one).
func TestC16TwoListeners(t *testing.T) {
	dir := t.TempDir()
	if err := writeCertPair(dir, "a0", "localhost"); err != nil {
		t.Fatal(err)
	}
	echo := func(name string) grpc.StreamHandler {
		return func(_ any, st grpc.ServerStream) error {
			var b []byte
			if err := st.RecvMsg(&b); err != nil {
				return err
			}
			out := append([]byte{0x0a, byte(len(name))}, name...)
			return st.SendMsg(&out)
		}
	}
	plainLn, err := hx.Listen("tcp", "127.0.0.1:0")
	if err != nil {
		t.Fatalf("VERIF-INCONCLUSIVE %v", err)
	}
	plainBackend := grpc.NewServer(grpc.ForceServerCodec(rawCodec{}), grpc.UnknownServiceHandler(echo("plain")))
	go plainBackend.Serve(plainLn)
	defer plainBackend.Stop()
	tlsLn, err := hx.Listen("tcp", "127.0.0.1:0")
	if err != nil {
		t.Fatalf("VERIF-INCONCLUSIVE %v", err)
	}
	cert := selfSigned()
	tlsBackend := grpc.NewServer(grpc.Creds(credentials.NewTLS(&tls.Config{Certificates: []tls.Certificate{cert}})), grpc.ForceServerCodec(rawCodec{}), grpc.UnknownServiceHandler(echo("tls")))
	go tlsBackend.Serve(tlsLn)
	defer tlsBackend.Stop()

	hx.Check(t, hx.Scale(4, 30), func(t *rapid.T) {
		plainAddr, tlsAddr := freeAddr(), freeAddr()
		listeners := []string{plainAddr + ";proto=grpc", tlsAddr + ";proto=grpcs;cs=certs"}
		plainFirst := rapid.Bool().Draw(t, "plain-listener-first")
		if !plainFirst {
			listeners[0], listeners[1] = listeners[1], listeners[0]
		}
		args := []string{"fabio", "-proxy.cs", "cs=certs;type=path;cert=" + dir, "-proxy.addr", listeners[0] + "," + listeners[1], "-ui.addr", freeAddr(), "-proxy.strategy", "rr"}
		cfg, err := config.Load(args, nil)
		if err != nil {
			t.Fatalf("config rejected: %v %q", err, args)
		}
		text := fmt.Sprintf("route add p /two.Plain/ grpc://%s opts \"proto=grpc\"\nroute add s /two.Secure/ grpcs://%s opts \"proto=grpc tlsskipverify=true\"\n", plainLn.Addr(), tlsLn.Addr())
		tbl, err := route.NewTable(bytes.NewBufferString(text))
		if err != nil {
			t.Fatal(err)
		}
		route.SetTable(tbl)
		flex(startServers, cfg, metrics.Provider(metrics.DiscardProvider{}))
		defer proxy.Shutdown(50 * time.Millisecond)
		if !waitListening(plainAddr) || !waitListening(tlsAddr) {
			t.Fatalf("VERIF-INCONCLUSIVE listeners did not come up")
		}
		call := func(addr string, creds credentials.TransportCredentials, method string) (string, error) {
			conn, err := grpc.NewClient(addr, grpc.WithTransportCredentials(creds), grpc.WithDefaultCallOptions(grpc.ForceCodec(rawCodec{})))
			if err != nil {
				return "", err
			}
			defer conn.Close()
			ctx, cancel := context.WithTimeout(context.Background(), 10*time.Second)
			defer cancel()
			var req, resp []byte
			req = []byte{0x0a, 0x02, 'h', 'i'}
			err = conn.Invoke(ctx, method, &req, &resp, grpc.WaitForReady(true))
			if len(resp) > 2 {
				return string(resp[2:]), err
			}
			return "", err
		}
		type step struct {
			viaTLS bool
			method string
			want   string
		}
		all := []step{{false, "/two.Plain/M", "plain"}, {true, "/two.Secure/M", "tls"}, {true, "/two.Plain/M", "plain"}}
		order := rapid.Permutation(all).Draw(t, "calls")
		for _, st := range order {
			addr, creds := plainAddr, insecure.NewCredentials()
			if st.viaTLS {
				addr, creds = tlsAddr, credentials.NewTLS(&tls.Config{InsecureSkipVerify: true})
			}
			got, err := call(addr, creds, st.method)
			hx.Eval()
			if err != nil || got != st.want {
				t.Fatalf("proxy.addr=%q: the call %s that arrived on the %s listener was answered %q, %v; want the answer of the %s backend\n%s", listeners, st.method, map[bool]string{false: "plain", true: "TLS"}[st.viaTLS], got, err, st.want, text)
			}
		}
		hx.Class(fmt.Sprintf("two-grpc-listeners:plain-first=%v", plainFirst))
		hx.NonTrivial(fmt.Sprintf("two|%v|%v", plainFirst, order))
	})
}
