package main

import (
	"bytes"
	"fmt"
	"net/http"
	"net/http/httptest"
	"testing"

	"github.com/fabiolb/fabio/config"
	"github.com/fabiolb/fabio/metrics"
	"github.com/fabiolb/fabio/proxy"
	"github.com/fabiolb/fabio/route"
	"pgregory.net/rapid"

	"verifharness/hx"
)

// TestC03MainWiring: the matcher, strategy and host-glob options an operator
// gives on the command line are the ones requests are routed with: the lookup
// function of the proxy main.go builds answers like Table.Lookup called with
// exactly those options.
func TestC03MainWiring(t *testing.T) {
	hx.Check(t, hx.Scale(300, 5000), func(t *rapid.T) {
		matcher := rapid.SampledFrom([]string{"prefix", "glob", "iprefix"}).Draw(t, "proxy.matcher")
		globOff := rapid.Bool().Draw(t, "glob.matching.disabled")
		args := []string{"fabio", "-proxy.matcher", matcher, "-proxy.strategy", "rr", fmt.Sprintf("-glob.matching.disabled=%v", globOff)}
		// the size of the cache of compiled host patterns: whatever value start-up accepts must route
		size := rapid.SampledFrom([]string{"", "", "1", "2", "1000", "0", "-1"}).Draw(t, "glob.cache.size")
		if size != "" {
			args = append(args, "-glob.cache.size="+size)
		}
		cfg, err := config.Load(args, nil)
		if err != nil {
			if size == "0" || size == "-1" {
				hx.Class("main-wiring:unusable-glob-cache-size-refused-at-start-up")
				return
			}
			t.Fatalf("config rejected: %v %q", err, args)
		}
		if size != "" {
			hx.Class("main-wiring:glob.cache.size=" + size)
		}
		var text bytes.Buffer
		paths := map[string][]string{
			"prefix":  {"/", "/api", "/api/v1", "/Shop"},
			"iprefix": {"/", "/Api", "/api/V1", "/SHOP"},
			"glob":    {"/**", "/api/*", "/*/v1/**", "/shop/??"},
		}[matcher]
		hosts := []string{"", "foo.com", "*.foo.com", "bar.org"}
		i := 0
		for _, h := range hosts {
			for _, p := range paths {
				if rapid.IntRange(0, 2).Draw(t, "have") > 0 {
					i++
					fmt.Fprintf(&text, "route add s%d %s%s http://t%d:80/\n", i, h, p, i)
				}
			}
		}
		if i == 0 {
			text.WriteString("route add s0 / http://t0:80/\n")
		}
		tbl, err := route.NewTable(bytes.NewBufferString(text.String()))
		if err != nil {
			t.Fatalf("%v\n%s", err, text.String())
		}
		route.SetTable(tbl)
		h := flexAs[*proxy.HTTPProxy](newHTTPProxy, cfg, &proxy.HttpStatsHandler{Noroute: metrics.DiscardProvider{}.NewCounter("x")}, firstListen(cfg))
		ref := route.NewGlobCache(1000)
		for k, n := 0, rapid.IntRange(1, 8).Draw(t, "requests"); k < n; k++ {
			host := rapid.SampledFrom([]string{"foo.com", "a.foo.com", "FOO.com", "bar.org", "other.net", "foo.com:80"}).Draw(t, "host")
			path := rapid.SampledFrom([]string{"/", "/api", "/api/v1/x", "/API/V1", "/shop/ab", "/Shop/cart", "/x/v1/y", "/nothing"}).Draw(t, "path")
			mk := func() *http.Request {
				r := httptest.NewRequest("GET", "http://"+host+path, nil)
				r.Host = host
				return r
			}
			got := h.Lookup(mk())
			want := tbl.Lookup(mk(), "", route.Picker["rr"], route.Matcher[matcher], ref, globOff)
			hx.Eval()
			g, w := "<no route>", "<no route>"
			if got != nil {
				g = got.URL.Host
			}
			if want != nil {
				w = want.URL.Host
			}
			if g != w {
				t.Fatalf("options %q: request %s%s is routed to %s by the proxy main.go builds; Table.Lookup with matcher %s and host globbing disabled=%v gives %s\n%s", args[1:], host, path, g, matcher, globOff, w, text.String())
			}
		}
		hx.NonTrivial(fmt.Sprintf("main-matcher|%s|%v|%s", matcher, globOff, text.String()))
		hx.Class("main-wiring:matcher=" + matcher)
	})
}
