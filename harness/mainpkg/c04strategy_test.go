package main

import (
	"bytes"
	"fmt"
	"net/http"
	"net/http/httptest"
	"sync/atomic"
	"testing"

	"github.com/fabiolb/fabio/config"
	"github.com/fabiolb/fabio/metrics"
	"github.com/fabiolb/fabio/proxy"
	"github.com/fabiolb/fabio/route"
	"pgregory.net/rapid"

	"verifharness/hx"
)

// TestC04StrategyOption: whatever spelling of proxy.strategy Load accepts, the proxy main.go builds
// from the configuration splits the traffic of a route with several targets: with rr every target
// gets its exact share over whole cycles, with rnd every target gets some; nothing panics.
func TestC04StrategyOption(t *testing.T) {
	var hits [3]int64
	var ups []*httptest.Server
	for i := range hits {
		i := i
		ups = append(ups, httptest.NewServer(http.HandlerFunc(func(w http.ResponseWriter, r *http.Request) {
			atomic.AddInt64(&hits[i], 1)
			fmt.Fprint(w, "ok")
		})))
		defer ups[i].Close()
	}
	hx.Check(t, hx.Scale(60, 600), func(t *rapid.T) {
		spelled := rapid.SampledFrom([]string{"rr", "rnd", "RR", "Rr", "RND", "Rnd", "rR", "random", "roundrobin"}).Draw(t, "proxy.strategy")
		src := rapid.SampledFrom([]string{"cmdline", "env"}).Draw(t, "source")
		args, env := []string{"fabio"}, []string(nil)
		if src == "cmdline" {
			args = append(args, "-proxy.strategy", spelled)
		} else {
			env = []string{"FABIO_PROXY_STRATEGY=" + spelled}
		}
		cfg, err := config.Load(args, env)
		hx.Eval()
		if err != nil {
			hx.Class("strategy-rejected-by-load")
			return
		}
		n := rapid.IntRange(2, 3).Draw(t, "targets")
		var text bytes.Buffer
		for i := 0; i < n; i++ {
			fmt.Fprintf(&text, "route add svc /multi %s/\n", ups[i].URL)
		}
		fmt.Fprintf(&text, "route add one /single %s/\n", ups[0].URL)
		tbl, err := route.NewTable(&text)
		if err != nil {
			t.Fatal(err)
		}
		route.SetTable(tbl)
		h := flexAs[*proxy.HTTPProxy](newHTTPProxy, cfg, &proxy.HttpStatsHandler{Noroute: metrics.DiscardProvider{}.NewCounter("x")}, firstListen(cfg))
		for i := range hits {
			atomic.StoreInt64(&hits[i], 0)
		}
		cycles := 12
		var panicked any
		func() {
			defer func() { panicked = recover() }()
			for k := 0; k < cycles*n; k++ {
				req := httptest.NewRequest("GET", "http://example.com/multi/x", nil)
				req.RemoteAddr = "192.0.2.1:999"
				rec := httptest.NewRecorder()
				h.ServeHTTP(rec, req)
				if rec.Code != 200 {
					panic(fmt.Sprintf("request %d answered %d", k, rec.Code))
				}
			}
		}()
		if panicked != nil {
			t.Fatalf("proxy.strategy=%q (from %s) was accepted; requests to a route with %d targets fail: %v", spelled, src, n, panicked)
		}
		var got []int64
		for i := 0; i < n; i++ {
			got = append(got, atomic.LoadInt64(&hits[i]))
		}
		for i, g := range got {
			switch cfg.Proxy.Strategy {
			case "rr":
				if g != int64(cycles) {
					t.Fatalf("proxy.strategy=%q: %d whole round-robin cycles over %d equal targets gave %v", spelled, cycles, n, got)
				}
			default:
				if g == 0 {
					t.Fatalf("proxy.strategy=%q: target %d of %d equal targets got none of %d requests: %v", spelled, i, n, cycles*n, got)
				}
			}
		}
		hx.Class("strategy-accepted:" + cfg.Proxy.Strategy)
		hx.NonTrivial(fmt.Sprintf("strategy|%s|%s|%d", spelled, src, n))
	})
}
