package main

import (
	"context"
	"bytes"
	"crypto/tls"
	"fmt"
	"io"
	"net"
	"net/http"
	"strings"
	"sync/atomic"
	"testing"
	"time"

	"github.com/fabiolb/fabio/config"
	"github.com/fabiolb/fabio/metrics"
	"github.com/fabiolb/fabio/proxy"
	"github.com/fabiolb/fabio/proxy/tcp"
	"github.com/fabiolb/fabio/route"
	"pgregory.net/rapid"

	"verifharness/hx"
)

// TestC04ListenerShares: the weighted round-robin shares as a client of a real
// listener sees them.  Each listener kind is wired the way main.go wires it
// (lookupHostFn / lookupHostMatcher / HTTPProxy with the configured picker);
// N connections (or requests) are made one after the other and counted per
// upstream.  Over N consecutive picks of the interleaved ring every target
// must get its weight's share to within a few picks, and no target with a
// sizeable weight may be starved.
func TestC04ListenerShares(t *testing.T) { listenerShares(t, hx.Scale(32, 240)) }

// ... and of C06's check: each target's share of the connections is its share of the lookups the
// listeners perform - one per connection (run under the race detector there).
func TestC06ListenerShares(t *testing.T) { listenerShares(t, hx.Scale(10, 80)) }

func listenerShares(t *testing.T, cases int) {
	const maxUp = 4
	var counts [maxUp]int64
	var ups []net.Listener
	for i := 0; i < maxUp; i++ {
		ln, err := hx.Listen("tcp", "127.0.0.1:0")
		if err != nil {
			t.Fatalf("VERIF-INCONCLUSIVE %v", err)
		}
		defer ln.Close()
		ups = append(ups, ln)
		go func(i int) {
			for {
				c, err := ln.Accept()
				if err != nil {
					return
				}
				atomic.AddInt64(&counts[i], 1)
				go func() {
					// answers both a raw TCP client and an HTTP request with something short and closes
					c.SetDeadline(time.Now().Add(5 * time.Second))
					buf := make([]byte, 4096)
					c.Read(buf)
					fmt.Fprintf(c, "HTTP/1.1 200 OK\r\nContent-Length: 1\r\nConnection: close\r\n\r\n%d", i)
					c.Close()
				}()
			}
		}(i)
	}
	cfg, err := config.Load([]string{"fabio"}, nil)
	if err != nil {
		t.Fatal(err)
	}
	cfg.Proxy.Strategy = "rr"
	cert := selfSigned()
	dp := metrics.DiscardProvider{}
	hx.Check(t, cases, func(t *rapid.T) {
		kind := rapid.SampledFrom([]string{"tcp", "https+tcp+sni", "tcp+sni", "https+tcp+sni", "http"}).Draw(t, "listener")
		n := rapid.IntRange(2, maxUp).Draw(t, "targets")
		addr := freeAddr()
		_, port, _ := net.SplitHostPort(addr)
		src := map[string]string{"tcp": ":" + port, "http": "/", "tcp+sni": "sni.example/", "https+tcp+sni": "sni.example/"}[kind]
		scheme := "tcp"
		if kind == "http" {
			scheme = "http"
		}
		// equal weights: the ring has n slots, so k*n consecutive picks are k full cycles whatever
		// the starting offset (with fixed weights a full cycle is 10,000 connections)
		var text strings.Builder
		for i := 0; i < n; i++ {
			fmt.Fprintf(&text, "route add svc %s %s://%s\n", src, scheme, ups[i].Addr())
		}
		tbl, err := route.NewTable(bytes.NewBufferString(text.String()))
		if err != nil {
			t.Fatal(err)
		}
		route.SetTable(tbl)
		var weights []float64
		for _, rs := range tbl {
			for _, r := range rs {
				for _, tg := range r.Targets {
					weights = append(weights, tg.Weight)
				}
			}
		}
		if len(weights) != n {
			t.Fatalf("harness: %d weights for %d targets", len(weights), n)
		}
		l := config.Listen{Addr: addr, Proto: kind}
		cache := route.NewGlobCache(10)
		httpHandler := &proxy.HTTPProxy{
			Config:    cfg.Proxy,
			Transport: &http.Transport{DisableKeepAlives: true},
			Lookup: func(r *http.Request) *route.Target {
				return route.GetTable().Lookup(r, "", route.Picker[cfg.Proxy.Strategy], route.Matcher["prefix"], cache, false)
			},
		}
		done := make(chan struct{})
		go func() {
			defer close(done)
			switch kind {
			case "http":
				proxy.ListenAndServeHTTP(l, httpHandler, nil)
			case "tcp":
				proxy.ListenAndServeTCP(l, &tcp.Proxy{Lookup: flexAs[func(string) *route.Target](lookupHostFn, cfg, dp.NewCounter("nf")), DialTimeout: time.Second}, nil)
			case "tcp+sni":
				proxy.ListenAndServeTCP(l, &tcp.SNIProxy{Lookup: flexAs[func(string) *route.Target](lookupHostFn, cfg, dp.NewCounter("nf")), DialTimeout: time.Second}, nil)
			case "https+tcp+sni":
				tlscfg := &tls.Config{Certificates: []tls.Certificate{cert}}
				proxy.ListenAndServeHTTPSTCPSNI(l, httpHandler, &tcp.SNIProxy{Lookup: flexAs[func(string) *route.Target](lookupHostFn, cfg, dp.NewCounter("nf")), DialTimeout: time.Second}, tlscfg, flexAs[func(context.Context, string) bool](lookupHostMatcher, cfg))
			}
		}()
		if !waitListening(addr) {
			t.Fatalf("VERIF-INCONCLUSIVE listener %s did not come up", kind)
		}
		defer func() {
			proxy.Shutdown(100 * time.Millisecond)
			<-done
		}()
		// the readiness probe of a tcp listener is itself a connection that is routed: let it land
		time.Sleep(150 * time.Millisecond)
		for i := range counts {
			atomic.StoreInt64(&counts[i], 0)
		}
		cycles := rapid.IntRange(3, 12).Draw(t, "cycles")
		N := cycles * n
		for k := 0; k < N; k++ {
			c, err := net.DialTimeout("tcp", addr, 2*time.Second)
			if err != nil {
				t.Fatalf("VERIF-INCONCLUSIVE dial: %v", err)
			}
			c.SetDeadline(time.Now().Add(5 * time.Second))
			switch kind {
			case "http":
				fmt.Fprintf(c, "GET / HTTP/1.1\r\nHost: h\r\nConnection: close\r\n\r\n")
			case "tcp":
				c.Write([]byte("ping"))
			default:
				c.Write(c18Hello("sni.example"))
			}
			io.ReadAll(c)
			c.Close()
		}
		hx.EvalN(N)
		total := int64(0)
		got := make([]int64, n)
		for i := 0; i < n; i++ {
			got[i] = atomic.LoadInt64(&counts[i])
			total += got[i]
		}
		desc := fmt.Sprintf("%s listener, %d connections one after the other, strategy rr\n%sweights %v, connections per upstream %v", kind, N, text.String(), weights, got)
		if total != int64(N) {
			t.Fatalf("%d of %d connections reached an upstream\n%s", total, N, desc)
		}
		for i := 0; i < n; i++ {
			if d := got[i] - int64(cycles); d < -1 || d > 1 {
				t.Fatalf("%d full round-robin cycles over %d equally weighted targets: target %d got %d connections, want %d\n%s", cycles, n, i, got[i], cycles, desc)
			}
		}
		// the table changes while the listener is up (one instance leaves, another one may join):
		// from then on the shares are those of the new table, on this listener kind as on any other
		if rapid.Bool().Draw(t, "table-changes-while-listening") {
			var text2 strings.Builder
			in2 := map[int]bool{}
			for i := 1; i < n; i++ {
				in2[i] = true
			}
			if n < maxUp && rapid.Bool().Draw(t, "newcomer") {
				in2[n] = true
			}
			for i := 0; i < maxUp; i++ {
				if in2[i] {
					fmt.Fprintf(&text2, "route add svc %s %s://%s\n", src, scheme, ups[i].Addr())
				}
			}
			tbl2, err := route.NewTable(bytes.NewBufferString(text2.String()))
			if err != nil {
				t.Fatal(err)
			}
			route.SetTable(tbl2)
			for i := range counts {
				atomic.StoreInt64(&counts[i], 0)
			}
			n2 := len(in2)
			N2 := cycles * n2
			for k := 0; k < N2; k++ {
				c, err := net.DialTimeout("tcp", addr, 2*time.Second)
				if err != nil {
					t.Fatalf("VERIF-INCONCLUSIVE dial: %v", err)
				}
				c.SetDeadline(time.Now().Add(5 * time.Second))
				switch kind {
				case "http":
					fmt.Fprintf(c, "GET / HTTP/1.1\r\nHost: h\r\nConnection: close\r\n\r\n")
				case "tcp":
					c.Write([]byte("ping"))
				default:
					c.Write(c18Hello("sni.example"))
				}
				io.ReadAll(c)
				c.Close()
			}
			hx.EvalN(N2)
			var got2 []int64
			for i := 0; i < maxUp; i++ {
				got2 = append(got2, atomic.LoadInt64(&counts[i]))
			}
			for i := 0; i < maxUp; i++ {
				want := int64(0)
				if in2[i] {
					want = int64(cycles)
				}
				if d := got2[i] - want; d < -1 || d > 1 || (!in2[i] && got2[i] != 0) {
					t.Fatalf("%s listener: after the table was replaced by\n%sthe next %d connections went to the upstreams as %v, want %d each on the targets of the new table and none elsewhere\n(before the change: %s)", kind, text2.String(), N2, got2, cycles, desc)
				}
			}
			hx.Class("listener-shares-after-a-table-change:" + kind)
		}
		hx.Class("listener-shares:" + kind)
		hx.NonTrivial(fmt.Sprintf("%s|%v", kind, weights))
		if hx.WantSample("listener-shares") {
			hx.Sample("listener-shares", map[string]any{"listener": kind, "weights": weights, "connections": got})
		}
	})
}
