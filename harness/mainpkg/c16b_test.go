package main

import (
	"bytes"
	"context"
	"fmt"
	"io"
	"os"
	"strings"
	"sync"
	"sync/atomic"
	"testing"
	"time"

	"github.com/fabiolb/fabio/route"
	"google.golang.org/grpc"
	"google.golang.org/grpc/metadata"

	"verifharness/hx"
)

// TestC16PoolFirstUse: histories on backends the proxy has never talked to.
//   - the first calls to a fresh backend arrive together: every one of them is
//     forwarded, later calls reuse what the burst left, and once the backend
//     leaves the table every connection to it is dropped;
//   - a stream that is open while the table shifts all weight to another
//     instance of the route (the first one stays in the table at 0%) survives
//     the pool's clean-up cycle.
//
// dsthostMD: the routes of this test carry glob host patterns (*.g<i>-<pid>.example) that no lookup
// has seen before; the caller names a matching host in its dsthost metadata.
func dsthostMD(method, id string) metadata.MD {
	var i int
	fmt.Sscanf(method, "/fresh.S%d/", &i)
	return metadata.Pairs("x-call-id", id, "dsthost", fmt.Sprintf("caller.g%d-%d.example", i, os.Getpid()))
}

func TestC16PoolFirstUse(t *testing.T) {
	h := startGRPC(t)
	const nb = 4
	var bs []*grpcBackend
	for i := 0; i < nb; i++ {
		ln, err := hx.Listen("tcp", "127.0.0.1:0")
		if err != nil {
			t.Fatalf("VERIF-INCONCLUSIVE %v", err)
		}
		b := &grpcBackend{idx: 100 + i, ln: ln}
		b.srv = grpc.NewServer(grpc.ForceServerCodec(rawCodec{}), grpc.UnknownServiceHandler(h.handler(b)), grpc.StatsHandler(connStats{b}), grpc.MaxRecvMsgSize(8<<20))
		go b.srv.Serve(ln)
		defer b.srv.Stop()
		bs = append(bs, b)
	}
	open := func(b *grpcBackend) int64 { return atomic.LoadInt64(&b.begins) - atomic.LoadInt64(&b.ends) }
	call := func(method string) (int, error) {
		id := fmt.Sprintf("first-%d", atomic.AddInt64(&h.seq, 1))
		h.mu.Lock()
		h.scripts[id] = callScript{responses: [][]byte{{}}}
		h.mu.Unlock()
		ctx, cancel := context.WithTimeout(metadata.NewOutgoingContext(context.Background(), dsthostMD(method, id)), 10*time.Second)
		defer cancel()
		var req, resp []byte
		err := h.conn.Invoke(ctx, method, &req, &resp)
		h.mu.Lock()
		served := -1
		if r := h.records[id]; r != nil {
			served = r.backend
		}
		delete(h.records, id)
		delete(h.scripts, id)
		h.mu.Unlock()
		return served, err
	}
	var text strings.Builder
	for i, b := range bs {
		fmt.Fprintf(&text, "route add fresh%d *.g%d-%d.example/fresh.S%d/ grpc://%s opts \"proto=grpc\"\n", i, i, os.Getpid(), i, b.ln.Addr())
	}
	setText := func(s string) {
		tbl, err := route.NewTable(bytes.NewBufferString(s))
		if err != nil {
			t.Fatal(err)
		}
		route.SetTable(tbl)
	}
	setText(text.String())

	// ---- 1. a burst of first calls per backend
	bursts := []int{2, 24, 8, 16, 3, 12}
	var wg sync.WaitGroup
	start := make(chan struct{})
	type res struct {
		b, served int
		err       error
	}
	var mu sync.Mutex
	var results []res
	ks := make([]int, nb)
	for i := range bs {
		ks[i] = bursts[(i+hx.Shard()+int(hx.Seed()))%len(bursts)]
		for k := 0; k < ks[i]; k++ {
			wg.Add(1)
			go func(i int) {
				defer wg.Done()
				<-start
				served, err := call(fmt.Sprintf("/fresh.S%d/M", i))
				mu.Lock()
				results = append(results, res{i, served, err})
				mu.Unlock()
			}(i)
		}
	}
	close(start)
	wg.Wait()
	hx.EvalN(len(results))
	for _, r := range results {
		if r.err != nil {
			t.Fatalf("one of %d simultaneous first calls to a fresh backend failed: %v", ks[r.b], r.err)
		}
		if r.served != 100+r.b {
			t.Fatalf("call for backend %d served by %d", 100+r.b, r.served)
		}
	}
	hx.Class("first-use-burst")
	hx.NonTrivial(fmt.Sprintf("first-use-burst %v", ks))

	// ---- 2. later calls reuse the connection
	time.Sleep(300 * time.Millisecond)
	for i, b := range bs {
		before := atomic.LoadInt64(&b.begins)
		for k := 0; k < 20; k++ {
			if _, err := call(fmt.Sprintf("/fresh.S%d/M", i)); err != nil {
				t.Fatalf("call after the burst failed: %v", err)
			}
		}
		if d := atomic.LoadInt64(&b.begins) - before; d != 0 {
			t.Fatalf("20 sequential calls after the first-use burst opened %d more connections to the backend", d)
		}
	}
	hx.EvalN(20 * nb)

	// ---- 3. a stream stays open while the weight moves to another instance of its route
	id := fmt.Sprintf("long-%d", atomic.AddInt64(&h.seq, 1))
	h.mu.Lock()
	h.scripts[id] = callScript{responses: [][]byte{{0x08, 0x01}}}
	h.mu.Unlock()
	ctx, cancel := context.WithTimeout(metadata.NewOutgoingContext(context.Background(), dsthostMD("/fresh.S0/Stream", id)), 40*time.Second)
	defer cancel()
	stream, err := h.conn.NewStream(ctx, &grpc.StreamDesc{ClientStreams: true, ServerStreams: true}, "/fresh.S0/Stream")
	if err != nil {
		t.Fatalf("opening a stream: %v", err)
	}
	m1, m2 := []byte{0x08, 0x02}, []byte{0x08, 0x03}
	if err := stream.SendMsg(&m1); err != nil {
		t.Fatalf("first message on the stream: %v", err)
	}
	// wait until the backend has it
	for deadline := time.Now().Add(5 * time.Second); time.Now().Before(deadline); time.Sleep(10 * time.Millisecond) {
		h.mu.Lock()
		r := h.records[id]
		n := 0
		if r != nil {
			n = len(r.messages)
		}
		h.mu.Unlock()
		if n == 1 {
			break
		}
	}
	ends0 := atomic.LoadInt64(&bs[0].ends)
	shifted := text.String() + fmt.Sprintf("route add fresh0b *.g0-%d.example/fresh.S0/ grpc://%s weight 1.0 opts \"proto=grpc\"\n", os.Getpid(), bs[1].ln.Addr())
	setText(shifted)
	time.Sleep(6500 * time.Millisecond) // longer than the pool's clean-up interval (5 s)
	if err := stream.SendMsg(&m2); err != nil {
		t.Fatalf("a stream opened before the weight of its route moved to another instance broke %v: %v", 6500*time.Millisecond, err)
	}
	stream.CloseSend()
	var got [][]byte
	for {
		var m []byte
		if err := stream.RecvMsg(&m); err != nil {
			if err != io.EOF {
				t.Fatalf("a stream opened before the weight of its route moved to another instance (its backend is still in the table, at 0%%) ended with %v", err)
			}
			break
		}
		got = append(got, m)
	}
	h.mu.Lock()
	rec := h.records[id]
	delete(h.records, id)
	delete(h.scripts, id)
	h.mu.Unlock()
	if rec == nil || len(rec.messages) != 2 || len(got) != 1 {
		t.Fatalf("long-lived stream: backend received %v, caller received %d messages", rec, len(got))
	}
	if atomic.LoadInt64(&bs[0].ends) != ends0 {
		t.Fatalf("a connection to a backend that is still in the table (weight 0) was dropped")
	}
	hx.Eval()
	hx.Class("stream-across-weight-shift")
	hx.NonTrivial("stream-across-weight-shift")

	// ---- 4. the backends leave the table: every connection to them goes away
	setText("route add keep /pool.Keep/ grpc://" + h.backends[0].ln.Addr().String() + " opts \"proto=grpc\"\n")
	left := time.Now()
	for deadline := left.Add(11 * time.Second); time.Now().Before(deadline); time.Sleep(100 * time.Millisecond) {
		total := int64(0)
		for _, b := range bs {
			total += open(b)
		}
		if total == 0 {
			break
		}
	}
	for i, b := range bs {
		if n := open(b); n != 0 {
			t.Fatalf("%d connection(s) to a backend that left the table are still open %v later (its first use was a burst of %d simultaneous calls, which opened %d connections)", n, time.Since(left).Round(time.Second), ks[i], atomic.LoadInt64(&b.begins))
		}
	}
	hx.Class("fresh-backends-dropped-after-leaving")

	// ---- 5. a backend leaves the table for a moment that contains a clean-up pass and comes
	// back before the grace period of that pass (grpcshutdowntimeout, 2 s) is over; a stream
	// opened after its return lives across the end of the grace period
	one := fmt.Sprintf("route add flap *.g2-%d.example/fresh.S2/ grpc://%s opts \"proto=grpc\"\n", os.Getpid(), bs[2].ln.Addr())
	keep := "route add keep /pool.Keep/ grpc://" + h.backends[0].ln.Addr().String() + " opts \"proto=grpc\"\n"
	setText(keep + one)
	if _, err := call("/fresh.S2/M"); err != nil {
		t.Fatalf("call before the flap failed: %v", err)
	}
	const period = 5 * time.Second
	k := time.Since(h.poolBorn)/period + 1
	tick := h.poolBorn.Add(k * period)
	if time.Until(tick) < 1200*time.Millisecond {
		tick = tick.Add(period)
	}
	time.Sleep(time.Until(tick.Add(-700 * time.Millisecond)))
	setText(keep) // leaves
	time.Sleep(time.Until(tick.Add(600 * time.Millisecond)))
	setText(keep + one) // returns
	id2 := fmt.Sprintf("flap-%d", atomic.AddInt64(&h.seq, 1))
	h.mu.Lock()
	h.scripts[id2] = callScript{responses: [][]byte{{0x08, 0x01}}}
	h.mu.Unlock()
	ctx2, cancel2 := context.WithTimeout(metadata.NewOutgoingContext(context.Background(), dsthostMD("/fresh.S2/Stream", id2)), 30*time.Second)
	defer cancel2()
	st2, err := h.conn.NewStream(ctx2, &grpc.StreamDesc{ClientStreams: true, ServerStreams: true}, "/fresh.S2/Stream")
	if err != nil {
		t.Fatalf("opening a stream after the backend returned: %v", err)
	}
	if err := st2.SendMsg(&m1); err != nil {
		t.Fatalf("first message after the backend returned: %v", err)
	}
	time.Sleep(time.Until(tick.Add(3200 * time.Millisecond)))
	flapCtx := fmt.Sprintf("the backend left the table %v before a clean-up pass of the pool and returned %v after it; the stream was opened right after its return and was %v old", 700*time.Millisecond, 600*time.Millisecond, 2600*time.Millisecond)
	if err := st2.SendMsg(&m2); err != nil {
		t.Fatalf("a stream to a backend that is in the table broke: %v\n%s", err, flapCtx)
	}
	st2.CloseSend()
	n2 := 0
	for {
		var m []byte
		if err := st2.RecvMsg(&m); err != nil {
			if err != io.EOF {
				t.Fatalf("a stream to a backend that is in the table ended with %v\n%s", err, flapCtx)
			}
			break
		}
		n2++
	}
	h.mu.Lock()
	rec2 := h.records[id2]
	delete(h.records, id2)
	delete(h.scripts, id2)
	h.mu.Unlock()
	if rec2 == nil || len(rec2.messages) != 2 || n2 != 1 {
		t.Fatalf("stream across a backend flap: backend received %v, caller received %d messages\n%s", rec2, n2, flapCtx)
	}
	hx.Eval()
	hx.Class("stream-after-backend-flap-across-a-clean-up-pass")
	hx.NonTrivial("stream-after-backend-flap")

	// ---- 6. after all that concurrency on host patterns the table gets a host pattern nobody has
	// looked up yet: calls for it are served like any other
	late := fmt.Sprintf("route add late *.late-%d.example/fresh.S3/ grpc://%s opts \"proto=grpc\"\n", os.Getpid(), bs[3].ln.Addr())
	setText(keep + one + late)
	for k := 0; k < 3; k++ {
		idL := fmt.Sprintf("late-%d", atomic.AddInt64(&h.seq, 1))
		h.mu.Lock()
		h.scripts[idL] = callScript{responses: [][]byte{{}}}
		h.mu.Unlock()
		ctxL, cancelL := context.WithTimeout(metadata.NewOutgoingContext(context.Background(), metadata.Pairs("x-call-id", idL, "dsthost", fmt.Sprintf("x.late-%d.example", os.Getpid()))), 6*time.Second)
		var req, resp []byte
		err := h.conn.Invoke(ctxL, "/fresh.S3/M", &req, &resp)
		cancelL()
		h.mu.Lock()
		delete(h.records, idL)
		delete(h.scripts, idL)
		h.mu.Unlock()
		if err != nil {
			t.Fatalf("a call for a host pattern that appeared in the table after bursts of simultaneous lookups failed: %v", err)
		}
	}
	hx.EvalN(3)
	hx.Class("new-host-pattern-after-concurrent-lookups")
}
