package main

import (
	"net"
	"sync/atomic"
	"fmt"
	"sort"
	"strconv"
	"strings"
	"sync"
	"testing"
	"time"

	"github.com/fabiolb/fabio/config"
	"github.com/fabiolb/fabio/metrics"
	"github.com/fabiolb/fabio/noroute"
	"github.com/fabiolb/fabio/registry"
	"github.com/fabiolb/fabio/registry/consul"
	"github.com/fabiolb/fabio/route"
	"pgregory.net/rapid"

	"verifharness/fakeconsul"
	"verifharness/hx"
)

// One real pipeline per process: fake Consul HTTP API -> consul.NewBackend
// (real watchers) -> the update loop of main.go -> route.GetTable().

type pipeline struct {
	fc       *fakeconsul.Server
	accepted []string
	strict   bool
	poll     time.Duration
}

var (
	pipeOnce sync.Once
	pipe     *pipeline
)

const kvPath = "/fabio/config"

func startPipeline(t *testing.T) *pipeline {
	pipeOnce.Do(func() {
		p := &pipeline{fc: fakeconsul.New()}
		// the health rule varies by shard (one pipeline per process)
		switch hx.Shard() % 4 {
		case 0:
			p.accepted, p.strict = []string{"passing"}, false
		case 1:
			p.accepted, p.strict = []string{"passing", "warning"}, false
		case 2:
			p.accepted, p.strict = []string{"passing"}, true
		case 3:
			p.accepted, p.strict, p.poll = []string{"passing", "warning"}, true, 15*time.Millisecond
		}
		// the accepted states reach fabio the way an operator writes them (here: with a blank item
		// and blanks around the names, which a list option ignores)
		written := map[int]string{0: "passing", 1: "passing,,warning", 2: " passing ", 3: "passing , ,warning,"}[hx.Shard()%4]
		loaded, lerr := config.Load([]string{"fabio", "-registry.consul.service.status=" + written}, nil)
		if lerr != nil || loaded == nil {
			t.Fatalf("registry.consul.service.status=%q rejected: %v", written, lerr)
		}
		cfg := &config.Config{}
		cfg.Registry.Backend = "consul"
		cfg.Log.RoutesFormat = "delta"
		cfg.Registry.Consul = config.Consul{
			Addr: p.fc.Addr(), Scheme: "http", KVPath: kvPath, NoRouteHTMLPath: "/fabio/noroute.html", TagPrefix: "urlprefix-",
			ServiceStatus: loaded.Registry.Consul.ServiceStatus, ServiceMonitors: 1 + 2*(hx.Shard()%2), PollInterval: p.poll,
		}
		if hx.Shard()%2 == 1 {
			// fabio can register the aliases that routes ask for (register=<name>) with the agent
			cfg.Registry.Consul.ServiceAddr, cfg.Registry.Consul.ServiceName = "127.0.0.1:9998", "fabio"
			cfg.Registry.Consul.CheckScheme, cfg.Registry.Consul.CheckInterval, cfg.Registry.Consul.CheckTimeout = "http", time.Second, time.Second
		}
		if p.strict {
			cfg.Registry.Consul.ChecksRequired = "all"
		} else {
			cfg.Registry.Consul.ChecksRequired = "one"
		}
		be, err := consul.NewBackend(&cfg.Registry.Consul)
		if err != nil {
			panic(err)
		}
		registry.Default = be
		first := make(chan bool)
		go flex(watchBackend, cfg, metrics.Provider(metrics.DiscardProvider{}), first)
		go flex(watchNoRouteHTML, cfg)
		pipe = p
	})
	return pipe
}

// ---- model

type mInst struct {
	fakeconsul.Instance
}

type mWorld struct {
	nodes map[string]*fakeconsul.Node
	inst  map[string]*fakeconsul.Instance
	kv    map[string]string
}

func newWorld() *mWorld {
	return &mWorld{nodes: map[string]*fakeconsul.Node{}, inst: map[string]*fakeconsul.Instance{}, kv: map[string]string{}}
}

func (p *pipeline) healthy(w *mWorld, in *fakeconsul.Instance) bool {
	tagged := false
	for _, tg := range in.Tags {
		if strings.HasPrefix(tg, "urlprefix-") {
			tagged = true
		}
	}
	if !tagged || len(in.Checks) == 0 || in.Maintenance {
		return false
	}
	n := w.nodes[in.Node]
	if n == nil || n.SerfStatus == "critical" || n.Maintenance {
		return false
	}
	ok := 0
	for _, s := range in.Checks {
		for _, a := range p.accepted {
			if s == a {
				ok++
				break
			}
		}
	}
	if ok == 0 || (p.strict && ok != len(in.Checks)) {
		return false
	}
	return true
}

type triple struct{ svc, src, dst, weight string } // weight: the fixed weight the instance asked for ("" = none)

// expected computes the set of (service, prefix, target) the table must hold.
func (p *pipeline) expected(w *mWorld) map[triple]bool {
	set := map[triple]bool{}
	for _, in := range w.inst {
		if !p.healthy(w, in) {
			continue
		}
		if in.ID == "odd-1" {
			for _, o := range oddRegs {
				if o.name == in.Name {
					for _, src := range o.want {
						dst := "http://" + net.JoinHostPort(in.Addr, strconv.Itoa(in.Port)) + "/"
						if i := strings.Index(src, "="); i >= 0 { // "<prefix>=<redirect target>"
							src, dst = src[:i], src[i+1:]
						}
						set[triple{in.Name, src, dst, ""}] = true
					}
				}
			}
			continue
		}
		for _, tg := range in.Tags {
			if !strings.HasPrefix(tg, "urlprefix-") {
				continue
			}
			f := strings.Fields(strings.TrimPrefix(tg, "urlprefix-"))
			src := f[0]
			if i := strings.Index(src, "/"); i >= 0 {
				src = strings.ToLower(src[:i]) + src[i:]
			}
			addr := in.Addr
			if addr == "" {
				addr = w.nodes[in.Node].Addr
			}
			hostport := net.JoinHostPort(addr, strconv.Itoa(in.Port))
			dst := "http://" + hostport + "/"
			bad := false
			weight := ""
			for _, o := range f[1:] {
				switch {
				case o == "proto=https":
					dst = "https://" + hostport
				case o == "proto=tcp":
					dst = "tcp://" + hostport
				case strings.HasPrefix(o, "redirect="):
					if p := strings.SplitN(o[len("redirect="):], ",", 2); len(p) == 2 {
						dst = p[1]
					}
				case strings.HasPrefix(o, "weight="):
					if _, err := strconv.ParseFloat(o[len("weight="):], 64); err != nil || strings.Contains(o, "Inf") {
						bad = true // only used by the odd registrations of C14
					} else {
						weight = o[len("weight="):]
					}
				}
			}
			if bad || strings.ContainsAny(in.Name, " \t") || in.Name == "" {
				continue // cannot be expressed: dropped on its own
			}
			for _, other := range in.Tags {
				if !strings.HasPrefix(other, "urlprefix-") && strings.Contains(other, `"`) {
					bad = true
				}
			}
			if bad {
				continue
			}
			set[triple{in.Name, src, dst, weight}] = true
		}
	}
	// operator's route commands on top, in key order
	var keys []string
	for k := range w.kv {
		keys = append(keys, k)
	}
	sort.Strings(keys)
	for _, k := range keys {
		for _, line := range strings.Split(w.kv[k], "\n") {
			f := strings.Fields(line)
			switch {
			case len(f) == 5 && f[1] == "add", len(f) == 7 && f[1] == "add" && (f[5] == "opts" || f[5] == "tags"):
				set[triple{f[2], f[3], f[4], ""}] = true
			case len(f) == 8 && f[1] == "weight" && f[4] == "weight" && f[6] == "tags":
				// route weight <svc> <src> weight <w> tags "<tag>": the share is divided among the
				// targets of the service on that route that carry the tag
				tag := strings.Trim(f[7], `"`)
				share, _ := strconv.ParseFloat(f[5], 64)
				var hit []triple
				for _, in := range w.inst {
					if in.Name != f[2] || !p.healthy(w, in) {
						continue
					}
					tagged, onRoute := false, false
					for _, tg := range in.Tags {
						tagged = tagged || tg == tag
						onRoute = onRoute || tg == "urlprefix-"+f[3]
					}
					if tagged && onRoute {
						hit = append(hit, triple{in.Name, f[3], "http://" + net.JoinHostPort(in.Addr, strconv.Itoa(in.Port)) + "/", ""})
					}
				}
				for _, tr := range hit {
					if set[tr] {
						delete(set, tr)
						tr.weight = strconv.FormatFloat(share/float64(len(hit)), 'f', -1, 64)
						set[tr] = true
					}
				}
			case len(f) == 3 && f[1] == "del":
				for tr := range set {
					if tr.svc == f[2] {
						delete(set, tr)
					}
				}
			case len(f) == 5 && f[1] == "del":
				delete(set, triple{f[2], f[3], f[4], ""})
			case len(f) == 4 && f[1] == "del":
				for tr := range set {
					if tr.svc == f[2] && tr.src == f[3] {
						delete(set, tr)
					}
				}
			}
		}
	}
	return set
}

func actual(tbl route.Table) map[triple]bool {
	set := map[triple]bool{}
	for h, rs := range tbl {
		for _, r := range rs {
			for _, tg := range r.Targets {
				w := ""
				if tg.FixedWeight > 0 {
					w = strconv.FormatFloat(tg.FixedWeight, 'f', -1, 64)
				}
				set[triple{tg.Service, h + r.Path, tg.URL.String(), w}] = true
			}
		}
	}
	return set
}

func diff(want, got map[triple]bool) string {
	var out []string
	for tr := range want {
		if !got[tr] {
			out = append(out, fmt.Sprintf("missing  %s %s -> %s weight %q", tr.svc, tr.src, tr.dst, tr.weight))
		}
	}
	for tr := range got {
		if !want[tr] {
			out = append(out, fmt.Sprintf("surplus  %s %s -> %s weight %q", tr.svc, tr.src, tr.dst, tr.weight))
		}
	}
	sort.Strings(out)
	return strings.Join(out, "\n")
}

// settle waits until both watchers have seen the fake's current state and the
// active table equals want. Returns "" on success, the difference otherwise.
func (p *pipeline) settle(want map[triple]bool, h0, k0 uint64) (string, bool) {
	deadline := time.Now().Add(8 * time.Second)
	sawQuiet := false
	var equalSince time.Time
	for {
		quiet := false
		if p.poll > 0 {
			h, _ := p.fc.Served()
			// polling mode: two complete polls after the change, KV watcher parked
			quiet = h >= h0+2 && p.fc.KVQuiesced(kvPath)
		} else {
			// parked on the current state, or at least given it (a watcher that keeps asking
			// without ever parking has still been told)
			quiet = p.fc.Quiesced(kvPath) || p.fc.Seen(kvPath)
		}
		d := diff(want, actual(route.GetTable()))
		if quiet {
			sawQuiet = true
			if d == "" {
				return "", true
			}
		}
		// a watcher that never parks (e.g. busy polling) is not this
		// property's business: a table that has been right for a while is accepted
		if d == "" {
			if equalSince.IsZero() {
				equalSince = time.Now()
			} else if time.Since(equalSince) > 400*time.Millisecond {
				return "", sawQuiet
			}
		} else {
			equalSince = time.Time{}
		}
		if time.Now().After(deadline) {
			if !sawQuiet && d != "" {
				// the watchers never came back for the registry's current state.  A slow machine gets
				// there eventually; an update loop that is stuck for good (it blocks in a call it makes
				// for every table, so nothing is taken from the watchers any more) never does.
				if frozenLoop.Load() {
					return d + "\n(the update loop stopped following the registry earlier in this process)", true
				}
				for end := time.Now().Add(40 * time.Second); time.Now().Before(end); time.Sleep(20 * time.Millisecond) {
					if d = diff(want, actual(route.GetTable())); d == "" {
						return "", true
					}
				}
				frozenLoop.Store(true)
				return d + "\n(48 s after the last change of the registry the update loop has still not asked for its current state: it no longer follows the registry)", true
			}
			return d, sawQuiet
		}
		time.Sleep(300 * time.Microsecond)
	}
}

var frozenLoop atomic.Bool

// settleAbsent waits until the watchers have seen the fake's current state and
// none of the given triples is in the active table.
func (p *pipeline) settleAbsent(gone map[triple]bool, h0 uint64) (string, bool) {
	deadline := time.Now().Add(8 * time.Second)
	sawQuiet := false
	for {
		quiet := false
		if p.poll > 0 {
			h, _ := p.fc.Served()
			quiet = h >= h0+2 && p.fc.KVQuiesced(kvPath)
		} else {
			quiet = p.fc.Quiesced(kvPath) || p.fc.Seen(kvPath)
		}
		if quiet {
			sawQuiet = true
		}
		var still []string
		for tr := range actual(route.GetTable()) {
			if gone[tr] {
				still = append(still, fmt.Sprintf("stale  %s %s -> %s weight %q", tr.svc, tr.src, tr.dst, tr.weight))
			}
		}
		if len(still) == 0 && sawQuiet {
			return "", true
		}
		if time.Now().After(deadline) {
			sort.Strings(still)
			return strings.Join(still, "\n"), sawQuiet
		}
		time.Sleep(300 * time.Microsecond)
	}
}

// ---- generators

var tagChoices = []string{"urlprefix-/a", "urlprefix-/A", "urlprefix-/b", "urlprefix-foo.com/", "urlprefix-Foo.com/x", "urlprefix-/secure proto=https", "urlprefix-:7001 proto=tcp", "urlprefix-/w weight=0.5",
	// a route that asks fabio to register an alias for it: with this pipeline's configuration (no usable
	// registry.consul.register.addr) that registration fails, which is no reason not to route
	"urlprefix-/al register=myalias",
	// a redirect route: its destination is the redirect target
	"urlprefix-/old redirect=301,https://new.example/"}

func genInstance(t *rapid.T, w *mWorld) *fakeconsul.Instance {
	node := rapid.SampledFrom([]string{"node1", "node2"}).Draw(t, "node")
	name := rapid.SampledFrom([]string{"web", "api", "db"}).Draw(t, "name")
	id := fmt.Sprintf("%s-%d", name, rapid.IntRange(1, 2).Draw(t, "idn"))
	if rapid.IntRange(0, 3).Draw(t, "id-that-extends-another-id") == 0 {
		id = name + "-1-canary" // an id that starts with the id of another instance (web-1, web-1-canary)
	}
	in := &fakeconsul.Instance{Node: node, NodeAddr: map[string]string{"node1": "10.0.1.1", "node2": "10.0.2.2"}[node], ID: id, Name: name,
		Addr: rapid.SampledFrom([]string{"", "10.5.5.5", "10.6.6.6", "2001:db8::17"}).Draw(t, "addr"), Port: rapid.IntRange(1000, 1005).Draw(t, "port")}
	n := rapid.IntRange(0, 3).Draw(t, "ntags")
	seen := map[string]bool{}
	for i := 0; i < n; i++ {
		tg := rapid.SampledFrom(tagChoices).Draw(t, "tag")
		if tg == "urlprefix-/w weight=0.5" {
			// the weight an instance asks for is part of what is compared; re-registrations change it
			tg = "urlprefix-/w weight=" + rapid.SampledFrom([]string{"0.5", "0.25", "0.1"}).Draw(t, "tagweight")
		}
		if key := strings.Fields(tg)[0]; !seen[key] { // one tag per prefix
			seen[key] = true
			in.Tags = append(in.Tags, tg)
		}
	}
	in.Tags = append(in.Tags, "v1")
	for i, k := 0, rapid.IntRange(0, 3).Draw(t, "nchecks"); i < k; i++ {
		in.Checks = append(in.Checks, rapid.SampledFrom([]string{"passing", "passing", "warning", "critical"}).Draw(t, "status"))
	}
	return in
}

func (w *mWorld) ensureNode(fc *fakeconsul.Server, in *fakeconsul.Instance) {
	if _, ok := w.nodes[in.Node]; !ok {
		n := fakeconsul.Node{Name: in.Node, Addr: in.NodeAddr, SerfStatus: "passing"}
		w.nodes[in.Node] = &n
		fc.SetNode(n)
	}
}

func TestC01Pipeline(t *testing.T) {
	p := startPipeline(t)
	hx.Check(t, hx.Scale(60, 1500), func(t *rapid.T) {
		// with odd registrations coming and going: what cannot be expressed as a route is left out,
		// everything else keeps following the registry
		runHistory(t, p, true)
	})
}

// The same histories are part of C04's check: the fixed weight an instance asks for in its
// tag (and changes by re-registering) is part of the compared table.
func TestC04Pipeline(t *testing.T) {
	p := startPipeline(t)
	hx.Check(t, hx.Scale(30, 600), func(t *rapid.T) {
		runHistory(t, p, false)
	})
}

// ... and of C13's: redirect routes come and go with the instances that advertise them
// (run under the race detector with several service monitors).
func TestC13Pipeline(t *testing.T) {
	p := startPipeline(t)
	hx.Check(t, hx.Scale(30, 400), func(t *rapid.T) {
		runHistory(t, p, false)
	})
}

// ... and of C16's: a gRPC call goes to a backend of the matching route of the table as the
// registry has it now (a backend that moved is reached where it is).
func TestC16Pipeline(t *testing.T) {
	p := startPipeline(t)
	hx.Check(t, hx.Scale(30, 400), func(t *rapid.T) {
		runHistory(t, p, false)
	})
}

// ... and of C02's: no registration, however odd, keeps the table from following the registry
// (or takes the process down).
func TestC02Pipeline(t *testing.T) {
	p := startPipeline(t)
	hx.Check(t, hx.Scale(30, 400), func(t *rapid.T) {
		runHistory(t, p, true)
	})
}

func TestC14Pipeline(t *testing.T) {
	p := startPipeline(t)
	hx.Check(t, hx.Scale(40, 500), func(t *rapid.T) {
		runHistory(t, p, true)
	})
}

// odd registrations and the routes they may contribute (most cannot be
// expressed in the command language and are dropped on their own)
var oddRegs = []struct {
	name string
	tags []string
	want []string // route prefixes that must appear for this registration
}{
	{"odd svc", []string{"urlprefix-/odd"}, nil},
	{"oddq", []string{"urlprefix-/odd", `has"quote`}, nil},
	{"oddw", []string{"urlprefix-/odd weight=abc"}, nil},
	{"oddinf", []string{"urlprefix-/odd weight=Inf"}, nil},
	{"oddredir", []string{"urlprefix-/odd redirect=301,http://%zz/"}, nil},
	{"oddglob", []string{"urlprefix-/[odd"}, nil},
	{"oddempty", []string{"urlprefix-"}, nil},
	{"oddnl", []string{"urlprefix-/odd", "x\nroute add evil /evil http://evil:1/"}, nil},
	{"oddbs", []string{"urlprefix-/oddbs", `back\slash`, "ünï"}, []string{"/oddbs"}},
	{"oddmixed", []string{"urlprefix-/ok1", "urlprefix-/bad weight=x", "urlprefix-/ok2"}, []string{"/ok1", "/ok2"}},
	{"oddrel", []string{"urlprefix-/old redirect=301,/new", "urlprefix-/keep"}, []string{"/old=/new", "/keep"}},
	// redirect options without their second half: the option is ignored, the route is an ordinary one
	{"oddredir2", []string{"urlprefix-/oddr redirect=301"}, []string{"/oddr"}},
	{"oddredir3", []string{"urlprefix-/oddr redirect="}, []string{"/oddr"}},
	{"oddredir4", []string{"urlprefix-/oddr redirect=https://example.com/"}, []string{"/oddr"}},
	{"oddredir5", []string{"urlprefix-/oddr redirect=301,https://a.example/,x"}, []string{"/oddr"}},
}

func runHistory(t *rapid.T, p *pipeline, withOdd bool) {
	fc := p.fc
	w := newWorld()
	h0, k0 := fc.Served()
	fc.Reset()
	var hist []string
	check := func(op string) {
		hist = append(hist, op)
		want := p.expected(w)
		d, quiet := p.settle(want, h0, k0)
		h0, k0 = fc.Served()
		hx.Eval()
		if d != "" {
			if !quiet {
				t.Fatalf("VERIF-INCONCLUSIVE watchers did not reach the registry's current state within the time limit after: %s", op)
			}
			t.Fatalf("after the registry stopped changing the active table differs from the healthy, tagged instances (+ manual commands)\n%s\nrule: accepted=%v strict=%v poll=%v\nhistory:\n%s\ntable:\n%s", d, p.accepted, p.strict, p.poll, strings.Join(hist, "\n"), route.GetTable().String())
		}
	}
	check("reset")
	n := rapid.IntRange(5, hx.Pick(25, 100)).Draw(t, "nops")
	transitions, faults := 0, 0
	oddPresent := false
	refusing := false
	for i := 0; i < n; i++ {
		before := map[string]bool{}
		for k, in := range w.inst {
			before[k] = p.healthy(w, in)
		}
		var op string
		kind := rapid.IntRange(0, 17).Draw(t, "op") // 15-17: KV override edits like 11 (the default case)
		keys := sortedKeys(w.inst)
		if kind == 14 {
			// the local agent starts (or stops) refusing service registrations (ACL change): fabio's
			// own alias registrations (register=<name> options) fail from now on; the table must
			// follow the registry all the same
			refusing = !refusing
			fc.SetAgentRefuses(refusing)
			check(fmt.Sprintf("the agent refuses registrations: %v", refusing))
			hx.Class("history-with-agent-refusing-registrations")
			continue
		}
		if kind == 13 {
			// the Consul servers are restored from a snapshot: the indexes of its queries go back.
			// Nothing in the registry changed; what changes afterwards must still be followed.
			fc.Rewind()
			check("consul indexes go backwards (snapshot restore)")
			hx.Class("history-with-index-going-backwards")
			continue
		}
		if kind == 12 {
			// fault injection: the catalog lookup of a service fails at the very rebuild in
			// which one of its instances turns unhealthy.  Only the safety half of the
			// property is asserted while the fault lasts (API errors are not registry
			// states): whatever only that instance contributed must leave the table.
			var cands []string
			for _, k := range keys {
				if p.healthy(w, w.inst[k]) && !strings.HasPrefix(w.inst[k].ID, "odd") {
					cands = append(cands, k)
				}
			}
			if len(cands) == 0 {
				continue
			}
			k := rapid.SampledFrom(cands).Draw(t, "faultvictim")
			in := w.inst[k]
			// the lookup only happens (and only hurts) while the service still has a healthy
			// instance: make sure there is a sibling that stays healthy
			hasSibling := false
			for k2, other := range w.inst {
				if k2 != k && other.Name == in.Name && p.healthy(w, other) {
					hasSibling = true
				}
			}
			if !hasSibling {
				sibID := in.Name + "-sib"
				if in.ID == sibID {
					sibID = in.Name + "-sib2"
				}
				sib := &fakeconsul.Instance{Node: in.Node, NodeAddr: in.NodeAddr, ID: sibID, Name: in.Name, Addr: "10.9.9.9", Port: 1999 + len(sibID)%2,
					Tags: []string{rapid.SampledFrom([]string{"urlprefix-/a", "urlprefix-/sib", "urlprefix-foo.com/"}).Draw(t, "sibtag")}, Checks: []string{"passing"}}
				w.inst[sib.Node+"/"+sib.ID] = sib
				fc.SetInstance(*sib)
				check(fmt.Sprintf("register sibling %s/%s tags=%q", sib.Node, sib.ID, sib.Tags))
			}
			wantBefore := p.expected(w)
			for j := range in.Checks {
				in.Checks[j] = "critical"
			}
			gone := map[triple]bool{}
			after := p.expected(w)
			for tr := range wantBefore {
				if !after[tr] {
					gone[tr] = true
				}
			}
			for k2, other := range w.inst {
				if k2 != k && other.Name == in.Name && p.healthy(w, other) {
					hx.Class("catalog-fault-with-a-healthy-sibling-instance")
					break
				}
			}
			fc.SetCatalogErr(in.Name, true)
			fc.SetInstance(*in)
			op := fmt.Sprintf("catalog lookups of %q fail while the checks of %s -> %q", in.Name, k, in.Checks)
			hist = append(hist, op)
			still, quiet := p.settleAbsent(gone, h0)
			h0, k0 = fc.Served()
			hx.Eval()
			if still != "" {
				if !quiet {
					t.Fatalf("VERIF-INCONCLUSIVE watchers did not reach the registry's current state within the time limit after: %s", op)
				}
				t.Fatalf("an instance that has become unhealthy is still in the active table after that state was observed (the catalog lookup of its service failed at that rebuild)\n%s\nrule: accepted=%v strict=%v poll=%v\nhistory:\n%s\ntable:\n%s", still, p.accepted, p.strict, p.poll, strings.Join(hist, "\n"), route.GetTable().String())
			}
			hx.Class("history-with-catalog-fault-at-a-health-transition")
			faults++
			transitions++
			// the fault ends; the next change of the registry brings the full table back
			fc.SetCatalogErr(in.Name, false)
			if p.poll > 0 || rapid.Bool().Draw(t, "heal-by-wait-timeout") {
				// nothing changes in the registry: the next poll, or the blocking query
				// returning because its wait time is over, reports the same index
				// (blocking queries return whenever their wait time is over: the fake lets that
				// happen every 150 ms while the table is given time to settle)
				func() {
					stopWake := make(chan struct{})
					defer close(stopWake)
					go func() {
						for {
							fc.WakeHealth()
							select {
							case <-stopWake:
								return
							case <-time.After(150 * time.Millisecond):
							}
						}
					}()
					check("catalog lookups work again (health queries keep returning with the same index)")
				}()
				hx.Class("catalog-fault-healed-without-an-index-change")
			} else {
				fc.Touch()
				check("catalog lookups work again (index bumped)")
			}
			continue
		}
		switch {
		case kind <= 2 && len(keys) > 0 && rapid.IntRange(0, 3).Draw(t, "moves") == 0:
			// an instance comes back on another port (or address) under the same id, with the same
			// tags and the same checks: only the catalog entry changes
			k := rapid.SampledFrom(keys).Draw(t, "mover")
			in := w.inst[k]
			if rapid.Bool().Draw(t, "move-port") || in.Addr == "" {
				in.Port += 100
			} else {
				in.Addr = map[string]string{"10.5.5.5": "10.6.6.6", "10.6.6.6": "10.7.7.7", "2001:db8::17": "2001:db8::18"}[in.Addr]
				if in.Addr == "" {
					in.Addr = "10.5.5.5"
				}
			}
			fc.SetInstance(*in)
			op = fmt.Sprintf("%s re-registers in place: addr=%q port=%d (tags and checks unchanged)", k, in.Addr, in.Port)
			hx.Class("history-with-in-place-re-registration")
		case kind <= 2 || len(keys) == 0: // register (or re-register with new data)
			in := genInstance(t, w)
			w.ensureNode(fc, in)
			w.inst[in.Node+"/"+in.ID] = in
			fc.SetInstance(*in)
			op = fmt.Sprintf("register %s/%s addr=%q port=%d tags=%q checks=%q", in.Node, in.ID, in.Addr, in.Port, in.Tags, in.Checks)
		case kind == 3: // deregister
			k := rapid.SampledFrom(keys).Draw(t, "victim")
			in := w.inst[k]
			delete(w.inst, k)
			fc.RemoveInstance(in.Node, in.ID)
			op = "deregister " + k
		case kind <= 6: // flip one check
			k := rapid.SampledFrom(keys).Draw(t, "flip")
			in := w.inst[k]
			if len(in.Checks) == 0 {
				in.Checks = []string{"passing"}
			} else {
				j := rapid.IntRange(0, len(in.Checks)-1).Draw(t, "which")
				in.Checks[j] = rapid.SampledFrom([]string{"passing", "warning", "critical"}).Draw(t, "to")
			}
			fc.SetInstance(*in)
			op = fmt.Sprintf("checks of %s -> %q", k, in.Checks)
		case kind == 7: // agent failure / recovery
			name := rapid.SampledFrom([]string{"node1", "node2"}).Draw(t, "serfnode")
			if nd, ok := w.nodes[name]; ok {
				nd.SerfStatus = rapid.SampledFrom([]string{"critical", "passing"}).Draw(t, "serf")
				fc.SetNode(*nd)
				op = fmt.Sprintf("serfHealth of %s -> %s", name, nd.SerfStatus)
			}
		case kind == 8: // node maintenance
			name := rapid.SampledFrom([]string{"node1", "node2"}).Draw(t, "maintnode")
			if nd, ok := w.nodes[name]; ok {
				nd.Maintenance = !nd.Maintenance
				fc.SetNode(*nd)
				op = fmt.Sprintf("node maintenance of %s -> %v", name, nd.Maintenance)
			}
		case kind == 9: // service maintenance
			k := rapid.SampledFrom(keys).Draw(t, "svcmaint")
			in := w.inst[k]
			in.Maintenance = !in.Maintenance
			fc.SetInstance(*in)
			op = fmt.Sprintf("service maintenance of %s -> %v", k, in.Maintenance)
		case kind == 10 && withOdd: // an odd registration appears or leaves (C14)
			if oddPresent {
				for k, in := range w.inst {
					if strings.HasPrefix(in.ID, "odd") {
						delete(w.inst, k)
						fc.RemoveInstance(in.Node, in.ID)
					}
				}
				oddPresent = false
				op = "odd registration leaves"
			} else {
				o := rapid.SampledFrom(oddRegs).Draw(t, "odd")
				in := &fakeconsul.Instance{Node: "node1", NodeAddr: "10.0.1.1", ID: "odd-1", Name: o.name, Addr: "10.7.7.7", Port: 7000, Tags: o.tags, Checks: []string{"passing"}}
				w.ensureNode(fc, in)
				w.inst["node1/odd-1"] = in
				fc.SetInstance(*in)
				oddPresent = true
				op = fmt.Sprintf("odd registration appears: name=%q tags=%q", o.name, o.tags)
			}
		default: // KV override edit
			key := "fabio/config" + rapid.SampledFrom([]string{"", "/a", "/b"}).Draw(t, "kvkey")
			if rapid.IntRange(0, 3).Draw(t, "kvdel") == 0 {
				delete(w.kv, key)
				fc.MutateKV(func(kv map[string]string) { delete(kv, key) })
				op = "kv delete " + key
			} else {
				var lines []string
				for j, m := 0, rapid.IntRange(1, 2).Draw(t, "nlines"); j < m; j++ {
					switch rapid.IntRange(0, 4).Draw(t, "kvline") {
					case 4:
						// the operator pins a service to one of its instances: everything of the service is
						// deleted and the line of that instance - as the registry writes it - is added again
						var pins [][2]string
						for _, k := range keys {
							in := w.inst[k]
							if !p.healthy(w, in) {
								continue
							}
							addr := in.Addr
							if addr == "" {
								addr = w.nodes[in.Node].Addr
							}
							var svctags []string
							for _, x := range in.Tags {
								if !strings.HasPrefix(x, "urlprefix-") {
									svctags = append(svctags, x)
								}
							}
							for _, tg := range in.Tags {
								if tg == "urlprefix-/a" || tg == "urlprefix-/b" {
									pins = append(pins, [2]string{in.Name, fmt.Sprintf("route add %s %s http://%s/ tags %q", in.Name, strings.TrimPrefix(tg, "urlprefix-"), net.JoinHostPort(addr, strconv.Itoa(in.Port)), strings.Join(svctags, ","))})
								}
							}
						}
						if len(pins) == 0 {
							lines = append(lines, "# nothing to pin")
							break
						}
						pin := rapid.SampledFrom(pins).Draw(t, "pinned")
						lines = append(lines, "route del "+pin[0], pin[1])
						hx.Class("history-with-operator-pinning-an-instance")
					case 3:
						// the operator moves an instance to another scheme on the same address: the https
						// target is added next to, or (with the del) instead of, the announced http one
						var cands [][4]string
						for _, k := range keys {
							in := w.inst[k]
							addr := in.Addr
							if addr == "" {
								addr = w.nodes[in.Node].Addr
							}
							for _, tg := range in.Tags {
								if tg == "urlprefix-/a" || tg == "urlprefix-/b" {
									var svctags []string
									for _, x := range in.Tags {
										if !strings.HasPrefix(x, "urlprefix-") {
											svctags = append(svctags, x)
										}
									}
									cands = append(cands, [4]string{in.Name, strings.TrimPrefix(tg, "urlprefix-"), net.JoinHostPort(addr, strconv.Itoa(in.Port)), strings.Join(svctags, ",")})
								}
							}
						}
						if len(cands) == 0 {
							lines = append(lines, "# nothing to switch")
							break
						}
						c := rapid.SampledFrom(cands).Draw(t, "switched")
						if c[3] != "" && rapid.Bool().Draw(t, "with-the-instance's-tags") {
							lines = append(lines, fmt.Sprintf("route add %s %s https://%s/ tags %q", c[0], c[1], c[2], c[3]))
						} else {
							lines = append(lines, fmt.Sprintf("route add %s %s https://%s/", c[0], c[1], c[2]))
						}
						if rapid.Bool().Draw(t, "and-del-http") {
							lines = append(lines, fmt.Sprintf("route del %s %s http://%s/", c[0], c[1], c[2]))
						}
						hx.Class("history-with-operator-switching-a-scheme")
					case 0:
						lines = append(lines, fmt.Sprintf("route add manual-%d /m%d http://10.8.8.%d:80/", j, rapid.IntRange(0, 2).Draw(t, "mp"), j))
					case 1:
						lines = append(lines, "route del "+rapid.SampledFrom([]string{"web", "api", "db", "nobody"}).Draw(t, "delsvc"))
					default:
						lines = append(lines, "route del "+rapid.SampledFrom([]string{"web", "api"}).Draw(t, "delsvc2")+" "+rapid.SampledFrom([]string{"/a", "/b", "foo.com/"}).Draw(t, "delsrc"))
					}
				}
				v := strings.Join(lines, "\n")
				w.kv[key] = v
				fc.MutateKV(func(kv map[string]string) { kv[key] = v })
				op = fmt.Sprintf("kv put %s = %q", key, v)
			}
		}
		if op == "" {
			continue
		}
		for k, in := range w.inst {
			if was, ok := before[k]; ok && was != p.healthy(w, in) {
				transitions++
			}
		}
		check(op)
	}
	if transitions > 0 {
		hx.NonTrivial(strings.Join(hist, "\n"))
		hx.Class("history-with-health-transition")
	}
	_ = faults
	if withOdd && strings.Contains(strings.Join(hist, "\n"), "odd registration appears") {
		hx.Class("history-with-odd-registration")
		hx.NonTrivial("odd|" + strings.Join(hist, "\n"))
	}
	if hx.WantSample("history") && transitions > 0 && len(hist) <= 10 {
		hx.Sample("history", hist)
	}
}

func sortedKeys(m map[string]*fakeconsul.Instance) []string {
	var ks []string
	for k := range m {
		ks = append(ks, k)
	}
	sort.Strings(ks)
	return ks
}

// A Consul KV outage is not a change of the registry: while KV reads fail, the operator's route
// commands stay applied and the no-route page stays what it was; afterwards both follow new values.
func kvOutage(t *testing.T) {
	p := startPipeline(t)
	hx.Check(t, hx.Scale(2, 12), func(t *rapid.T) {
		fc := p.fc
		w := newWorld()
		h0, k0 := fc.Served()
		fc.Reset()
		in := &fakeconsul.Instance{Node: "node1", NodeAddr: "10.0.1.1", ID: "web-1", Name: "web", Addr: "10.5.5.5", Port: 1000, Tags: []string{"urlprefix-/a"}, Checks: []string{"passing"}}
		w.ensureNode(fc, in)
		w.inst["node1/web-1"] = in
		fc.SetInstance(*in)
		manual := fmt.Sprintf("route add manual-0 /m%d http://10.8.8.0:80/", rapid.IntRange(0, 5).Draw(t, "m"))
		switch flavour := rapid.SampledFrom([]string{"add", "weight", "redirect"}).Draw(t, "operator-commands"); flavour {
		case "weight":
			// a canary kept at a fixed share by the operator
			in2 := &fakeconsul.Instance{Node: "node1", NodeAddr: "10.0.1.1", ID: "web-2", Name: "web", Addr: "10.5.5.6", Port: 1001, Tags: []string{"urlprefix-/a", "canary"}, Checks: []string{"passing"}}
			w.inst["node1/web-2"] = in2
			fc.SetInstance(*in2)
			manual += fmt.Sprintf("\nroute weight web /a weight 0.%d tags \"canary\"", rapid.IntRange(1, 4).Draw(t, "canary-share"))
			hx.Class("consul-kv-outage-with-operator-weights")
		case "redirect":
			manual += "\nroute add https-redirect example.com:80/ https://example.com$path opts \"redirect=301\""
			hx.Class("consul-kv-outage-with-operator-redirect")
		}
		page := rapid.SampledFrom([]string{"<html>gone</html>", "nothing here", "<h1>404</h1>"}).Draw(t, "page")
		w.kv["fabio/config"] = manual
		fc.MutateKV(func(kv map[string]string) { kv["fabio/config"] = manual; kv["fabio/noroute.html"] = page })
		want := p.expected(w)
		if d, quiet := p.settle(want, h0, k0); d != "" {
			if !quiet {
				t.Fatalf("VERIF-INCONCLUSIVE watchers did not reach the registry's state")
			}
			t.Fatalf("before the outage the table is wrong:\n%s", d)
		}
		for deadline := time.Now().Add(5 * time.Second); noroute.GetHTML() != page; time.Sleep(5 * time.Millisecond) {
			if time.Now().After(deadline) {
				t.Fatalf("VERIF-INCONCLUSIVE the no-route page never arrived")
			}
		}
		outage := time.Duration(rapid.IntRange(1500, 2800).Draw(t, "outage_ms")) * time.Millisecond
		fc.SetKVFail(true)
		start := time.Now()
		for time.Since(start) < outage {
			if d := diff(want, actual(route.GetTable())); d != "" {
				t.Fatalf("%v into a Consul KV outage (reads fail with 500, the registry itself is unchanged) the active table lost the operator's commands:\n%s", time.Since(start).Round(time.Millisecond), d)
			}
			if got := noroute.GetHTML(); got != page {
				t.Fatalf("%v into a Consul KV outage the no-route page changed from %q to %q", time.Since(start).Round(time.Millisecond), page, got)
			}
			hx.Eval()
			time.Sleep(25 * time.Millisecond)
		}
		fc.SetKVFail(false)
		// new values after the outage are followed
		manual2, page2 := "route add manual-9 /m9 http://10.8.8.9:80/", page+"!"
		w.kv["fabio/config"] = manual2
		h0, k0 = fc.Served()
		fc.MutateKV(func(kv map[string]string) { kv["fabio/config"] = manual2; kv["fabio/noroute.html"] = page2 })
		if d, _ := p.settle(p.expected(w), h0, k0); d != "" {
			t.Fatalf("after the KV outage the table does not follow the operator's new commands:\n%s", d)
		}
		for deadline := time.Now().Add(8 * time.Second); noroute.GetHTML() != page2; time.Sleep(5 * time.Millisecond) {
			if time.Now().After(deadline) {
				t.Fatalf("after the KV outage the no-route page does not follow the new value (still %q)", noroute.GetHTML())
			}
		}
		fc.MutateKV(func(kv map[string]string) { delete(kv, "fabio/noroute.html") })
		hx.NonTrivial(fmt.Sprintf("kvoutage|%v|%s|%s", outage, manual, page))
		hx.Class("consul-kv-outage")
	})
}

func TestC01KVOutage(t *testing.T) { kvOutage(t) }
func TestC07KVOutage(t *testing.T) { kvOutage(t) }
func TestC04KVOutage(t *testing.T) { kvOutage(t) }
func TestC13KVOutage(t *testing.T) { kvOutage(t) }
