package main

import (
	"bytes"
	"errors"
	"fmt"
	"net/http"
	"net/url"
	"sort"
	"strings"
	"sync"
	"sync/atomic"
	"testing"

	"github.com/fabiolb/fabio/config"
	"github.com/fabiolb/fabio/metrics"
	"github.com/fabiolb/fabio/registry"
	"github.com/fabiolb/fabio/route"
	"pgregory.net/rapid"

	"verifharness/hx"
	"verifharness/observe"
)

// fakeBackend is a registry.Backend whose watch channels are driven by the
// generator. The channels are unbuffered: a send returns once the update
// loop has taken the value.
type fakeBackend struct {
	svc, man, html chan string
	mu             sync.Mutex
	registered     [][]string
	failRegister   int32 // > 0: Register returns an error (fault injection)
}

func newFakeBackend() *fakeBackend {
	return &fakeBackend{svc: make(chan string), man: make(chan string), html: make(chan string)}
}
func (f *fakeBackend) Register(s []string) error {
	f.mu.Lock()
	f.registered = append(f.registered, append([]string{}, s...))
	f.mu.Unlock()
	if atomic.LoadInt32(&f.failRegister) > 0 {
		return errors.New("injected: alias registration failed")
	}
	return nil
}
func (f *fakeBackend) DeregisterAll() error                             { return nil }
func (f *fakeBackend) Deregister(string) error                          { return nil }
func (f *fakeBackend) ManualPaths() ([]string, error)                   { return nil, nil }
func (f *fakeBackend) ReadManual(string) (string, uint64, error)        { return "", 0, nil }
func (f *fakeBackend) WriteManual(string, string, uint64) (bool, error) { return true, nil }
func (f *fakeBackend) WatchServices() chan string                       { return f.svc }
func (f *fakeBackend) WatchManual() chan string                         { return f.man }
func (f *fakeBackend) WatchNoRouteHTML() chan string                    { return f.html }

var (
	loopOnce sync.Once
	loopBE   *fakeBackend
)

// startLoop starts the real update loop of main.go once per process.
func startLoop() *fakeBackend {
	loopOnce.Do(func() {
		loopBE = newFakeBackend()
		registry.Default = loopBE
		cfg := &config.Config{}
		cfg.Registry.Backend = "static"
		cfg.Log.RoutesFormat = "delta"
		first := make(chan bool)
		go flex(watchBackend, cfg, metrics.Provider(metrics.DiscardProvider{}), first)
	})
	return loopBE
}

func dumpTable(tbl route.Table) string {
	var out []string
	for h, rs := range tbl {
		for i, r := range rs {
			for j, x := range r.Targets {
				out = append(out, fmt.Sprintf("%s|%d|%s|%d|%s|%s|%q|%v|%.9f", h, i, r.Path, j, x.Service, x.URL, x.Tags, x.Opts, x.Weight))
			}
		}
	}
	sort.Strings(out)
	return strings.Join(out, "\n")
}

type svcInst struct{ svc, host, path, dst string }

func (s svcInst) line() string {
	return fmt.Sprintf("route add %s %s%s %s", s.svc, s.host, s.path, s.dst)
}

// TestC02bUpdateHistory: every finite sequence of valid and invalid service /
// manual updates through the real loop: an invalid update leaves the active
// table untouched, the next valid one is applied.
func TestC02bUpdateHistory(t *testing.T) { updateHistory(t) }

// C05: the operator's commands are applied on top of the service routes, in that order, whichever
// side changed last - the same histories through the real update loop.
func TestC05UpdateLoop(t *testing.T) { updateHistory(t) }

// C03 / C12: requests are routed (and admitted) by the routes of the current configuration; the
// same histories once more - after every update the active table is the last good one and the
// lookups agree with it.
func TestC03UpdateLoop(t *testing.T) { updateHistory(t) }
func TestC12UpdateLoop(t *testing.T) { updateHistory(t) }

func updateHistory(t *testing.T) {
	be := startLoop()
	hx.Check(t, hx.Scale(300, 5000), func(t *rapid.T) {
		// a reset is itself a legal history: both sides empty gives an empty, valid table
		svcText, manText := "", ""
		send := func(ch chan string, v string) {
			ch <- v
		}
		barrier := func() {
			// the loop is single threaded: once it has accepted two more
			// (no-op) values the previous update has been fully processed
			be.svc <- svcText
			be.man <- manText
		}
		send(be.svc, "")
		send(be.man, "")
		barrier()
		lastGood := "\n"
		if got := route.GetTable(); len(got) != 0 {
			t.Fatalf("reset did not produce an empty table: %s", got.String())
		}

		var svcs []svcInst
		n := rapid.IntRange(3, 30).Draw(t, "nupdates")
		var hist []string
		sawInvalid, invalidThenValid := false, false
		for i := 0; i < n; i++ {
			valid := true
			side := rapid.SampledFrom([]string{"svc", "svc", "man"}).Draw(t, "side")
			if side == "svc" {
				// a new set of healthy instances
				svcs = nil
				ninst := rapid.IntRange(0, 5).Draw(t, "ninst")
				if rapid.IntRange(0, 3).Draw(t, "large") == 0 {
					// a configuration of several KiB (the loop reuses one buffer for all updates)
					ninst = rapid.IntRange(100, 400).Draw(t, "ninst_large")
				}
				for k, m := 0, ninst; k < m; k++ {
					svcs = append(svcs, svcInst{
						svc:  rapid.SampledFrom([]string{"svc-a", "svc-b", "svc-c"}).Draw(t, "svc"),
						host: rapid.SampledFrom([]string{"", "foo.com", "bar.com"}).Draw(t, "host"),
						path: rapid.SampledFrom([]string{"/", "/a", "/a/b"}).Draw(t, "path"),
						dst:  fmt.Sprintf("http://10.%d.%d.%d:80/", i, k/250, k%250),
					})
				}
				var lines []string
				for _, s := range svcs {
					lines = append(lines, s.line())
				}
				switch rapid.IntRange(0, 5).Draw(t, "svcbad") {
				case 0:
					bad := rapid.SampledFrom([]string{"route add broken", "rout add a / http://x/", "route add a / http://[::1", "route add a / http://h:1/ weight abc", "garbage", `route add a / http://h:1/ tags "x`}).Draw(t, "badline")
					at := rapid.IntRange(0, len(lines)).Draw(t, "badat")
					if rapid.Bool().Draw(t, "badearly") {
						at = rapid.IntRange(0, min(3, len(lines))).Draw(t, "badat_early")
					}
					lines = append(lines[:at], append([]string{bad}, lines[at:]...)...)
					svcs = nil // the service side is unusable as a whole now
					svcText = strings.Join(lines, "\n")
					valid = false
				default:
					svcText = strings.Join(lines, "\n")
				}
			} else {
				var lines []string
				for k, m := 0, rapid.IntRange(0, 3).Draw(t, "nman"); k < m; k++ {
					switch rapid.IntRange(0, 4).Draw(t, "mankind") {
					case 0:
						lines = append(lines, fmt.Sprintf("route add man-%d /m%d http://10.9.%d.%d:80/", k, k, i, k))
					case 1:
						lines = append(lines, "route del "+rapid.SampledFrom([]string{"svc-a", "svc-b", "svc-zz"}).Draw(t, "delsvc"))
					case 2:
						lines = append(lines, "# just a comment")
					case 3: // weight on a route of the service side: valid only while it exists
						s := rapid.SampledFrom([]string{"svc-a", "svc-b", "svc-c"}).Draw(t, "wsvc")
						h := rapid.SampledFrom([]string{"", "foo.com", "bar.com"}).Draw(t, "whost")
						p := rapid.SampledFrom([]string{"/", "/a", "/a/b"}).Draw(t, "wpath")
						lines = append(lines, fmt.Sprintf("route weight %s %s%s weight 0.5", s, h, p))
					default:
						lines = append(lines, rapid.SampledFrom([]string{"route add broken", "route weight", "route del", "nonsense line", "route add m / http://%zz/"}).Draw(t, "manbad"))
					}
				}
				manText = strings.Join(lines, "\n")
			}
			// harness-side validity model of the combined text
			candidate := svcText + "\n" + manText
			valid = textValid(candidate)
			// the registration of the route aliases with the registry (a side effect of an
			// update) fails now and then; the table must follow the configuration all the same
			regFails := rapid.IntRange(0, 3).Draw(t, "register-fails") == 0
			if regFails {
				atomic.StoreInt32(&be.failRegister, 1)
				hx.Class("update-while-alias-registration-fails")
			}
			if side == "svc" {
				send(be.svc, svcText)
			} else {
				send(be.man, manText)
			}
			barrier()
			atomic.StoreInt32(&be.failRegister, 0)
			hx.Eval()
			hist = append(hist, fmt.Sprintf("%s valid=%v: %q", side, valid, hx.Trunc(strings.ReplaceAll(candidate, "\n", " ; "), 300)))
			if valid {
				lastGood = candidate
				if sawInvalid {
					invalidThenValid = true
				}
			} else {
				sawInvalid = true
			}
			want, err := route.NewTable(bytes.NewBufferString(lastGood))
			if err != nil {
				t.Fatalf("harness validity model disagrees with NewTable on %q: %v", lastGood, err)
			}
			got := route.GetTable()
			if a, b := dumpTable(got), dumpTable(want); a != b {
				t.Fatalf("after update %d (%s, valid=%v) the active table is not the last good table\nactive:\n%s\nlast good:\n%s\nhistory:\n%s", i, side, valid, a, b, strings.Join(hist, "\n"))
			}
			// a few lookups must agree as well (also after somebody listed the table through the admin API)
			if rapid.IntRange(0, 2).Draw(t, "admin-lists-the-active-table") == 0 {
				hx.EvalN(observe.Poke(got))
				hx.Class("admin-endpoints-read-the-active-table-before-the-lookups")
			}
			for _, s := range svcs {
				req := func() *http.Request {
					return &http.Request{Host: s.host, URL: &url.URL{Path: s.path + "/x"}, Header: http.Header{}}
				}
				g := got.Lookup(req(), "", route.Picker["rnd"], route.Matcher["prefix"], route.NewGlobCache(10), false)
				w := want.Lookup(req(), "", route.Picker["rnd"], route.Matcher["prefix"], route.NewGlobCache(10), false)
				if (g == nil) != (w == nil) {
					t.Fatalf("lookup %s%s differs between active and last good table", s.host, s.path)
				}
				if a, b := routeOfTarget(got, g), routeOfTarget(want, w); a != b {
					t.Fatalf("request %s%s/x is answered by route %q of the active table, by route %q of the last good table\nhistory:\n%s", s.host, s.path, a, b, strings.Join(hist, "\n"))
				}
			}
		}
		if invalidThenValid {
			hx.NonTrivial(strings.Join(hist, "\n"))
			hx.Class("history-with-invalid-then-valid")
			if hx.WantSample("history") && len(hist) <= 8 {
				hx.Sample("history", hist)
			}
		}
		if sawInvalid {
			hx.Class("history-with-invalid")
		}
	})
}

// routeOfTarget names the route (host and path) of the table that holds the target.
func routeOfTarget(tbl route.Table, tg *route.Target) string {
	if tg == nil {
		return "<none>"
	}
	for host, routes := range tbl {
		for _, r := range routes {
			for _, x := range r.Targets {
				if x == tg || (x.URL != nil && tg.URL != nil && x.Service == tg.Service && x.URL.String() == tg.URL.String()) {
					return host + r.Path
				}
			}
		}
	}
	return "<not in the table>"
}

// textValid is the harness's own judgement of a combined config text built
// from the line shapes generated above.
func textValid(text string) bool {
	type key struct{ svc, src string }
	have := map[key]int{}
	for _, l := range strings.Split(text, "\n") {
		l = strings.TrimSpace(l)
		f := strings.Fields(l)
		switch {
		case l == "" || strings.HasPrefix(l, "#"):
		case len(f) == 5 && f[0] == "route" && f[1] == "add":
			if strings.Contains(f[4], "[::1") || strings.Contains(f[4], "%zz") {
				return false
			}
			src := f[3]
			have[key{f[2], strings.ToLower(src)}]++
		case len(f) == 3 && f[0] == "route" && f[1] == "del":
			for k := range have {
				if k.svc == f[2] {
					delete(have, k)
				}
			}
		case len(f) == 6 && f[0] == "route" && f[1] == "weight" && f[4] == "weight":
			if have[key{f[2], strings.ToLower(f[3])}] == 0 {
				return false
			}
		default:
			return false
		}
	}
	return true
}

// SetTable(nil) is what the custom backend hands over after a bad payload:
// it must be ignored.
func TestC02bNilTableIgnored(t *testing.T) {
	startLoop()
	hx.Check(t, hx.Scale(200, 5000), func(t *rapid.T) {
		n := rapid.IntRange(1, 4).Draw(t, "n")
		var lines []string
		for i := 0; i < n; i++ {
			lines = append(lines, fmt.Sprintf("route add s%d /p%d http://10.1.1.%d:80/", i, rapid.IntRange(0, 3).Draw(t, "p"), i))
		}
		tbl, err := route.NewTable(bytes.NewBufferString(strings.Join(lines, "\n")))
		if err != nil {
			t.Fatal(err)
		}
		route.SetTable(tbl)
		before := dumpTable(route.GetTable())
		for i, k := 0, rapid.IntRange(1, 3).Draw(t, "nils"); i < k; i++ {
			route.SetTable(nil)
		}
		hx.Eval()
		got := route.GetTable()
		if got == nil || dumpTable(got) != before {
			t.Fatalf("SetTable(nil) replaced the active table")
		}
		hx.NonTrivial(before)
	})
}
