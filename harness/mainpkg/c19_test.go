package main

import (
	"fmt"
	"net/http"
	"testing"
	"time"

	"github.com/fabiolb/fabio/config"
	"github.com/fabiolb/fabio/metrics"
	"github.com/fabiolb/fabio/proxy"
	"github.com/fabiolb/fabio/transport"
	"pgregory.net/rapid"

	"verifharness/hx"
)

// TestC19MainTransports: the transports main.go's newHTTPProxy builds carry
// the configured limits once the configuration has been handed to the
// transport package the way main() does.
func TestC19MainTransports(t *testing.T) {
	defer transport.SetConfig(&config.Config{})
	hx.Check(t, hx.Scale(500, 20000), func(t *rapid.T) {
		cfg, err := config.Load([]string{"fabio"}, nil)
		if err != nil {
			t.Fatal(err)
		}
		cfg.Proxy.ResponseHeaderTimeout = time.Duration(rapid.IntRange(0, 100000).Draw(t, "rht")) * time.Millisecond
		cfg.Proxy.IdleConnTimeout = time.Duration(rapid.IntRange(0, 100000).Draw(t, "idle")) * time.Millisecond
		cfg.Proxy.MaxConn = rapid.IntRange(0, 20000).Draw(t, "maxconn")
		cfg.Proxy.DialTimeout = time.Duration(rapid.IntRange(0, 100000).Draw(t, "dial")) * time.Millisecond
		cfg.Proxy.KeepAliveTimeout = time.Duration(rapid.IntRange(0, 100000).Draw(t, "ka")) * time.Millisecond
		transport.SetConfig(cfg) // main(): transport.SetConfig(cfg)
		h := flexAs[*proxy.HTTPProxy](newHTTPProxy, cfg, &proxy.HttpStatsHandler{Noroute: metrics.DiscardProvider{}.NewCounter("x")}, firstListen(cfg))
		hx.Eval()
		for name, rt := range map[string]http.RoundTripper{"Transport": h.Transport, "InsecureTransport": h.InsecureTransport} {
			tr, ok := rt.(*http.Transport)
			if !ok {
				t.Fatalf("%s is %T", name, rt)
			}
			if tr.ResponseHeaderTimeout != cfg.Proxy.ResponseHeaderTimeout || tr.IdleConnTimeout != cfg.Proxy.IdleConnTimeout || tr.MaxIdleConnsPerHost != cfg.Proxy.MaxConn {
				t.Fatalf("HTTPProxy.%s built by newHTTPProxy has ResponseHeaderTimeout=%v IdleConnTimeout=%v MaxIdleConnsPerHost=%d; configured %v %v %d",
					name, tr.ResponseHeaderTimeout, tr.IdleConnTimeout, tr.MaxIdleConnsPerHost, cfg.Proxy.ResponseHeaderTimeout, cfg.Proxy.IdleConnTimeout, cfg.Proxy.MaxConn)
			}
		}
		hx.NonTrivial(fmt.Sprint(cfg.Proxy.ResponseHeaderTimeout, cfg.Proxy.IdleConnTimeout, cfg.Proxy.MaxConn))
	})
}
