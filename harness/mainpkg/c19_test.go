package main

import (
	"fmt"
	"net/http"
	"testing"
	"time"

	"github.com/fabiolb/fabio/config"
	"github.com/fabiolb/fabio/metrics"
	"github.com/fabiolb/fabio/proxy"
	"github.com/fabiolb/fabio/transport"
	"pgregory.net/rapid"

	"verifharness/hx"
)

// TestC19MainTransports: the transports main.go's newHTTPProxy builds carry
// the configured limits once the configuration has been handed to the
// transport package the way main() does.
func TestC19MainTransports(t *testing.T) {
	defer transport.SetConfig(&config.Config{})
	hx.Check(t, hx.Scale(500, 20000), func(t *rapid.T) {
		// the limits are given the way an operator gives them: as options, next to listeners with
		// timeouts of their own (rt, wt, it), which are a different matter
		ms := func(label string) time.Duration {
			return time.Duration(rapid.IntRange(0, 100000).Draw(t, label)) * time.Millisecond
		}
		want := config.Proxy{ResponseHeaderTimeout: ms("rht"), IdleConnTimeout: ms("idle"), DialTimeout: ms("dial"), KeepAliveTimeout: ms("ka"), MaxConn: rapid.IntRange(0, 20000).Draw(t, "maxconn")}
		listeners := rapid.SampledFrom([]string{":19999", ":19999;proto=http;rt=5s;wt=300ms", ":19999,:15432;proto=tcp;wt=300ms;rt=200ms", ":19999;it=1s,:15432;proto=tcp;wt=10ms", ":19999;proto=http;wt=1ms,:19998;proto=grpc"}).Draw(t, "proxy.addr")
		args := []string{"fabio", "-proxy.addr", listeners,
			"-proxy.responseheadertimeout", want.ResponseHeaderTimeout.String(), "-proxy.idleconntimeout", want.IdleConnTimeout.String(),
			"-proxy.dialtimeout", want.DialTimeout.String(), "-proxy.keepalivetimeout", want.KeepAliveTimeout.String(), "-proxy.maxconn", fmt.Sprint(want.MaxConn)}
		// the limits may also come from the environment or a properties file, next to other
		// settings; when one of those is unusable Load refuses the lot - what it accepts carries
		// the limits as given
		var env []string
		if rapid.IntRange(0, 2).Draw(t, "limits-from-the-environment") == 0 {
			pre := rapid.SampledFrom([]string{"FABIO_", ""}).Draw(t, "envprefix")
			env = []string{
				pre + "PROXY_RESPONSEHEADERTIMEOUT=" + want.ResponseHeaderTimeout.String(), pre + "PROXY_IDLECONNTIMEOUT=" + want.IdleConnTimeout.String(),
				pre + "PROXY_DIALTIMEOUT=" + want.DialTimeout.String(), pre + "PROXY_KEEPALIVETIMEOUT=" + want.KeepAliveTimeout.String(), pre + "PROXY_MAXCONN=" + fmt.Sprint(want.MaxConn),
			}
			args = []string{"fabio", "-proxy.addr", listeners}
			neighbour := rapid.SampledFrom([]string{"", "", "FABIO_INSECURE=yes", "METRICS_INTERVAL=30", "FABIO_GLOB_CACHE_SIZE=abc", "FABIO_LOG_LEVEL=INFO", "FABIO_BGP_ENABLED=maybe", "FABIO_UI_COLOR=blue", "FABIO_REGISTRY_TIMEOUT=soon", "FABIO_PROXY_GZIP_CONTENTTYPE=("}).Draw(t, "neighbour-setting")
			if neighbour != "" {
				env = append(env, neighbour)
			}
			hx.Class("limits-from-the-environment")
			cfg, err := config.Load(args, env)
			if err != nil {
				hx.Class("limits-from-the-environment:refused-because-of-a-neighbour")
				return
			}
			if cfg.Proxy.ResponseHeaderTimeout != want.ResponseHeaderTimeout || cfg.Proxy.IdleConnTimeout != want.IdleConnTimeout || cfg.Proxy.DialTimeout != want.DialTimeout || cfg.Proxy.KeepAliveTimeout != want.KeepAliveTimeout || cfg.Proxy.MaxConn != want.MaxConn {
				t.Fatalf("environment %q accepted, but loaded as responseheadertimeout=%v idleconntimeout=%v dialtimeout=%v keepalivetimeout=%v maxconn=%d", env, cfg.Proxy.ResponseHeaderTimeout, cfg.Proxy.IdleConnTimeout, cfg.Proxy.DialTimeout, cfg.Proxy.KeepAliveTimeout, cfg.Proxy.MaxConn)
			}
		}
		cfg, err := config.Load(args, env)
		if err != nil {
			t.Fatalf("config rejected: %v %q %q", err, args, env)
		}
		if cfg.Proxy.ResponseHeaderTimeout != want.ResponseHeaderTimeout || cfg.Proxy.IdleConnTimeout != want.IdleConnTimeout || cfg.Proxy.DialTimeout != want.DialTimeout || cfg.Proxy.KeepAliveTimeout != want.KeepAliveTimeout || cfg.Proxy.MaxConn != want.MaxConn {
			t.Fatalf("options %q loaded as responseheadertimeout=%v idleconntimeout=%v dialtimeout=%v keepalivetimeout=%v maxconn=%d", args[1:], cfg.Proxy.ResponseHeaderTimeout, cfg.Proxy.IdleConnTimeout, cfg.Proxy.DialTimeout, cfg.Proxy.KeepAliveTimeout, cfg.Proxy.MaxConn)
		}
		transport.SetConfig(cfg) // main(): transport.SetConfig(cfg)
		h := flexAs[*proxy.HTTPProxy](newHTTPProxy, cfg, &proxy.HttpStatsHandler{Noroute: metrics.DiscardProvider{}.NewCounter("x")}, firstListen(cfg))
		hx.Eval()
		for name, rt := range map[string]http.RoundTripper{"Transport": h.Transport, "InsecureTransport": h.InsecureTransport} {
			tr, ok := rt.(*http.Transport)
			if !ok {
				t.Fatalf("%s is %T", name, rt)
			}
			if tr.ResponseHeaderTimeout != cfg.Proxy.ResponseHeaderTimeout || tr.IdleConnTimeout != cfg.Proxy.IdleConnTimeout || tr.MaxIdleConnsPerHost != cfg.Proxy.MaxConn {
				t.Fatalf("HTTPProxy.%s built by newHTTPProxy has ResponseHeaderTimeout=%v IdleConnTimeout=%v MaxIdleConnsPerHost=%d; configured %v %v %d",
					name, tr.ResponseHeaderTimeout, tr.IdleConnTimeout, tr.MaxIdleConnsPerHost, cfg.Proxy.ResponseHeaderTimeout, cfg.Proxy.IdleConnTimeout, cfg.Proxy.MaxConn)
			}
		}
		hx.NonTrivial(fmt.Sprint(cfg.Proxy.ResponseHeaderTimeout, cfg.Proxy.IdleConnTimeout, cfg.Proxy.MaxConn))
	})
}
