package main

import (
	"bytes"
	"fmt"
	"io"
	"net"
	"net/http"
	"net/http/httptest"
	"strings"
	"sync"
	"testing"
	"time"

	"github.com/fabiolb/fabio/config"
	"github.com/fabiolb/fabio/metrics"
	"github.com/fabiolb/fabio/proxy"
	"github.com/fabiolb/fabio/route"
	"pgregory.net/rapid"

	"verifharness/hx"
)

// One fabio per process wired by main.go itself with the prometheus metrics
// provider (it keeps label names: a counter that is fed a label it was not
// declared with panics): config.Load, metrics.Initialize,
// route.SetMetricsProvider, startServers.
var (
	promOnce sync.Once
	promAddr string
	promUp   *httptest.Server
)

func promFabio(t interface{ Fatalf(string, ...any) }) (addr string, up *httptest.Server) {
	promOnce.Do(func() {
		promUp = httptest.NewServer(http.HandlerFunc(func(w http.ResponseWriter, r *http.Request) {
			if c := r.URL.Query().Get("status"); c != "" {
				var code int
				fmt.Sscan(c, &code)
				w.WriteHeader(code)
			}
			io.WriteString(w, "upstream")
		}))
		promAddr = freeAddr()
		cfg, err := config.Load([]string{"fabio", "-metrics.target", "prometheus", "-proxy.addr", promAddr + ";proto=http", "-ui.addr", freeAddr()}, nil)
		if err != nil {
			t.Fatalf("config: %v", err)
		}
		p, err := metrics.Initialize(&cfg.Metrics)
		if err != nil {
			t.Fatalf("metrics: %v", err)
		}
		route.SetMetricsProvider(p)
		flex(startServers, cfg, p)
		if !waitListening(promAddr) {
			t.Fatalf("VERIF-INCONCLUSIVE listener did not come up")
		}
	})
	return promAddr, promUp
}

// TestC13MainWiringPrometheus: redirect routes (any 3xx code) answered by a
// fabio that main.go wired with metrics.target=prometheus.
func TestC13MainWiringPrometheus(t *testing.T) {
	addr, up := promFabio(t)
	hx.Check(t, hx.Scale(200, 3000), func(t *rapid.T) {
		code := rapid.SampledFrom([]int{301, 302, 303, 307, 308, 300, 399}).Draw(t, "code")
		host := rapid.SampledFrom([]string{"", "r.example"}).Draw(t, "routehost")
		text := fmt.Sprintf("route add redir %s/old https://new.example/$path opts \"redirect=%d\"\nroute add web / %s/\n", host, code, up.URL)
		tbl, err := route.NewTable(bytes.NewBufferString(text))
		if err != nil {
			t.Fatalf("%v\n%s", err, text)
		}
		route.SetTable(tbl)
		for k, n := 0, rapid.IntRange(1, 4).Draw(t, "requests"); k < n; k++ {
			kind := rapid.SampledFrom([]string{"redirect", "forwarded", "forwarded-status"}).Draw(t, "kind")
			path, wantCode, wantLoc := "/old/x", code, "https://new.example/old/x"
			switch kind {
			case "forwarded":
				path, wantCode, wantLoc = "/app", 200, ""
			case "forwarded-status":
				st := rapid.SampledFrom([]int{201, 404, 418, 500, 503}).Draw(t, "status")
				path, wantCode, wantLoc = fmt.Sprintf("/app?status=%d", st), st, ""
			}
			c, err := net.DialTimeout("tcp", addr, 3*time.Second)
			if err != nil {
				t.Fatalf("VERIF-INCONCLUSIVE dial: %v", err)
			}
			c.SetDeadline(time.Now().Add(10 * time.Second))
			fmt.Fprintf(c, "GET %s HTTP/1.1\r\nHost: r.example\r\nConnection: close\r\n\r\n", path)
			raw, _ := io.ReadAll(c)
			c.Close()
			hx.Eval()
			head := strings.SplitN(string(raw), "\r\n\r\n", 2)[0]
			if !strings.HasPrefix(head, fmt.Sprintf("HTTP/1.1 %d", wantCode)) {
				t.Fatalf("metrics.target=prometheus, %s request %s: the client received %q, want status %d\n%s", kind, path, hx.Trunc(string(raw), 200), wantCode, text)
			}
			if wantLoc != "" && !strings.Contains(head, "Location: "+wantLoc) {
				t.Fatalf("redirect without the expected Location %q: %q\n%s", wantLoc, head, text)
			}
			hx.Class("prometheus-wiring:" + kind)
		}
		hx.NonTrivial(fmt.Sprintf("prom|%d|%s", code, host))
	})
}

// TestC13MainWiringMatchers: a redirect route is found under every matcher an operator can
// configure, whatever the host-glob option says (it concerns host names only), through the
// proxy main.go builds from the option text.
func TestC13MainWiringMatchers(t *testing.T) {
	hx.Check(t, hx.Scale(100, 1500), func(t *rapid.T) {
		matcher := rapid.SampledFrom([]string{"glob", "iprefix", "prefix"}).Draw(t, "proxy.matcher")
		globOff := rapid.Bool().Draw(t, "glob.matching.disabled")
		cfg, err := config.Load([]string{"fabio", "-proxy.matcher", matcher, fmt.Sprintf("-glob.matching.disabled=%v", globOff)}, nil)
		if err != nil {
			t.Fatal(err)
		}
		routePath := map[string]string{"glob": "/old/**", "iprefix": "/OLD", "prefix": "/old"}[matcher]
		code := rapid.SampledFrom([]int{301, 302, 308}).Draw(t, "code")
		text := fmt.Sprintf("route add redir %s https://new.example/$path opts \"redirect=%d strip=/old\"\nroute add web / http://127.0.0.1:1/\n", routePath, code)
		tbl, err := route.NewTable(bytes.NewBufferString(text))
		if err != nil {
			t.Fatalf("%v\n%s", err, text)
		}
		route.SetTable(tbl)
		h := flexAs[*proxy.HTTPProxy](newHTTPProxy, cfg, &proxy.HttpStatsHandler{Noroute: metrics.DiscardProvider{}.NewCounter("x")}, firstListen(cfg))
		path := rapid.SampledFrom([]string{"/old/x", "/old/a/b", "/old/"}).Draw(t, "path")
		rec := httptest.NewRecorder()
		req := httptest.NewRequest("GET", "http://example.com"+path, nil)
		req.RemoteAddr = "192.0.2.1:1234"
		h.ServeHTTP(rec, req)
		hx.Eval()
		want := "https://new.example" + strings.TrimPrefix(path, "/old")
		if rec.Code != code || rec.Header().Get("Location") != want {
			t.Fatalf("proxy.matcher=%s glob.matching.disabled=%v: request %s answered %d Location %q, want %d %q\n%s", matcher, globOff, path, rec.Code, rec.Header().Get("Location"), code, want, text)
		}
		// what is configured for tracing (span names from a template over the request) has no say in
		// the answer: the same request with a query, with and without tracing.SpanName
		span := rapid.SampledFrom([]string{"{{.Proto}} {{.Method}} {{.Host}} {{.Scheme}} {{.Path}}", "{{.Method}} {{.Path}}", "static-name", "{{.Host}}"}).Draw(t, "tracing.SpanName")
		cfgT, err := config.Load([]string{"fabio", "-proxy.matcher", matcher, fmt.Sprintf("-glob.matching.disabled=%v", globOff), "-tracing.SpanName", span}, nil)
		if err != nil {
			t.Fatal(err)
		}
		hT := flexAs[*proxy.HTTPProxy](newHTTPProxy, cfgT, &proxy.HttpStatsHandler{Noroute: metrics.DiscardProvider{}.NewCounter("x")}, firstListen(cfgT))
		query := rapid.SampledFrom([]string{"q=fabio&page=2", "x=1", "a=%20b"}).Draw(t, "query")
		var loc [2]string
		for i, hh := range []*proxy.HTTPProxy{h, hT} {
			rq := httptest.NewRequest("GET", "http://example.com"+path+"?"+query, nil)
			rq.RemoteAddr = "192.0.2.1:1234"
			rc := httptest.NewRecorder()
			hh.ServeHTTP(rc, rq)
			loc[i] = fmt.Sprintf("%d %s", rc.Code, rc.Header().Get("Location"))
		}
		if loc[0] != loc[1] {
			t.Fatalf("request %s?%s: answered %q without and %q with tracing.SpanName=%q\n%s", path, query, loc[0], loc[1], span, text)
		}
		hx.Class("main-wiring-redirect:with-and-without-a-span-name-template")
		hx.NonTrivial(fmt.Sprintf("matcher-redirect|%s|%v|%d|%s", matcher, globOff, code, path))
		hx.Class("main-wiring-redirect:matcher=" + matcher)
	})
}
