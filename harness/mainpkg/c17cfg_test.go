package main

import (
	"bytes"
	"compress/gzip"
	"fmt"
	"io"
	"net/http"
	"net/http/httptest"
	"os"
	"path/filepath"
	"strings"
	"testing"

	"github.com/fabiolb/fabio/config"
	"github.com/fabiolb/fabio/metrics"
	"github.com/fabiolb/fabio/proxy"
	"github.com/fabiolb/fabio/route"
	"pgregory.net/rapid"

	"verifharness/hx"
)

// TestC17CompressionAsConfigured: "when compression is configured" - the expression may be given
// in the properties file, the environment (prefixed or not) or on the command line, and a higher
// source may switch it off again with an empty value.  The proxy main.go builds from the loaded
// configuration compresses a matching response exactly when the effective expression says so,
// and the client always gets the upstream's bytes.
func TestC17CompressionAsConfigured(t *testing.T) {
	body := strings.Repeat("hello compression ", 200)
	up := httptest.NewServer(http.HandlerFunc(func(w http.ResponseWriter, r *http.Request) {
		w.Header().Set("Content-Type", "text/plain; charset=utf-8")
		io.WriteString(w, body)
	}))
	defer up.Close()
	dir := t.TempDir()
	n := 0
	hx.Check(t, hx.Scale(200, 4000), func(t *rapid.T) {
		n++
		// value per source: "-" = the source does not set the option
		// (the last one has a blank: it matches "text/plain; charset=utf-8" only as a whole)
		vals := []string{"-", "", "^text/.*$", "^image/.*$", "^text/plain; charset=utf-8$", "^text/html; charset=utf-8$"}
		cmd := rapid.SampledFrom(vals).Draw(t, "cmdline")
		envF := rapid.SampledFrom(vals).Draw(t, "FABIO_env")
		envP := rapid.SampledFrom(vals).Draw(t, "plain_env")
		file := rapid.SampledFrom(vals).Draw(t, "file")
		args := []string{"fabio"}
		var env []string
		effective := ""
		for _, v := range []string{file, envP, envF, cmd} { // lowest to highest precedence
			if v != "-" {
				effective = v
			}
		}
		if file != "-" {
			p := filepath.Join(dir, fmt.Sprintf("c17-%d.properties", n))
			if err := os.WriteFile(p, []byte("proxy.gzip.contenttype = "+strings.ReplaceAll(file, `\`, `\\`)+"\n"), 0o600); err != nil {
				t.Fatal(err)
			}
			defer os.Remove(p)
			args = append(args, "-cfg", p)
		}
		if envP != "-" {
			env = append(env, "proxy_gzip_contenttype="+envP)
		}
		if envF != "-" {
			env = append(env, "FABIO_PROXY_GZIP_CONTENTTYPE="+envF)
		}
		if cmd != "-" {
			args = append(args, "-proxy.gzip.contenttype="+cmd)
		}
		cfg, err := config.Load(args, env)
		hx.Eval()
		if err != nil {
			t.Fatalf("configuration rejected: %v (args %q env %q)", err, args, env)
		}
		tbl, err := route.NewTable(bytes.NewBufferString("route add svc / " + up.URL + "/"))
		if err != nil {
			t.Fatal(err)
		}
		route.SetTable(tbl)
		h := flexAs[*proxy.HTTPProxy](newHTTPProxy, cfg, &proxy.HttpStatsHandler{Noroute: metrics.DiscardProvider{}.NewCounter("x")}, firstListen(cfg))
		req := httptest.NewRequest("GET", "http://example.com/x", nil)
		req.RemoteAddr = "192.0.2.1:999"
		req.Header.Set("Accept-Encoding", "gzip")
		rec := httptest.NewRecorder()
		h.ServeHTTP(rec, req)
		res := rec.Result()
		got, _ := io.ReadAll(res.Body)
		compressed := res.Header.Get("Content-Encoding") == "gzip"
		want := effective == "^text/.*$" || effective == "^text/plain; charset=utf-8$"
		desc := fmt.Sprintf("proxy.gzip.contenttype: file=%q plain env=%q FABIO_ env=%q command line=%q (\"-\" = not set) -> effective %q", file, envP, envF, cmd, effective)
		if compressed != want {
			t.Fatalf("a text/plain response was compressed=%v, configured: %v\n%s", compressed, want, desc)
		}
		if compressed {
			zr, err := gzip.NewReader(strings.NewReader(string(got)))
			if err != nil {
				t.Fatalf("not gzip: %v\n%s", err, desc)
			}
			got, _ = io.ReadAll(zr)
		}
		if string(got) != body || res.StatusCode != 200 {
			t.Fatalf("status %d, %d body bytes, upstream sent 200 and %d bytes\n%s", res.StatusCode, len(got), len(body), desc)
		}
		set := 0
		for _, v := range []string{file, envP, envF, cmd} {
			if v != "-" {
				set++
			}
		}
		if set >= 2 {
			hx.NonTrivial(desc)
			hx.Class("compression-configured-in-several-sources")
		}
		if effective == "" && set >= 2 {
			hx.Class("compression-switched-off-by-a-higher-source")
		}
	})
}
