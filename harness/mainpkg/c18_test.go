package main

import (
	"bufio"
	"bytes"
	"context"
	"crypto/ecdsa"
	"crypto/elliptic"
	"crypto/rand"
	"crypto/tls"
	"crypto/x509"
	"crypto/x509/pkix"
	"fmt"
	"io"
	"math/big"
	"net"
	"net/http"
	"net/http/httptest"
	"net/url"
	"strings"
	"sync"
	"sync/atomic"
	"syscall"
	"testing"
	"time"

	"github.com/fabiolb/fabio/config"
	"github.com/fabiolb/fabio/metrics"
	"github.com/fabiolb/fabio/proxy"
	"github.com/fabiolb/fabio/proxy/tcp"
	"github.com/fabiolb/fabio/route"
	"google.golang.org/grpc"
	"google.golang.org/grpc/codes"
	"google.golang.org/grpc/credentials/insecure"
	"google.golang.org/grpc/metadata"
	"google.golang.org/grpc/status"
	"pgregory.net/rapid"

	"verifharness/hx"
)

func freeAddr() string { return hx.FreeAddr() }

func waitListening(addr string) bool {
	for i := 0; i < 400; i++ {
		c, err := net.DialTimeout("tcp", addr, 200*time.Millisecond)
		if err == nil {
			c.Close()
			return true
		}
		time.Sleep(5 * time.Millisecond)
	}
	return false
}

func selfSigned() tls.Certificate {
	key, _ := ecdsa.GenerateKey(elliptic.P256(), rand.Reader)
	tmpl := &x509.Certificate{SerialNumber: big.NewInt(1), Subject: pkix.Name{CommonName: "c18"}, NotBefore: time.Now().Add(-time.Hour), NotAfter: time.Now().Add(time.Hour), DNSNames: []string{"localhost", "web.example"}}
	der, _ := x509.CreateCertificate(rand.Reader, tmpl, tmpl, &key.PublicKey, key)
	return tls.Certificate{Certificate: [][]byte{der}, PrivateKey: key}
}

type work struct {
	kind    string        // http, https, tcp, sni, grpc-unary, grpc-stream
	dur     time.Duration // how long the upstream takes; <0 = never ends
	short   bool
	done    chan string // "" = completed normally, otherwise what went wrong
	started chan struct{}
}

// TestC18Shutdown: every mix of listeners, in-flight work and shutdown moment.
func TestC18Shutdown(t *testing.T) {
	h := startGRPC(t) // scripted gRPC backends (and their registry of scripts)
	cert := selfSigned()

	// upstreams shared by all cases
	httpUp := httptest.NewServer(http.HandlerFunc(func(w http.ResponseWriter, r *http.Request) {
		d := time.Duration(0)
		fmt.Sscan(r.URL.Query().Get("d"), (*int64)(&d))
		if d < 0 {
			<-r.Context().Done()
			return
		}
		select {
		case <-time.After(d):
		case <-r.Context().Done():
			return
		}
		io.WriteString(w, "http-upstream-done")
	}))
	// not closed: Close() would wait for requests that never end by design
	tcpUp, err := hx.Listen("tcp", "127.0.0.1:0")
	if err != nil {
		t.Fatal(err)
	}
	defer tcpUp.Close()
	go func() {
		for {
			c, err := tcpUp.Accept()
			if err != nil {
				return
			}
			go func(c net.Conn) {
				defer c.Close()
				br := bufio.NewReader(c)
				// SNI tunnels start with a ClientHello record: skip it
				if b, _ := br.Peek(1); len(b) == 1 && b[0] == 0x16 {
					hdr := make([]byte, 5)
					io.ReadFull(br, hdr)
					io.CopyN(io.Discard, br, int64(hdr[3])<<8|int64(hdr[4]))
				}
				line, err := br.ReadString('\n') // "<nanoseconds>\n"
				if err != nil {
					return
				}
				var d int64
				fmt.Sscan(strings.TrimSpace(line), &d)
				if d < 0 {
					io.Copy(io.Discard, br) // never answers
					return
				}
				time.Sleep(time.Duration(d))
				c.Write([]byte("tcp-upstream-done\n"))
			}(c)
		}
	}()
	httpUpURL, _ := url.Parse(httpUp.URL)
	// an upstream that never completes the TCP handshake: a listening socket with a full accept queue
	stalledAddr := ""
	if fd, err := syscall.Socket(syscall.AF_INET, syscall.SOCK_STREAM, 0); err == nil {
		if syscall.Bind(fd, &syscall.SockaddrInet4{Addr: [4]byte{127, 0, 0, 1}}) == nil && syscall.Listen(fd, 0) == nil {
			sa, _ := syscall.Getsockname(fd)
			addr := fmt.Sprintf("127.0.0.1:%d", sa.(*syscall.SockaddrInet4).Port)
			var keep []net.Conn
			for i := 0; i < 8; i++ {
				c, err := net.DialTimeout("tcp", addr, 300*time.Millisecond)
				if err != nil {
					stalledAddr = addr
					break
				}
				keep = append(keep, c)
			}
			defer func() {
				for _, c := range keep {
					c.Close()
				}
				syscall.Close(fd)
			}()
		}
	}
	if stalledAddr == "" {
		hx.Note("no stalling upstream available in this kernel: 'tcp listener dialling a stalled upstream' is not part of the mixes")
	}

	cfg, err := config.Load([]string{"fabio"}, nil)
	if err != nil {
		t.Fatal(err)
	}
	dp := metrics.DiscardProvider{}

	hx.Check(t, hx.Scale(12, 150), func(t *rapid.T) {
		W := time.Duration(rapid.IntRange(200, 1500).Draw(t, "W_ms")) * time.Millisecond
		// proxy.shutdownwait=0 (the default): nothing is waited for, and nothing holds the shutdown up
		noWait := rapid.IntRange(0, 7).Draw(t, "no-wait-at-all") == 0
		kinds := []string{}
		all := []string{"http", "tcp", "tcp+sni", "grpc", "https+tcp+sni", "ui"} // ui: the admin server (ui.addr), started by main.go's startAdmin
		if stalledAddr != "" {
			all = append(all, "tcp(stalled-upstream)")
		}
		for _, k := range all {
			if rapid.Bool().Draw(t, "with-"+k) {
				kinds = append(kinds, k)
			}
		}
		if len(kinds) == 0 {
			kinds = []string{rapid.SampledFrom([]string{"http", "tcp", "tcp+sni", "grpc", "https+tcp+sni"}).Draw(t, "single")}
		}
		// every third mix has an http and a tcp listener on the same port of two local addresses
		wantShared := rapid.IntRange(0, 2).Draw(t, "tcp-and-http-share-a-port-on-two-addresses") == 0
		if wantShared {
			have := map[string]bool{}
			for _, k := range kinds {
				have[k] = true
			}
			var withBoth []string
			for _, k := range all {
				if have[k] || k == "http" || k == "tcp" {
					withBoth = append(withBoth, k)
				}
			}
			kinds = withBoth
		}
		// the routing table for this mix
		tblText := fmt.Sprintf("route add web / %s\nroute add sni sni.example/ tcp://%s\n", httpUp.URL, tcpUp.Addr())
		tblText += fmt.Sprintf("route add g /c18.S/ grpc://%s opts \"proto=grpc\"\n", h.backends[0].ln.Addr())
		addrs := map[string]string{}
		sharedPort := false
		for _, k := range kinds {
			addrs[k] = freeAddr()
			if k == "tcp" && addrs["http"] != "" && wantShared {
				// the same port on another local address (127.0.0.2): two listeners, two servers
				_, p, _ := net.SplitHostPort(addrs["http"])
				if ln, err := net.Listen("tcp", "127.0.0.2:"+p); err == nil {
					ln.Close()
					addrs[k] = "127.0.0.2:" + p
					sharedPort = true
				}
			}
			if k == "tcp" {
				_, port, _ := net.SplitHostPort(addrs[k])
				tblText += fmt.Sprintf("route add t :%s tcp://%s\n", port, tcpUp.Addr())
			}
			if k == "tcp(stalled-upstream)" {
				_, port, _ := net.SplitHostPort(addrs[k])
				tblText += fmt.Sprintf("route add stalled :%s tcp://%s\n", port, stalledAddr)
			}
		}
		tbl, err := route.NewTable(bytes.NewBufferString(tblText))
		if err != nil {
			t.Fatal(err)
		}
		route.SetTable(tbl)
		lookupHost := func(host string) *route.Target { return route.GetTable().LookupHost(host, route.Picker["rr"]) }
		cache := route.NewGlobCache(10)
		httpHandler := &proxy.HTTPProxy{
			Transport: &http.Transport{},
			Lookup: func(r *http.Request) *route.Target {
				return route.GetTable().Lookup(r, "", route.Picker["rr"], route.Matcher["prefix"], cache, false)
			},
		}
		_ = httpUpURL
		var serveWG sync.WaitGroup
		for _, k := range kinds {
			k := k
			l := config.Listen{Addr: addrs[k], Proto: k}
			serveWG.Add(1)
			go func() {
				defer serveWG.Done()
				switch k {
				case "ui":
					uicfg := *cfg
					uicfg.UI.Listen = config.Listen{Addr: addrs[k], Proto: "http"}
					uicfg.UI.Access = "ro"
					flex(startAdmin, &uicfg) // returns at once; the server goroutine ends when its listener is shut down
				case "http":
					proxy.ListenAndServeHTTP(l, httpHandler, nil)
				case "tcp":
					proxy.ListenAndServeTCP(l, &tcp.Proxy{Lookup: lookupHost, DialTimeout: time.Second}, nil)
				case "tcp(stalled-upstream)":
					l.Proto = "tcp"
					proxy.ListenAndServeTCP(l, &tcp.Proxy{Lookup: lookupHost, DialTimeout: 30 * time.Second}, nil)
				case "tcp+sni":
					proxy.ListenAndServeTCP(l, &tcp.SNIProxy{Lookup: lookupHost, DialTimeout: time.Second}, nil)
				case "grpc":
					sh := &proxy.GrpcStatsHandler{Connect: dp.NewCounter("c"), Request: dp.NewHistogram("r"), NoRoute: dp.NewCounter("n"), Status: dp.NewHistogram("s", "code")}
					proxy.ListenAndServeGRPC(l, flexAs[[]grpc.ServerOption](newGrpcProxy, cfg, sh), nil)
				case "https+tcp+sni":
					tlscfg := &tls.Config{Certificates: []tls.Certificate{cert}}
					matcher := func(ctx context.Context, host string) bool { return host == "sni.example" }
					proxy.ListenAndServeHTTPSTCPSNI(l, httpHandler, &tcp.SNIProxy{Lookup: lookupHost, DialTimeout: time.Second}, tlscfg, matcher)
				}
			}()
		}
		for _, k := range kinds {
			if !waitListening(addrs[k]) {
				t.Fatalf("VERIF-INCONCLUSIVE listener %s did not come up", k)
			}
		}

		// ---- in-flight work
		genDur := func(label string) (time.Duration, bool) {
			switch rapid.IntRange(0, 3).Draw(t, label) {
			case 0, 1: // finishes well within the wait
				return time.Duration(rapid.IntRange(0, 50).Draw(t, label+"pct")) * W / 100, true
			case 2: // outlives the wait
				return time.Duration(rapid.IntRange(200, 400).Draw(t, label+"pct2")) * W / 100, false
			default:
				return -1, false // never ends
			}
		}
		var works []*work
		hasNever := false
		for _, k := range kinds {
			if k == "ui" {
				continue // the admin server only has to stop accepting
			}
			n := rapid.IntRange(0, 3).Draw(t, "nwork-"+k)
			for i := 0; i < n; i++ {
				d, short := genDur("dur-" + k)
				if d < 0 {
					hasNever = true
				}
				if noWait {
					short = false // without a wait no piece of work is promised its end
				}
				wk := &work{dur: d, short: short, done: make(chan string, 1), started: make(chan struct{})}
				switch k {
				case "http":
					wk.kind = "http"
				case "tcp":
					wk.kind = "tcp"
				case "tcp(stalled-upstream)":
					wk.kind, wk.short, wk.dur = "tcp-dialling", false, -1
					hasNever = true
				case "tcp+sni":
					wk.kind = "sni"
				case "grpc":
					wk.kind = rapid.SampledFrom([]string{"grpc-unary", "grpc-stream"}).Draw(t, "grpckind")
				case "https+tcp+sni":
					wk.kind = rapid.SampledFrom([]string{"https", "sni@https"}).Draw(t, "httpskind")
				}
				works = append(works, wk)
				addr := addrs[k]
				go runWork(h, wk, addr)
			}
		}
		for _, wk := range works {
			select {
			case <-wk.started:
			case <-time.After(5 * time.Second):
				t.Fatalf("VERIF-INCONCLUSIVE in-flight work (%s) did not start", wk.kind)
			}
		}
		// clients that have connected and say nothing (a port scanner, a health probe that hangs, a
		// client still busy with its TLS set-up): open work of the dullest kind
		var silent []string
		var silentConns []net.Conn
		defer func() {
			for _, c := range silentConns {
				c.Close()
			}
		}()
		for _, k := range kinds {
			if k == "tcp(stalled-upstream)" || rapid.IntRange(0, 2).Draw(t, "silent-client-on-"+k) != 0 {
				continue
			}
			c, err := net.DialTimeout("tcp", addrs[k], 2*time.Second)
			if err != nil {
				t.Fatalf("VERIF-INCONCLUSIVE dial: %v", err)
			}
			silentConns = append(silentConns, c)
			silent = append(silent, k)
			hx.Class("silent-client-on:" + k)
		}
		if len(silent) > 0 {
			time.Sleep(20 * time.Millisecond) // accepted
		}
		// the shutdown moment relative to the start of the work
		time.Sleep(time.Duration(rapid.IntRange(0, 30).Draw(t, "moment_pct")) * W / 100 / 3)

		if noWait {
			W = 0
			hx.Class("shutdown-without-a-wait")
		}
		shutdownAt := time.Now()
		shutdownDone := make(chan time.Duration, 1)
		go func() {
			proxy.Shutdown(W)
			shutdownDone <- time.Since(shutdownAt)
		}()
		// (1) listeners refuse new connections once shutdown has begun
		time.Sleep(max(min(W/2, 300*time.Millisecond), 150*time.Millisecond))
		for _, k := range kinds {
			if c, err := net.DialTimeout("tcp", addrs[k], 300*time.Millisecond); err == nil {
				c.Close()
				t.Fatalf("%s listener still accepts connections %v after shutdown began (wait %v)\nmix %v", k, time.Since(shutdownAt).Round(time.Millisecond), W, kinds)
			}
		}
		// (3) bounded
		var took time.Duration
		select {
		case took = <-shutdownDone:
		case <-time.After(W + 6*time.Second):
			t.Fatalf("proxy.Shutdown(%v) has not returned %v after it was called; mix %v, open work: %s, silent clients on %v", W, time.Since(shutdownAt).Round(time.Millisecond), kinds, describeWorks(works), silent)
		}
		hx.Eval()
		if took > W+2*time.Second {
			t.Fatalf("proxy.Shutdown(%v) returned after %v; mix %v, open work: %s, silent clients on %v", W, took, kinds, describeWorks(works), silent)
		}
		// (2) work that finishes within the wait completes normally
		for _, wk := range works {
			if !wk.short {
				continue
			}
			select {
			case res := <-wk.done:
				if res != "" {
					t.Fatalf("in-flight %s work of %v (wait %v, shutdown began %v after it started) did not complete normally: %s\nmix %v", wk.kind, wk.dur, W, "a fraction of the wait", res, kinds)
				}
			case <-time.After(W + 5*time.Second):
				t.Fatalf("in-flight %s work of %v never completed\nmix %v", wk.kind, wk.dur, kinds)
			}
		}
		// the silent clients give up now (a listener's serve function may wait for them)
		for _, c := range silentConns {
			c.Close()
		}
		serveWG.Wait()
		if len(kinds) >= 2 && hasNever {
			hx.NonTrivial(fmt.Sprintf("%v|%v|%s", kinds, W, describeWorks(works)))
			hx.Class("nontrivial")
		}
		for _, k := range kinds {
			hx.Class("listener:" + k)
		}
		if sharedPort {
			hx.Class("two-listeners-on-one-port-different-addresses")
		}
		if hx.WantSample("mix") {
			hx.Sample("mix", map[string]any{"listeners": kinds, "wait": W.String(), "work": describeWorks(works), "shutdown_took": took.Round(time.Millisecond).String()})
		}
	})
}

func describeWorks(ws []*work) string {
	var out []string
	for _, w := range ws {
		d := w.dur.Round(time.Millisecond).String()
		if w.dur < 0 {
			d = "never-ends"
		}
		out = append(out, w.kind+":"+d)
	}
	return strings.Join(out, ",")
}

func runWork(h *grpcHarness, wk *work, addr string) {
	finish := func(s string) { wk.done <- s }
	switch wk.kind {
	case "http", "https":
		var c net.Conn
		var err error
		if wk.kind == "https" {
			c, err = tls.Dial("tcp", addr, &tls.Config{InsecureSkipVerify: true, ServerName: "web.example"})
		} else {
			c, err = net.Dial("tcp", addr)
		}
		if err != nil {
			close(wk.started)
			finish("dial: " + err.Error())
			return
		}
		defer c.Close()
		fmt.Fprintf(c, "GET /work?d=%d HTTP/1.1\r\nHost: web.example\r\n\r\n", int64(wk.dur))
		time.Sleep(20 * time.Millisecond) // let the request reach the upstream
		close(wk.started)
		resp, err := http.ReadResponse(bufio.NewReader(c), nil)
		if err != nil {
			finish("no response: " + err.Error())
			return
		}
		b, _ := io.ReadAll(resp.Body)
		if resp.StatusCode != 200 || string(b) != "http-upstream-done" {
			finish(fmt.Sprintf("status %d body %q", resp.StatusCode, b))
			return
		}
		finish("")
	case "tcp-dialling": // the proxy is still inside the upstream dial when shutdown begins
		c, err := net.Dial("tcp", addr)
		if err != nil {
			close(wk.started)
			finish("dial: " + err.Error())
			return
		}
		defer c.Close()
		time.Sleep(30 * time.Millisecond)
		close(wk.started)
		io.Copy(io.Discard, c)
		finish("closed")
	case "tcp", "sni", "sni@https":
		c, err := net.Dial("tcp", addr)
		if err != nil {
			close(wk.started)
			finish("dial: " + err.Error())
			return
		}
		defer c.Close()
		if wk.kind != "tcp" {
			c.Write(c18Hello("sni.example"))
		}
		fmt.Fprintf(c, "%d\n", int64(wk.dur))
		time.Sleep(20 * time.Millisecond)
		close(wk.started)
		line, err := bufio.NewReader(c).ReadString('\n')
		if err != nil || line != "tcp-upstream-done\n" {
			finish(fmt.Sprintf("tunnel gave %q, %v", line, err))
			return
		}
		finish("")
	case "grpc-unary", "grpc-stream":
		conn, err := grpc.NewClient(addr, grpc.WithTransportCredentials(insecure.NewCredentials()), grpc.WithDefaultCallOptions(grpc.ForceCodec(rawCodec{})))
		if err != nil {
			close(wk.started)
			finish("dial: " + err.Error())
			return
		}
		defer conn.Close()
		id := fmt.Sprintf("c18-%d", atomic.AddInt64(&h.seq, 1))
		sc := callScript{responses: [][]byte{{}}, delay: wk.dur}
		if wk.dur < 0 {
			sc.hang, sc.delay = true, 0
		}
		h.mu.Lock()
		h.scripts[id] = sc
		h.mu.Unlock()
		ctx, cancel := context.WithTimeout(metadata.NewOutgoingContext(context.Background(), metadata.Pairs("x-call-id", id)), 60*time.Second)
		defer cancel()
		stream, err := conn.NewStream(ctx, &grpc.StreamDesc{ClientStreams: true, ServerStreams: true}, "/c18.S/Work")
		if err != nil {
			close(wk.started)
			finish("stream: " + err.Error())
			return
		}
		req := []byte{}
		stream.SendMsg(&req)
		if wk.kind == "grpc-unary" {
			stream.CloseSend()
		}
		// wait until the backend has the call
		for i := 0; i < 500; i++ {
			h.mu.Lock()
			_, ok := h.records[id]
			h.mu.Unlock()
			if ok {
				break
			}
			time.Sleep(2 * time.Millisecond)
		}
		close(wk.started)
		if wk.kind == "grpc-stream" {
			stream.CloseSend()
		}
		var resp []byte
		if err := stream.RecvMsg(&resp); err != nil {
			finish("call failed: " + status.Code(err).String() + " " + err.Error())
			return
		}
		if err := stream.RecvMsg(&resp); err != io.EOF {
			finish(fmt.Sprintf("call ended with %v", err))
			return
		}
		_ = codes.OK
		finish("")
	}
}

type helloCapture struct{ w bytes.Buffer }

func (c *helloCapture) Read(p []byte) (int, error)       { return 0, io.EOF }
func (c *helloCapture) Write(p []byte) (int, error)      { return c.w.Write(p) }
func (c *helloCapture) Close() error                     { return nil }
func (c *helloCapture) LocalAddr() net.Addr              { return &net.TCPAddr{} }
func (c *helloCapture) RemoteAddr() net.Addr             { return &net.TCPAddr{} }
func (c *helloCapture) SetDeadline(time.Time) error      { return nil }
func (c *helloCapture) SetReadDeadline(time.Time) error  { return nil }
func (c *helloCapture) SetWriteDeadline(time.Time) error { return nil }

func c18Hello(name string) []byte {
	cc := &helloCapture{}
	tls.Client(cc, &tls.Config{ServerName: name, InsecureSkipVerify: true, CurvePreferences: []tls.CurveID{tls.X25519}}).Handshake()
	b := cc.w.Bytes()
	n := int(b[3])<<8 | int(b[4])
	return append([]byte(nil), b[:5+n]...)
}
