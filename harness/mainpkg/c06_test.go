package main

import (
	"bytes"
	"fmt"
	"net/http"
	"net/http/httptest"
	"strings"
	"sync"
	"testing"

	"github.com/fabiolb/fabio/config"
	"github.com/fabiolb/fabio/metrics"
	"github.com/fabiolb/fabio/proxy"
	"github.com/fabiolb/fabio/route"
	"pgregory.net/rapid"

	"verifharness/hx"
)

type okRT struct{}

func (okRT) RoundTrip(r *http.Request) (*http.Response, error) {
	return &http.Response{StatusCode: 200, Proto: "HTTP/1.1", ProtoMajor: 1, ProtoMinor: 1, Header: http.Header{"X-Upstream": {r.URL.Host}}, Body: http.NoBody, Request: r}, nil
}

// TestC06MainWiringConcurrent (-race): requests arrive at once at the proxy main.go builds
// (config.Load -> newHTTPProxy, either strategy): routed ones get a target of their own
// route, unrouted ones get the no-route answer, and nothing the wiring shares between
// requests is touched without synchronisation.
func TestC06MainWiringConcurrent(t *testing.T) {
	hx.Check(t, hx.Scale(20, 200), func(t *rapid.T) {
		strategy := rapid.SampledFrom([]string{"rnd", "rr"}).Draw(t, "proxy.strategy")
		cfg, err := config.Load([]string{"fabio", "-proxy.strategy", strategy}, nil)
		if err != nil {
			t.Fatal(err)
		}
		napps := rapid.IntRange(1, 4).Draw(t, "apps")
		var text bytes.Buffer
		for a := 0; a < napps; a++ {
			for i, n := 0, rapid.IntRange(2, 5).Draw(t, "targets"); i < n; i++ {
				fmt.Fprintf(&text, "route add app%d app%d.example/ http://app%d-t%d:80/\n", a, a, a, i)
			}
		}
		tbl, err := route.NewTable(bytes.NewBufferString(text.String()))
		if err != nil {
			t.Fatal(err)
		}
		route.SetTable(tbl)
		h := flexAs[*proxy.HTTPProxy](newHTTPProxy, cfg, &proxy.HttpStatsHandler{Noroute: metrics.DiscardProvider{}.NewCounter("x")}, firstListen(cfg))
		h.Transport = okRT{}
		G := rapid.IntRange(2, 16).Draw(t, "goroutines")
		errs := make([]string, G)
		var wg sync.WaitGroup
		start := make(chan struct{})
		for g := 0; g < G; g++ {
			wg.Add(1)
			go func(g int) {
				defer wg.Done()
				defer func() {
					if p := recover(); p != nil {
						errs[g] = fmt.Sprintf("request handling panicked: %v", p)
					}
				}()
				<-start
				for k := 0; k < 200 && errs[g] == ""; k++ {
					a := (g + k) % (napps + 1)
					host := fmt.Sprintf("app%d.example", a)
					if a == napps {
						host = fmt.Sprintf("nobody%d.example", g)
					}
					rec := httptest.NewRecorder()
					req := httptest.NewRequest("GET", "http://"+host+"/x", nil)
					req.RemoteAddr = "192.0.2.1:1234"
					h.ServeHTTP(rec, req)
					if a == napps {
						if rec.Code != 404 {
							errs[g] = fmt.Sprintf("request for %s (no route) answered %d", host, rec.Code)
						}
						continue
					}
					if up := rec.Header().Get("X-Upstream"); rec.Code != 200 || !strings.HasPrefix(up, fmt.Sprintf("app%d-t", a)) {
						errs[g] = fmt.Sprintf("request for %s answered %d by upstream %q", host, rec.Code, up)
					}
				}
			}(g)
		}
		close(start)
		wg.Wait()
		hx.EvalN(G * 200)
		for _, e := range errs {
			if e != "" {
				t.Fatalf("strategy %s, %d goroutines: %s\n%s", strategy, G, e, text.String())
			}
		}
		hx.NonTrivial(fmt.Sprintf("main-conc|%s|%d|%d", strategy, napps, G))
		hx.Class("main-wiring-concurrent:" + strategy)
	})
}

// A gRPC call is carried by a connection to its own target, whatever other targets the process
// has connections to (several instances on one host differ only in the port).
func TestC06GRPCCallsReachTheirOwnTarget(t *testing.T) { TestC04GRPCShares(t) }
