package main

import (
	"net"
	"net/http"
	"testing"
	"time"

	"github.com/fabiolb/fabio/config"
	"github.com/fabiolb/fabio/metrics"
	"github.com/fabiolb/fabio/proxy"
	"google.golang.org/grpc"
	"pgregory.net/rapid"

	"verifharness/hx"
)

// TestC18ShutdownWithoutWait: proxy.shutdownwait=0 is the default.  Shutdown then waits for
// nothing - in particular not for a client that has connected to a listener (gRPC, http) and
// says nothing - and every listener refuses connections afterwards.
func TestC18ShutdownWithoutWait(t *testing.T) {
	cfg, err := config.Load([]string{"fabio"}, nil)
	if err != nil {
		t.Fatal(err)
	}
	dp := metrics.DiscardProvider{}
	hx.Check(t, hx.Scale(3, 20), func(t *rapid.T) {
		grpcAddr, httpAddr := freeAddr(), freeAddr()
		sh := &proxy.GrpcStatsHandler{Connect: dp.NewCounter("c"), Request: dp.NewHistogram("r"), NoRoute: dp.NewCounter("n"), Status: dp.NewHistogram("s", "code")}
		go proxy.ListenAndServeGRPC(config.Listen{Addr: grpcAddr, Proto: "grpc"}, flexAs[[]grpc.ServerOption](newGrpcProxy, cfg, sh), nil)
		go proxy.ListenAndServeHTTP(config.Listen{Addr: httpAddr, Proto: "http"}, http.NotFoundHandler(), nil)
		if !waitListening(grpcAddr) || !waitListening(httpAddr) {
			t.Fatalf("VERIF-INCONCLUSIVE listeners did not come up")
		}
		// (the small end of the draw: silent clients on both)
		var silent []net.Conn
		for _, a := range []string{grpcAddr, httpAddr} {
			if rapid.IntRange(0, 3).Draw(t, "no-silent-client-on-"+a[len(a)-2:]) != 3 {
				c, err := net.DialTimeout("tcp", a, 2*time.Second)
				if err != nil {
					t.Fatalf("VERIF-INCONCLUSIVE dial: %v", err)
				}
				silent = append(silent, c)
			}
		}
		defer func() {
			for _, c := range silent {
				c.Close()
			}
		}()
		time.Sleep(30 * time.Millisecond)
		start := time.Now()
		done := make(chan struct{})
		go func() { proxy.Shutdown(0); close(done) }()
		select {
		case <-done:
		case <-time.After(5 * time.Second):
			t.Fatalf("proxy.Shutdown(0) has not returned after %v (%d clients that connected and say nothing)", time.Since(start).Round(time.Millisecond), len(silent))
		}
		hx.Eval()
		if took := time.Since(start); took > 2*time.Second {
			t.Fatalf("proxy.Shutdown(0) took %v", took)
		}
		for _, a := range []string{grpcAddr, httpAddr} {
			if c, err := net.DialTimeout("tcp", a, 300*time.Millisecond); err == nil {
				c.Close()
				t.Fatalf("listener %s still accepts connections after Shutdown(0) returned", a)
			}
		}
		hx.Class("shutdown-without-a-wait:silent-clients")
		hx.NonTrivial("nowait")
	})
}
