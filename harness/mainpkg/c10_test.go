package main

import (
	"bytes"
	"fmt"
	"sync"
	"testing"

	"github.com/fabiolb/fabio/config"
	"github.com/fabiolb/fabio/metrics"
	"github.com/fabiolb/fabio/route"
	"pgregory.net/rapid"

	"verifharness/hx"
)

// TestC10LookupPerConnection: the function main.go gives every tcp+sni
// listener for turning a server name into a target is called by all
// connections of the listener at once.  Each call answers for its own name:
// routed names get their own route's target, unrouted names get none.
func TestC10LookupPerConnection(t *testing.T) {
	cfg, err := config.Load([]string{"fabio"}, nil)
	if err != nil {
		t.Fatal(err)
	}
	hx.Check(t, hx.Scale(40, 400), func(t *rapid.T) {
		cfg.Proxy.Strategy = rapid.SampledFrom([]string{"rr", "rnd"}).Draw(t, "strategy")
		n := rapid.IntRange(1, 6).Draw(t, "routed-names")
		var text bytes.Buffer
		for i := 0; i < n; i++ {
			fmt.Fprintf(&text, "route add s%d name%d.example/ tcp://10.0.0.%d:443\n", i, i, i+1)
		}
		tbl, err := route.NewTable(&text)
		if err != nil {
			t.Fatal(err)
		}
		route.SetTable(tbl)
		lookup := flexAs[func(string) *route.Target](lookupHostFn, cfg, metrics.DiscardProvider{}.NewCounter("notfound"))
		G := rapid.IntRange(2, 16).Draw(t, "connections-at-once")
		var wg sync.WaitGroup
		errs := make([]string, G)
		start := make(chan struct{})
		for g := 0; g < G; g++ {
			wg.Add(1)
			go func(g int) {
				defer wg.Done()
				<-start
				for k := 0; k < 300 && errs[g] == ""; k++ {
					i := (g + k) % (2 * n)
					if i < n {
						name := fmt.Sprintf("name%d.example", i)
						tg := lookup(name)
						if want := fmt.Sprintf("10.0.0.%d:443", i+1); tg == nil || tg.URL.Host != want {
							errs[g] = fmt.Sprintf("server name %s answered %v, its route points to %s", name, tg, want)
						}
					} else {
						name := fmt.Sprintf("unrouted%d.example", i)
						if tg := lookup(name); tg != nil {
							errs[g] = fmt.Sprintf("server name %s has no route but was answered %s (another connection's target)", name, tg.URL.Host)
						}
					}
				}
			}(g)
		}
		close(start)
		wg.Wait()
		hx.EvalN(G * 300)
		for _, e := range errs {
			if e != "" {
				t.Fatalf("%d connections looking up at once: %s", G, e)
			}
		}
		hx.NonTrivial(fmt.Sprintf("lookup-per-conn|%d|%d|%s", n, G, cfg.Proxy.Strategy))
		hx.Class("lookup-per-connection")
	})
}
