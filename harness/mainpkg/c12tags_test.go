package main

import (
	"fmt"
	"net/http"
	"net/http/httptest"
	"net/url"
	"strings"
	"sync/atomic"
	"testing"
	"time"

	"github.com/fabiolb/fabio/auth"
	"github.com/fabiolb/fabio/config"
	"github.com/fabiolb/fabio/proxy"
	"github.com/fabiolb/fabio/route"
	"pgregory.net/rapid"

	"verifharness/fakeconsul"
	"verifharness/hx"
)

// TestC12TagOptions: access rules and auth= options that reach the table from the tags of a
// registered service (fake Consul -> real backend -> watchBackend -> active table) gate the
// requests to that route: a rule that names the peer's block admits, any other rule - including
// one whose value fabio cannot make sense of - refuses, and a scheme name that is not configured
// refuses with 401.  No refused request reaches the upstream.
func TestC12TagOptions(t *testing.T) {
	p := startPipeline(t)
	var hits int64
	up := httptest.NewServer(http.HandlerFunc(func(w http.ResponseWriter, r *http.Request) {
		atomic.AddInt64(&hits, 1)
		w.Write([]byte("ok"))
	}))
	defer up.Close()
	upURL, _ := url.Parse(up.URL)
	upHost, upPort := upURL.Hostname(), upURL.Port()
	schemes, err := auth.LoadAuthSchemes(map[string]config.AuthScheme{})
	if err != nil {
		t.Fatal(err)
	}
	cache := route.NewGlobCache(10)
	px := httptest.NewServer(&proxy.HTTPProxy{
		Transport:   &http.Transport{DisableKeepAlives: true},
		AuthSchemes: schemes,
		Lookup: func(r *http.Request) *route.Target {
			return route.GetTable().Lookup(r, "", route.Picker["rr"], route.Matcher["prefix"], cache, false)
		},
	})
	defer px.Close()
	n := 0
	hx.Check(t, hx.Scale(6, 60), func(t *rapid.T) {
		n++
		fc := p.fc
		w := newWorld()
		h0, k0 := fc.Served()
		fc.Reset()
		type optCase struct {
			opt  string
			want int
		}
		oc := rapid.SampledFrom([]optCase{
			{"allow=ip:127.0.0.0/8", 200},
			{"allow=ip:10.0.0.0/8", 403},
			{"deny=ip:127.0.0.1", 403},
			{"deny=ip:10.0.0.0/8", 200},
			// values fabio cannot make sense of: the route stays closed
			{"allow=$ALLOWED_NETS", 403},
			{"deny=${BLOCKED}", 403},
			{"allow=$NETS,ip:127.0.0.0/8", 403},
			{"allow=ip:$NET", 403},
			{"auth=$AUTH_SCHEME", 401},
			{"auth=nosuchscheme", 401},
			{"auth=${SCHEME}", 401},
		}).Draw(t, "option")
		port := 0
		fmt.Sscanf(upPort, "%d", &port)
		prefix := fmt.Sprintf("/sec%d", n)
		in := &fakeconsul.Instance{Node: "node1", NodeAddr: "10.0.1.1", ID: "sec-1", Name: "sec", Addr: upHost, Port: port,
			Tags: []string{"urlprefix-" + prefix + " " + oc.opt}, Checks: []string{"passing"}}
		w.ensureNode(fc, in)
		w.inst["node1/sec-1"] = in
		fc.SetInstance(*in)
		want := p.expected(w)
		if d, quiet := p.settle(want, h0, k0); d != "" {
			if !quiet {
				t.Fatalf("VERIF-INCONCLUSIVE watchers did not reach the registry's state")
			}
			t.Fatalf("the table does not hold the registered route:\n%s", d)
		}
		before := atomic.LoadInt64(&hits)
		req, _ := http.NewRequest("GET", px.URL+prefix+"/x", nil)
		cl := &http.Client{Timeout: 5 * time.Second}
		resp, err := cl.Do(req)
		if err != nil {
			t.Fatalf("VERIF-INCONCLUSIVE request failed: %v", err)
		}
		resp.Body.Close()
		hx.Eval()
		got := atomic.LoadInt64(&hits) - before
		if resp.StatusCode != oc.want {
			t.Fatalf("service registered with tag %q: a request from 127.0.0.1 got status %d, want %d (upstream contacted %d times)", in.Tags[0], resp.StatusCode, oc.want, got)
		}
		if oc.want != 200 && got != 0 {
			t.Fatalf("service registered with tag %q: the refused request (status %d) reached the upstream", in.Tags[0], resp.StatusCode)
		}
		hx.Class("gate-from-service-tag:" + strings.SplitN(oc.opt, "=", 2)[0])
		if strings.Contains(oc.opt, "$") {
			hx.Class("gate-from-service-tag-with-unexpanded-variable")
		}
		hx.NonTrivial(fmt.Sprintf("tagopt|%s|%d", oc.opt, hx.Shard()))
	})
}
