package main

import (
	"fmt"
	"reflect"

	"github.com/fabiolb/fabio/config"
)

// flex calls one of main.go's own (unexported) functions by matching the
// arguments to its parameters by type.  The harness must keep building when a
// change gives such a function another parameter or another order: a
// parameter nobody offered a value for gets the zero value of its type.
func flex(fn any, offered ...any) []any {
	v := reflect.ValueOf(fn)
	t := v.Type()
	used := make([]bool, len(offered))
	args := make([]reflect.Value, t.NumIn())
	for i := 0; i < t.NumIn(); i++ {
		pt := t.In(i)
		args[i] = reflect.Zero(pt)
		for k, o := range offered {
			if used[k] || o == nil {
				continue
			}
			ov := reflect.ValueOf(o)
			if ov.Type().AssignableTo(pt) {
				args[i], used[k] = ov, true
				break
			}
			if pt.Kind() == reflect.Interface && ov.Type().Implements(pt) {
				args[i], used[k] = ov, true
				break
			}
		}
	}
	var out []any
	for _, r := range v.Call(args) {
		out = append(out, r.Interface())
	}
	return out
}

// flexAs returns the first result of flex that has type T.
func flexAs[T any](fn any, offered ...any) T {
	for _, r := range flex(fn, offered...) {
		if x, ok := r.(T); ok {
			return x
		}
	}
	var zero T
	panic(fmt.Sprintf("VERIF-INCONCLUSIVE %T no longer returns a %T", fn, zero))
}

// firstListen: a listener description for functions that want one.
func firstListen(cfg *config.Config) config.Listen {
	if len(cfg.Listen) > 0 {
		return cfg.Listen[0]
	}
	return config.Listen{Proto: "http"}
}
