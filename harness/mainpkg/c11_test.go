package main

import (
	"crypto/ecdsa"
	"crypto/elliptic"
	"crypto/rand"
	"crypto/tls"
	"crypto/x509"
	"crypto/x509/pkix"
	"encoding/pem"
	"fmt"
	"github.com/fabiolb/fabio/proxy"
	"math/big"
	"net"
	"net/http"
	"os"
	"path/filepath"
	"strings"
	"testing"
	"time"

	"github.com/fabiolb/fabio/config"
	"pgregory.net/rapid"

	"verifharness/hx"
)

func writeCertPair(dir, base, cn string) error {
	key, _ := ecdsa.GenerateKey(elliptic.P256(), rand.Reader)
	tmpl := &x509.Certificate{SerialNumber: big.NewInt(time.Now().UnixNano()), Subject: pkix.Name{CommonName: cn}, NotBefore: time.Now().Add(-time.Hour), NotAfter: time.Now().Add(time.Hour), DNSNames: []string{cn}}
	der, err := x509.CreateCertificate(rand.Reader, tmpl, tmpl, &key.PublicKey, key)
	if err != nil {
		return err
	}
	kb, _ := x509.MarshalECPrivateKey(key)
	if err := os.WriteFile(filepath.Join(dir, base+"-cert.pem"), pem.EncodeToMemory(&pem.Block{Type: "CERTIFICATE", Bytes: der}), 0o600); err != nil {
		return err
	}
	return os.WriteFile(filepath.Join(dir, base+"-key.pem"), pem.EncodeToMemory(&pem.Block{Type: "EC PRIVATE KEY", Bytes: kb}), 0o600)
}

// TestC11ListenersFromConfig: listeners as the command line describes them
// (several listeners may name the same certificate source, each with its own
// strictmatch), turned into TLS configurations by main.go's makeTLSConfig.
// Every listener answers according to its OWN options: an uncovered or absent
// server name gets the first certificate on a non-strict listener and none on
// a strict one.
func TestC11ListenersFromConfig(t *testing.T) {
	dir := t.TempDir()
	for i, cn := range []string{"a.example.com", "b.example.com"} {
		if err := writeCertPair(dir, fmt.Sprintf("%c%d", 'a'+i, i), cn); err != nil {
			t.Fatal(err)
		}
	}
	hx.Check(t, hx.Scale(12, 150), func(t *rapid.T) {
		n := rapid.IntRange(1, 4).Draw(t, "listeners")
		strict := make([]bool, n)
		var addrs []string
		for i := 0; i < n; i++ {
			strict[i] = rapid.Bool().Draw(t, "strictmatch")
			a := fmt.Sprintf("127.0.0.1:%d;cs=certs;proto=https", 20000+i)
			if strict[i] {
				a += ";strictmatch=true"
			} else if rapid.Bool().Draw(t, "explicit-false") {
				a += ";strictmatch=false"
			}
			if rapid.IntRange(0, 3).Draw(t, "tlsmin") == 0 {
				a += ";tlsmin=tls12"
			}
			addrs = append(addrs, a)
		}
		// the source re-reads its directory every 'refresh' (sub-second values are legal durations)
		refresh := rapid.SampledFrom([]string{"300ms", "700ms", "1s", "1500ms", "2s"}).Draw(t, "refresh")
		args := []string{"fabio", "-proxy.cs", "cs=certs;type=path;refresh=" + refresh + ";cert=" + dir, "-proxy.addr", strings.Join(addrs, ",")}
		cfg, err := config.Load(args, nil)
		if err != nil {
			t.Fatalf("config rejected: %v (%q)", err, args)
		}
		if len(cfg.Listen) != n {
			t.Fatalf("%d listeners configured, %d loaded", n, len(cfg.Listen))
		}
		var tcs []*tls.Config
		for i, l := range cfg.Listen {
			res := flex(makeTLSConfig, l)
			tc, _ := res[0].(*tls.Config)
			err, _ := res[len(res)-1].(error)
			if err != nil || tc == nil {
				t.Fatalf("listener %d: makeTLSConfig: %v %v", i, tc, err)
			}
			tcs = append(tcs, tc)
		}
		served := func(tc *tls.Config, name string) string {
			c, _ := tc.GetCertificate(&tls.ClientHelloInfo{ServerName: name})
			if c == nil || len(c.Certificate) == 0 {
				return "<none>"
			}
			x, err := x509.ParseCertificate(c.Certificate[0])
			if err != nil {
				return "<unparsable>"
			}
			return x.Subject.CommonName
		}
		// the certificates arrive through the source's first load
		deadline := time.Now().Add(10 * time.Second)
		for _, tc := range tcs {
			for served(tc, "a.example.com") != "a.example.com" {
				if time.Now().After(deadline) {
					t.Fatalf("VERIF-INCONCLUSIVE certificates never became visible")
				}
				time.Sleep(2 * time.Millisecond)
			}
		}
		for i, tc := range tcs {
			for _, name := range []string{"a.example.com", "b.example.com", "unknown.example.net", ""} {
				want := name
				if name == "unknown.example.net" || name == "" {
					want = "a.example.com" // first certificate of the set (file name order)
					if strict[i] {
						want = "<none>"
					}
				}
				hx.Eval()
				if got := served(tc, name); got != want {
					t.Fatalf("listener %d (%s) asked for %q presents %s, want %s\nlisteners: %q", i, addrs[i], name, got, want, addrs)
				}
			}
		}
		// a renewal under the same file names is picked up after about one refresh interval
		if rapid.Bool().Draw(t, "renewal") {
			serial := func(tc *tls.Config) string {
				c, _ := tc.GetCertificate(&tls.ClientHelloInfo{ServerName: "a.example.com"})
				if c == nil || len(c.Certificate) == 0 {
					return "<none>"
				}
				x, err := x509.ParseCertificate(c.Certificate[0])
				if err != nil {
					return "<unparsable>"
				}
				return x.SerialNumber.String()
			}
			before := serial(tcs[0])
			// ... also for clients that send no server name, through a listener fabio opens with
			// that configuration (they get the first certificate of the CURRENT set)
			lnAddr := ""
			peerSerial := func() string {
				c, err := tls.DialWithDialer(&net.Dialer{Timeout: 3 * time.Second}, "tcp", lnAddr, &tls.Config{InsecureSkipVerify: true})
				if err != nil {
					return "handshake failed: " + err.Error()
				}
				defer c.Close()
				return c.ConnectionState().PeerCertificates[0].SerialNumber.String()
			}
			noSNIBefore := ""
			if !strict[0] {
				lnAddr = hx.FreeAddr()
				go proxy.ListenAndServeHTTP(config.Listen{Addr: lnAddr, Proto: "https"}, http.NotFoundHandler(), tcs[0])
				if !waitListening(lnAddr) {
					t.Fatalf("VERIF-INCONCLUSIVE listener did not come up")
				}
				defer flex(proxy.CloseProxy, lnAddr, time.Second)
				noSNIBefore = peerSerial()
				if noSNIBefore != before {
					t.Fatalf("a client without server name is presented serial %s, the first certificate of the set has %s", noSNIBefore, before)
				}
			}
			if err := writeCertPair(dir, "a0", "a.example.com"); err != nil {
				t.Fatal(err)
			}
			d, _ := time.ParseDuration(refresh)
			deadline := time.Now().Add(d + 4*time.Second)
			for serial(tcs[0]) == before {
				if time.Now().After(deadline) {
					t.Fatalf("certificate source with refresh=%s: a renewed certificate (same file names) is still not served %v after it was written\nsource: %q", refresh, d+4*time.Second, args[2])
				}
				time.Sleep(10 * time.Millisecond)
			}
			if lnAddr != "" {
				if got, want := peerSerial(), serial(tcs[0]); got != want {
					t.Fatalf("after the renewal a client without server name is still presented serial %s (before the renewal: %s); the first certificate of the current set has %s", got, noSNIBefore, want)
				}
				hx.Class("renewal-picked-up-for-clients-without-server-name")
			}
			hx.Class("renewal-picked-up:refresh=" + refresh)
		}
		mixed := false
		for i := 1; i < n; i++ {
			if strict[i] != strict[0] {
				mixed = true
			}
		}
		if mixed {
			hx.NonTrivial(strings.Join(addrs, ","))
			hx.Class("listeners-sharing-a-source-with-different-strictmatch")
		}
		hx.Class("listeners-from-config")
	})
}
