package main

import (
	"fmt"
	"io"
	"net"
	"net/http"
	"strings"
	"testing"
	"time"

	"github.com/fabiolb/fabio/config"
	"github.com/fabiolb/fabio/proxy"
	"pgregory.net/rapid"

	"verifharness/hx"
)

// TestC15PrometheusListener: an accepted configuration can be run - a proto=prometheus listener
// with whatever metrics.prometheus.path Load accepted starts and serves the metrics under that path.
func TestC15PrometheusListener(t *testing.T) {
	hx.Check(t, hx.Scale(10, 100), func(t *rapid.T) {
		path := rapid.SampledFrom([]string{"/metrics", "/", "/a/b", "/metrics/", "/m", "", "metrics"}).Draw(t, "metrics.prometheus.path")
		addr := freeAddr()
		args := []string{"fabio", "-proxy.addr", addr + ";proto=prometheus", "-metrics.prometheus.path", path, "-ui.addr", freeAddr()}
		cfg, err := config.Load(args, nil)
		hx.Eval()
		if err != nil {
			hx.Class("prometheus-listener:rejected-by-load")
			return
		}
		panicked := make(chan any, 1)
		go func() {
			defer func() { panicked <- recover() }()
			// what startServers does for this listener
			proxy.ListenAndServePrometheus(cfg.Listen[0], cfg.Metrics.Prometheus, nil)
		}()
		defer flex(proxy.CloseProxy, addr, time.Second)
		up := false
		for i := 0; i < 400 && !up; i++ {
			select {
			case p := <-panicked:
				if p != nil {
					t.Fatalf("options %q were accepted, the listener panics when it starts: %v", args[1:], p)
				}
				t.Fatalf("options %q were accepted, the listener returned at once", args[1:])
			default:
			}
			up = waitListeningOnce(addr)
		}
		if !up {
			t.Fatalf("VERIF-INCONCLUSIVE the prometheus listener did not come up")
		}
		want := cfg.Metrics.Prometheus.Path
		resp, err := (&http.Client{Timeout: 5 * time.Second}).Get("http://" + addr + want)
		if err != nil {
			t.Fatalf("GET %s on the prometheus listener: %v", want, err)
		}
		body, _ := io.ReadAll(resp.Body)
		resp.Body.Close()
		if resp.StatusCode != 200 || !strings.Contains(string(body), "go_goroutines") {
			t.Fatalf("GET %s on the prometheus listener (metrics.prometheus.path=%q): status %d, %d bytes without the runtime metrics", want, path, resp.StatusCode, len(body))
		}
		hx.Class("prometheus-listener:path=" + path)
		hx.NonTrivial(fmt.Sprintf("prom|%s", path))
	})
}

func waitListeningOnce(addr string) bool {
	c, err := net.DialTimeout("tcp", addr, 100*time.Millisecond)
	if err != nil {
		time.Sleep(5 * time.Millisecond)
		return false
	}
	c.Close()
	return true
}
