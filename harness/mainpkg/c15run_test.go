package main

import (
	"bytes"
	"fmt"
	"net/http"
	"net/http/httptest"
	"os"
	"path/filepath"
	"strings"
	"testing"

	"github.com/fabiolb/fabio/config"
	"github.com/fabiolb/fabio/metrics"
	"github.com/fabiolb/fabio/proxy"
	"github.com/fabiolb/fabio/route"
	"pgregory.net/rapid"

	"verifharness/hx"
)

// TestC15Runnable: a configuration config.Load accepts can be run: the proxy
// objects main() builds from it serve requests without panicking.
func TestC15Runnable(t *testing.T) {
	up := httptest.NewServer(http.HandlerFunc(func(w http.ResponseWriter, r *http.Request) {
		w.Header().Set("Content-Type", "text/plain")
		fmt.Fprint(w, "upstream:"+r.URL.Path)
	}))
	defer up.Close()
	dir := t.TempDir()
	htpasswd := filepath.Join(dir, "htpasswd")
	os.WriteFile(htpasswd, []byte("u:{SHA}W6ph5Mm5Pz8GgiULbPgzG37mj9g=\n"), 0o600) // u:password

	type kv struct{ k, v string }
	choices := map[string][]string{
		"glob.cache.size":             {"1", "2", "3", "1000", "0", "-1", "-7"},
		"glob.matching.disabled":      {"true", "false"},
		"proxy.matcher":               {"prefix", "glob", "iprefix"},
		"proxy.strategy":              {"rr", "rnd"},
		"proxy.noroutestatus":         {"404", "503", "999", "100", "418"},
		"proxy.header.clientip":       {"", "X-Client", "X-Real-Ip"},
		"proxy.header.tls":            {"", "X-TLS"},
		"proxy.header.requestid":      {"", "X-Request-Id"},
		"proxy.header.sts.maxage":     {"0", "31536000", "-5"},
		"proxy.gzip.contenttype":      {"", "^text/.*$"},
		"proxy.maxconn":               {"0", "-1", "5"},
		"proxy.flushinterval":         {"0", "-1s", "10ms"},
		"proxy.globalflushinterval":   {"0", "-1s", "10ms"},
		"proxy.responseheadertimeout": {"0", "5s", "-1s"},
		"proxy.dialtimeout":           {"0", "5s", "-1s"},
		"proxy.keepalivetimeout":      {"0", "5s", "-1s"},
		"proxy.idleconntimeout":       {"0", "5s", "-1s"},
		"proxy.grpcmaxrxmsgsize":      {"0", "-1", "1024"},
		"proxy.grpcmaxtxmsgsize":      {"0", "-1", "1024"},
		"proxy.localip":               {"", "10.0.0.9"},
		"log.access.format":           {"common", "combined", "$remote_host $upstream_host:$upstream_port $time_common"},
		"proxy.auth":                  {"", "name=b1;type=basic;file=" + htpasswd, "name=b1;type=basic;file=" + htpasswd + ";refresh=-5s", "name=b1;type=basic;file=" + htpasswd + ";refresh=3s", "name=b1;type=basic;file=" + htpasswd + ";refresh=0s"},
		"tracing.TracingEnabled":      {"false"},
		"tracing.SpanName":            {"{{.Proto}} {{.Method}} {{.Host}} {{.Scheme}} {{.Path}}", "{{ .Method", "{{.NoSuchField}}", "plain text", "{{", ""},
		"tracing.SpanHost":            {"localhost:9998", ""},
		"proxy.log.routes":            {"", "delta", "all"},
		// several listeners share the process-wide options (nothing is bound here)
		"proxy.addr": {":19999", ":19999,:19998", ":19999;proto=http,:19998;proto=grpc,:19997;proto=http,:19996;proto=tcp"},
	}
	var names []string
	for k := range choices {
		names = append(names, k)
	}
	sortStrings(names)

	hx.Check(t, hx.Scale(400, 10000), func(t *rapid.T) {
		n := rapid.IntRange(1, 6).Draw(t, "nopts")
		var set []kv
		args := []string{"fabio"}
		used := map[string]bool{}
		for i := 0; i < n; i++ {
			k := rapid.SampledFrom(names).Draw(t, "opt")
			if used[k] {
				continue
			}
			used[k] = true
			v := rapid.SampledFrom(choices[k]).Draw(t, "val")
			set = append(set, kv{k, v})
			args = append(args, "-"+k+"="+v)
		}
		cfg, err := config.Load(args, nil)
		hx.Eval()
		if err != nil {
			hx.Class("rejected-by-load")
			return
		}
		hx.Class("accepted-by-load")
		hosts := rapid.IntRange(1, 6).Draw(t, "nhosts")
		var tb strings.Builder
		for i := 0; i < hosts; i++ {
			fmt.Fprintf(&tb, "route add s%d *.h%d.example/ %s\n", i, i, up.URL)
		}
		fmt.Fprintf(&tb, "route add fallback / %s\n", up.URL)
		fmt.Fprintf(&tb, "route add redir r.example/ https://$host$path opts \"redirect=301\"\n")
		tbl, err := route.NewTable(bytes.NewBufferString(tb.String()))
		if err != nil {
			t.Fatal(err)
		}
		route.SetTable(tbl)
		var panicked any
		func() {
			defer func() { panicked = recover() }()
			stats := &proxy.HttpStatsHandler{Noroute: metrics.DiscardProvider{}.NewCounter("x")}
			h := flexAs[*proxy.HTTPProxy](newHTTPProxy, cfg, stats, firstListen(cfg))
			_ = flex(newGrpcProxy, cfg, &proxy.GrpcStatsHandler{})
			for i := 0; i < 2*hosts+2; i++ {
				host := fmt.Sprintf("x%d.h%d.example", i, i%hosts)
				if i == 2*hosts {
					host = "r.example"
				}
				if i == 2*hosts+1 {
					host = "other.example"
				}
				req := httptest.NewRequest("GET", "http://"+host+"/", nil)
				req.RemoteAddr = "192.0.2.7:1000"
				if used["proxy.auth"] {
					req.SetBasicAuth("u", "password")
				}
				rec := httptest.NewRecorder()
				h.ServeHTTP(rec, req)
				if host == "r.example" {
					if rec.Code != 301 {
						panic(fmt.Sprintf("redirect route answered %d", rec.Code))
					}
				} else if rec.Code != 200 || !strings.Contains(rec.Body.String(), "upstream:/") {
					body := rec.Body.String()
					if rec.Header().Get("Content-Encoding") == "gzip" {
						body = "upstream:/ (gzip)"
					}
					if rec.Code != 200 || !strings.Contains(body, "upstream:/") {
						panic(fmt.Sprintf("request to %s answered %d %q", host, rec.Code, rec.Body.String()))
					}
				}
			}
		}()
		if panicked != nil {
			t.Fatalf("configuration accepted by config.Load cannot be run: %v\noptions: %v", panicked, set)
		}
		hx.NonTrivial(fmt.Sprint(set, hosts))
		if hx.WantSample("runnable") {
			hx.Sample("runnable", fmt.Sprint(set))
		}
	})
}

func sortStrings(s []string) {
	for i := range s {
		for j := i + 1; j < len(s); j++ {
			if s[j] < s[i] {
				s[i], s[j] = s[j], s[i]
			}
		}
	}
}
