package main

import (
	"bufio"
	"bytes"
	"net/http"
	"net/http/httptest"
	"os"
	"strings"
	"testing"
	"time"

	"github.com/fabiolb/fabio/config"
	"github.com/fabiolb/fabio/metrics"
	"github.com/fabiolb/fabio/proxy"
	"github.com/fabiolb/fabio/route"
	"pgregory.net/rapid"

	"verifharness/hx"
)

// TestC20MainLogger: the access log as main.go sets it up (log.access.target
// and log.access.format from the command line, newHTTPProxy builds the logger):
// a custom format is used as it was written, literal text included.
func TestC20MainLogger(t *testing.T) {
	up := httptest.NewServer(http.HandlerFunc(func(w http.ResponseWriter, r *http.Request) { w.Write([]byte("ok")) }))
	defer up.Close()
	tbl, err := route.NewTable(bytes.NewBufferString("route add web / " + up.URL + "/"))
	if err != nil {
		t.Fatal(err)
	}
	route.SetTable(tbl)
	hx.Check(t, hx.Scale(60, 600), func(t *rapid.T) {
		// literal pieces with upper-case letters, JSON keys, and fields in between
		lits := []string{`{"Method":"`, `","StatusCode":`, `,"URI":"`, `"}`, "REQ ", " -> ", "Status=", " [Fabio] ", "ÄÖ ", " ; ", `"`, `'`, `"quoted" `}
		fields := map[string]string{"$request_method": "GET", "$response_status": "200", "$request_uri": "/some/Path?Q=1", "$request_proto": "HTTP/1.1", "$upstream_service": "web"}
		var names []string
		for k := range fields {
			names = append(names, k)
		}
		sortStrings(names)
		format, want := "", ""
		for i, n := 0, rapid.IntRange(1, 6).Draw(t, "pieces"); i < n; i++ {
			if rapid.Bool().Draw(t, "literal") {
				l := rapid.SampledFrom(lits).Draw(t, "lit")
				format, want = format+l, want+l
			} else {
				f := rapid.SampledFrom(names).Draw(t, "field")
				format, want = format+f, want+fields[f]
				sep := rapid.SampledFrom([]string{" ", "|", " X "}).Draw(t, "sep")
				format, want = format+sep, want+sep
			}
		}
		if rapid.IntRange(0, 4).Draw(t, "named") == 0 {
			format = rapid.SampledFrom([]string{"common", "combined"}).Draw(t, "namedformat")
			want = ""
		}
		// the format comes from the command line, the environment or a properties file
		args, env := []string{"fabio", "-log.access.target", "stdout"}, []string{}
		switch rapid.SampledFrom([]string{"cmdline", "env", "FABIO_env"}).Draw(t, "source") {
		case "cmdline":
			args = append(args, "-log.access.format", format)
		case "env":
			env = append(env, "log_access_format="+format)
		default:
			env = append(env, "FABIO_LOG_ACCESS_FORMAT="+format)
		}
		cfg, err := config.Load(args, env)
		if err != nil {
			t.Fatalf("config rejected: %v (format %q)", err, format)
		}
		// the logger writes to the process's stdout: give it a pipe for the duration of the case
		r, w, err := os.Pipe()
		if err != nil {
			t.Fatal(err)
		}
		saved := os.Stdout
		os.Stdout = w
		h := flexAs[*proxy.HTTPProxy](newHTTPProxy, cfg, &proxy.HttpStatsHandler{Noroute: metrics.DiscardProvider{}.NewCounter("x")}, firstListen(cfg))
		req := httptest.NewRequest("GET", "/some/Path?Q=1", nil)
		req.RemoteAddr = "192.0.2.1:1234"
		rec := httptest.NewRecorder()
		h.ServeHTTP(rec, req)
		os.Stdout = saved
		w.Close()
		lineCh := make(chan string, 1)
		go func() {
			l, _ := bufio.NewReader(r).ReadString('\n')
			lineCh <- l
		}()
		var line string
		select {
		case line = <-lineCh:
		case <-time.After(5 * time.Second):
			t.Fatalf("no access log line for format %q", format)
		}
		r.Close()
		hx.Eval()
		if rec.Code != 200 {
			t.Fatalf("request failed: %d", rec.Code)
		}
		if want == "" {
			if !strings.Contains(line, "GET /some/Path?Q=1 HTTP/1.1") || !strings.Contains(line, " 200 ") {
				t.Fatalf("log.access.format=%s: line %q does not look like the %s format", format, line, format)
			}
			hx.Class("main-logger:named-format")
			return
		}
		if line != want+"\n" {
			t.Fatalf("log.access.format=%q\n got line %q\nwant line %q", format, line, want+"\n")
		}
		if format != strings.ToLower(format) {
			hx.NonTrivial(format)
			hx.Class("main-logger:custom-format-with-upper-case-literals")
		}
	})
}
