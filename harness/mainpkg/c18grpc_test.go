package main

import (
	"bytes"
	"context"
	"fmt"
	"sync/atomic"
	"testing"
	"time"

	"github.com/fabiolb/fabio/config"
	"github.com/fabiolb/fabio/metrics"
	"github.com/fabiolb/fabio/proxy"
	"github.com/fabiolb/fabio/route"
	"google.golang.org/grpc"
	"google.golang.org/grpc/credentials/insecure"
	"google.golang.org/grpc/metadata"
	"pgregory.net/rapid"

	"verifharness/hx"
)

// TestC18GRPCShutdownAroundPoolCleanup: shutdown of a gRPC listener begins while
// the proxy's connection pool is retiring the connection of a backend that has
// just left the table (its clean-up pass runs every 5 s and gives connections a
// grace period).  A short call that is in flight completes, and Shutdown
// returns within the wait.
func TestC18GRPCShutdownAroundPoolCleanup(t *testing.T) {
	h := startGRPC(t)
	hx.Check(t, hx.Scale(1, 8), func(t *rapid.T) {
		cfg, err := config.Load([]string{"fabio"}, nil)
		if err != nil {
			t.Fatal(err)
		}
		cfg.Proxy.Strategy = "rr"
		dp := metrics.DiscardProvider{}
		sh := &proxy.GrpcStatsHandler{Connect: dp.NewCounter("c"), Request: dp.NewHistogram("r"), NoRoute: dp.NewCounter("n"), Status: dp.NewHistogram("s", "code")}
		addr := freeAddr()
		born := time.Now()
		opts := flexAs[[]grpc.ServerOption](newGrpcProxy, cfg, sh)
		go proxy.ListenAndServeGRPC(config.Listen{Addr: addr, Proto: "grpc"}, opts, nil)
		if !waitListening(addr) {
			t.Fatalf("VERIF-INCONCLUSIVE grpc listener did not come up")
		}
		conn, err := grpc.NewClient(addr, grpc.WithTransportCredentials(insecure.NewCredentials()), grpc.WithDefaultCallOptions(grpc.ForceCodec(rawCodec{})))
		if err != nil {
			t.Fatal(err)
		}
		defer conn.Close()
		both := fmt.Sprintf("route add a /c18p.A/ grpc://%s opts \"proto=grpc\"\nroute add b /c18p.B/ grpc://%s opts \"proto=grpc\"\n", h.backends[0].ln.Addr(), h.backends[1].ln.Addr())
		onlyA := fmt.Sprintf("route add a /c18p.A/ grpc://%s opts \"proto=grpc\"\n", h.backends[0].ln.Addr())
		set := func(s string) {
			tbl, err := route.NewTable(bytes.NewBufferString(s))
			if err != nil {
				t.Fatal(err)
			}
			route.SetTable(tbl)
		}
		call := func(method string, delay time.Duration) error {
			id := fmt.Sprintf("c18p-%d", atomic.AddInt64(&h.seq, 1))
			h.mu.Lock()
			h.scripts[id] = callScript{responses: [][]byte{{}}, delay: delay}
			h.mu.Unlock()
			defer func() {
				h.mu.Lock()
				delete(h.scripts, id)
				delete(h.records, id)
				h.mu.Unlock()
			}()
			ctx, cancel := context.WithTimeout(metadata.NewOutgoingContext(context.Background(), metadata.Pairs("x-call-id", id)), 10*time.Second)
			defer cancel()
			var req, resp []byte
			return conn.Invoke(ctx, method, &req, &resp)
		}
		set(both)
		if err := call("/c18p.A/M", 0); err != nil {
			t.Fatalf("VERIF-INCONCLUSIVE first call: %v", err)
		}
		if err := call("/c18p.B/M", 0); err != nil {
			t.Fatalf("VERIF-INCONCLUSIVE first call: %v", err)
		}
		// backend b leaves just before the pool's first clean-up pass (5 s after the proxy was built)
		tick := born.Add(5 * time.Second)
		time.Sleep(time.Until(tick.Add(-400 * time.Millisecond)))
		set(onlyA)
		W := time.Duration(rapid.IntRange(300, 900).Draw(t, "W_ms")) * time.Millisecond
		startCall := tick.Add(time.Duration(rapid.IntRange(150, 600).Draw(t, "call-after-tick_ms")) * time.Millisecond)
		time.Sleep(time.Until(startCall))
		callDone := make(chan error, 1)
		callDur := W / 4
		go func() { callDone <- call("/c18p.A/M", callDur) }()
		time.Sleep(60 * time.Millisecond)
		began := time.Now()
		shutdownDone := make(chan time.Duration, 1)
		go func() {
			proxy.Shutdown(W)
			shutdownDone <- time.Since(began)
		}()
		ctx := fmt.Sprintf("a backend left the table 400ms before the pool's clean-up pass; a call to the remaining backend (takes %v) started %v after that pass; Shutdown(%v) began 60ms later", callDur, time.Until(startCall)*-1+time.Since(startCall), W)
		select {
		case took := <-shutdownDone:
			hx.Eval()
			if took > W+800*time.Millisecond {
				t.Fatalf("proxy.Shutdown(%v) returned after %v\n%s", W, took.Round(time.Millisecond), ctx)
			}
		case <-time.After(W + 6*time.Second):
			t.Fatalf("proxy.Shutdown(%v) has not returned %v after it was called\n%s", W, time.Since(began).Round(time.Millisecond), ctx)
		}
		select {
		case err := <-callDone:
			if err != nil {
				t.Fatalf("the call in flight when shutdown began (it needs %v of a wait of %v) did not complete normally: %v\n%s", callDur, W, err, ctx)
			}
		case <-time.After(10 * time.Second):
			t.Fatalf("the call in flight when shutdown began never returned\n%s", ctx)
		}
		hx.NonTrivial(fmt.Sprintf("grpc-cleanup|%v|%v", W, startCall.Sub(tick)))
		hx.NonTrivial("grpc-cleanup-2")
		hx.Class("grpc-shutdown-around-pool-cleanup")
	})
}
