package main

import (
	"bytes"
	"fmt"
	"io"
	"net"
	"net/http"
	"sync"
	"testing"
	"time"

	"github.com/fabiolb/fabio/config"
	"github.com/fabiolb/fabio/metrics"
	"github.com/fabiolb/fabio/proxy"
	"github.com/fabiolb/fabio/route"
	"pgregory.net/rapid"

	"verifharness/hx"
)

// One tcp-dynamic loop per process: main.go's loop never ends, and two of them (from two
// startServers calls) would both try to open a listener for the same new port - the loser calls
// exit.Fatal.  The loop is therefore started once, with a fixed refresh and shutdown wait.
var (
	dynOnce    sync.Once
	dynCfg     *config.Config
	dynWait    = 800 * time.Millisecond
	dynRefresh = 25 * time.Millisecond
)

func dynFabio(t interface{ Fatalf(string, ...any) }) *config.Config {
	dynOnce.Do(func() {
		// (a deregistration grace period longer than the wait is configured as well: it delays the
		// start of the shutdown in main.go, it is not part of the wait handed to proxy.Shutdown)
		cfg, err := config.Load([]string{"fabio", "-proxy.shutdownwait", dynWait.String(), "-proxy.deregistergraceperiod", "3s", "-proxy.strategy", "rr", "-proxy.addr", fmt.Sprintf("127.0.0.1:0;proto=tcp-dynamic;refresh=%s", dynRefresh)}, nil)
		if err != nil {
			t.Fatalf("config: %v", err)
		}
		route.SetTable(route.Table{})
		flex(startServers, cfg, metrics.Provider(metrics.DiscardProvider{}))
		dynCfg = cfg
	})
	return dynCfg
}

// TestC18DynamicListener: shutdown with a proto=tcp-dynamic listener started by
// main.go's own startServers.  Its loop opens a listener for every tcp route
// port in the table and terminates listeners whose routes are gone; shutdown
// may begin at any moment relative to such a termination.  As always: the
// other listeners stop accepting at once and Shutdown returns within the wait.
func TestC18DynamicListener(t *testing.T) {
	echo, err := hx.Listen("tcp", "127.0.0.1:0")
	if err != nil {
		t.Fatalf("VERIF-INCONCLUSIVE %v", err)
	}
	defer echo.Close()
	go func() {
		for {
			c, err := echo.Accept()
			if err != nil {
				return
			}
			go func() { io.Copy(c, c); c.Close() }()
		}
	}()
	hx.Check(t, hx.Scale(8, 60), func(t *rapid.T) {
		cfg := dynFabio(t)
		W, refresh := dynWait, dynRefresh
		httpAddr, dynAddr := freeAddr(), freeAddr()
		_, dynPort, _ := net.SplitHostPort(dynAddr)
		// another listener of the same process (what startServers does for proto=http)
		go proxy.ListenAndServeHTTP(config.Listen{Addr: httpAddr, Proto: "http"}, http.NotFoundHandler(), nil)
		with := fmt.Sprintf("route add web / http://%s/\nroute add dyn :%s tcp://%s\n", echo.Addr(), dynPort, echo.Addr())
		without := fmt.Sprintf("route add web / http://%s/\n", echo.Addr())
		set := func(text string) {
			tbl, err := route.NewTable(bytes.NewBufferString(text))
			if err != nil {
				t.Fatal(err)
			}
			route.SetTable(tbl)
		}
		set(with)
		dynListen := "127.0.0.1:" + dynPort
		if !waitListening(httpAddr) || !waitListening(dynListen) {
			t.Fatalf("VERIF-INCONCLUSIVE listeners did not come up (http %s, dynamic :%s)", httpAddr, dynPort)
		}
		// a tunnel through the dynamic listener that is idle when things happen
		tun, err := net.DialTimeout("tcp", dynListen, 2*time.Second)
		if err != nil {
			t.Fatalf("VERIF-INCONCLUSIVE %v", err)
		}
		defer tun.Close()
		tun.SetDeadline(time.Now().Add(20 * time.Second))
		tun.Write([]byte("ping"))
		buf := make([]byte, 4)
		if _, err := io.ReadFull(tun, buf); err != nil {
			t.Fatalf("tunnel through the dynamic listener does not work: %v", err)
		}
		moment := rapid.SampledFrom([]string{"route-removed-just-before", "no-change", "route-removed-long-before"}).Draw(t, "moment")
		switch moment {
		case "route-removed-just-before":
			set(without)
			// the loop notices within one refresh interval: shutdown begins somewhere around that
			time.Sleep(time.Duration(rapid.IntRange(50, 250).Draw(t, "after-pct")) * refresh / 100)
		case "route-removed-long-before":
			set(without)
			time.Sleep(4 * refresh)
		}
		began := time.Now()
		done := make(chan time.Duration, 1)
		go func() {
			proxy.Shutdown(cfg.Proxy.ShutdownWait) // what main.go's exit handler does
			done <- time.Since(began)
		}()
		time.Sleep(min(W/3, 250*time.Millisecond))
		if c, err := net.DialTimeout("tcp", httpAddr, 300*time.Millisecond); err == nil {
			c.Close()
			t.Fatalf("the http listener still accepts connections %v after shutdown began (wait %v); tcp-dynamic listener, refresh %v, %s", time.Since(began).Round(time.Millisecond), W, refresh, moment)
		}
		var took time.Duration
		select {
		case took = <-done:
		case <-time.After(W + 6*time.Second):
			t.Fatalf("proxy.Shutdown(%v) has not returned after %v; tcp-dynamic listener, refresh %v, %s", W, time.Since(began).Round(time.Millisecond), refresh, moment)
		}
		hx.Eval()
		set(without) // nothing for the (never ending) dynamic loops of this case to re-open
		if took > W+700*time.Millisecond {
			t.Fatalf("proxy.Shutdown(%v) returned after %v; tcp-dynamic listener, refresh %v, %s", W, took.Round(time.Millisecond), refresh, moment)
		}
		hx.Class("dynamic-listener:" + moment)
		hx.NonTrivial(fmt.Sprintf("dyn|%v|%v|%s", W, refresh, moment))
	})
}
