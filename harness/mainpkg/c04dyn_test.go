package main

import (
	"bytes"
	"fmt"
	"io"
	"net"
	"strings"
	"sync/atomic"
	"testing"
	"time"

	"github.com/fabiolb/fabio/route"
	"pgregory.net/rapid"

	"verifharness/hx"
)

// dynamicListenerShares: a proto=tcp-dynamic listener (opened by main.go's own loop) serves a
// port for which the table has a route for one exact address (127.0.0.1:port) and a route for
// the port as such (:port) with 2-4 equally weighted targets. Connections to the exact address
// and to another address of the host arrive in a generated order, one after the other: every
// connection to the exact address goes to that route's target, and the connections answered by
// the :port route are spread over its targets round robin - whatever else was routed in between.
func dynamicListenerShares(t *rapid.T, ups []net.Listener, counts []int64) {
	cfg := dynFabio(t)
	if cfg.Proxy.Strategy != "rr" {
		t.Fatalf("harness: the dynamic fabio runs with strategy %q", cfg.Proxy.Strategy)
	}
	n := rapid.IntRange(2, len(ups)-1).Draw(t, "targets-of-the-port-route")
	addr := freeAddr()
	_, port, _ := net.SplitHostPort(addr)
	var text strings.Builder
	fmt.Fprintf(&text, "route add exact 127.0.0.1:%s tcp://%s\n", port, ups[0].Addr())
	for i := 1; i <= n; i++ {
		fmt.Fprintf(&text, "route add generic :%s tcp://%s\n", port, ups[i].Addr())
	}
	tbl, err := route.NewTable(bytes.NewBufferString(text.String()))
	if err != nil {
		t.Fatal(err)
	}
	route.SetTable(tbl)
	defer func() {
		route.SetTable(route.Table{})
		time.Sleep(4 * dynRefresh) // the loop closes the listener of this case
	}()
	if !waitListening("127.0.0.1:" + port) {
		t.Fatalf("VERIF-INCONCLUSIVE the dynamic listener for :%s did not come up", port)
	}
	time.Sleep(100 * time.Millisecond) // the readiness probe is itself a routed connection: let it land
	for i := range counts {
		atomic.StoreInt64(&counts[i], 0)
	}
	var order []byte
	switch rapid.IntRange(0, 2).Draw(t, "order") {
	case 0: // strictly alternating
		for k, m := 0, n*rapid.IntRange(2, 5).Draw(t, "cycles"); k < m; k++ {
			order = append(order, 'e', 'g')
		}
	case 1: // n-1 exact ones between two generic ones
		for k, m := 0, n*rapid.IntRange(2, 4).Draw(t, "cycles"); k < m; k++ {
			for j := 0; j < n-1; j++ {
				order = append(order, 'e')
			}
			order = append(order, 'g')
		}
	default:
		for k, m := 0, rapid.IntRange(2*n, 10*n).Draw(t, "connections"); k < m; k++ {
			order = append(order, rapid.SampledFrom([]byte{'e', 'g'}).Draw(t, "to"))
		}
	}
	nExact, nGeneric := 0, 0
	for _, o := range order {
		dst := "127.0.0.1:" + port
		if o == 'g' {
			dst = "127.0.0.2:" + port
			nGeneric++
		} else {
			nExact++
		}
		c, err := net.DialTimeout("tcp", dst, 2*time.Second)
		if err != nil {
			t.Fatalf("VERIF-INCONCLUSIVE dial %s: %v", dst, err)
		}
		c.SetDeadline(time.Now().Add(5 * time.Second))
		c.Write([]byte("ping"))
		io.ReadAll(c)
		c.Close()
	}
	hx.EvalN(len(order))
	got := make([]int64, n+1)
	for i := range got {
		got[i] = atomic.LoadInt64(&counts[i])
	}
	desc := fmt.Sprintf("tcp-dynamic listener on :%s, strategy rr\n%sconnections one after the other (e = to 127.0.0.1, g = to 127.0.0.2): %s\nconnections per upstream (exact, then the targets of the :%s route): %v", port, text.String(), order, port, got)
	if got[0] != int64(nExact) {
		t.Fatalf("%d connections to the exact address, its target got %d\n%s", nExact, got[0], desc)
	}
	lo, hi := int64(nGeneric/n), int64((nGeneric+n-1)/n)
	for i := 1; i <= n; i++ {
		if got[i] < lo || got[i] > hi {
			t.Fatalf("%d consecutive picks on the :%s route with %d equally weighted targets: target %d got %d connections, want %d..%d\n%s", nGeneric, port, n, i, got[i], lo, hi, desc)
		}
	}
	hx.Class("dynamic-listener-shares")
	if nExact > 0 && nGeneric >= n {
		hx.NonTrivial(fmt.Sprintf("dynshares|%d|%s", n, order))
	}
}

func dynUpstreams(t *testing.T, k int) ([]net.Listener, []int64) {
	counts := make([]int64, k)
	var ups []net.Listener
	for i := 0; i < k; i++ {
		ln, err := hx.Listen("tcp", "127.0.0.1:0")
		if err != nil {
			t.Fatalf("VERIF-INCONCLUSIVE %v", err)
		}
		t.Cleanup(func() { ln.Close() })
		ups = append(ups, ln)
		go func(i int) {
			for {
				c, err := ln.Accept()
				if err != nil {
					return
				}
				atomic.AddInt64(&counts[i], 1)
				go func() {
					c.SetDeadline(time.Now().Add(5 * time.Second))
					buf := make([]byte, 64)
					c.Read(buf)
					fmt.Fprintf(c, "%d", i)
					c.Close()
				}()
			}
		}(i)
	}
	return ups, counts
}

func TestC04DynamicListenerShares(t *testing.T) {
	ups, counts := dynUpstreams(t, 5)
	hx.Check(t, hx.Scale(8, 80), func(t *rapid.T) { dynamicListenerShares(t, ups, counts) })
}
