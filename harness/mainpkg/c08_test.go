package main

import (
	"bufio"
	"bytes"
	"crypto/tls"
	"fmt"
	"net"
	"net/http"
	"net/http/httptest"
	"strings"
	"sync"
	"testing"
	"time"

	"github.com/fabiolb/fabio/config"
	"github.com/fabiolb/fabio/metrics"
	"github.com/fabiolb/fabio/proxy"
	"github.com/fabiolb/fabio/route"
	"pgregory.net/rapid"

	"verifharness/hx"
)

// TestC08MainWiring: the header contract through listeners that main.go itself
// builds (config.Load -> startServers -> newHTTPProxy): a plain and a TLS
// listener side by side, header options from the command line, clients that
// forge the managed headers.
func TestC08MainWiring(t *testing.T) {
	dir := t.TempDir()
	if err := writeCertPair(dir, "a0", "localhost"); err != nil {
		t.Fatal(err)
	}
	var mu sync.Mutex
	var seen http.Header
	up := httptest.NewServer(http.HandlerFunc(func(w http.ResponseWriter, r *http.Request) {
		mu.Lock()
		seen = r.Header.Clone()
		mu.Unlock()
		w.Write([]byte("ok"))
	}))
	defer up.Close()
	hx.Check(t, hx.Scale(8, 80), func(t *rapid.T) {
		plainAddr, tlsAddr := freeAddr(), freeAddr()
		args := []string{"fabio", "-proxy.cs", "cs=certs;type=path;cert=" + dir,
			"-proxy.addr", plainAddr + ";proto=http," + tlsAddr + ";proto=https;cs=certs", "-ui.addr", freeAddr()}
		tlsHdr := rapid.SampledFrom([]string{"", "X-Forwarded-Ssl", "X-Tls", "x-lower-tls"}).Draw(t, "proxy.header.tls")
		tlsVal := rapid.SampledFrom([]string{"on", "true", "1"}).Draw(t, "proxy.header.tls.value")
		if tlsHdr != "" {
			args = append(args, "-proxy.header.tls", tlsHdr, "-proxy.header.tls.value", tlsVal)
		}
		ipHdr := rapid.SampledFrom([]string{"", "X-Client-Ip", "Cf-Connecting-Ip", "X-Forwarded-For", "X-Real-Ip", "x-forwarded-for"}).Draw(t, "proxy.header.clientip")
		if ipHdr != "" {
			args = append(args, "-proxy.header.clientip", ipHdr)
		}
		sts := rapid.SampledFrom([]int{0, 0, 31536000, 600}).Draw(t, "proxy.header.sts.maxage")
		if sts > 0 {
			args = append(args, "-proxy.header.sts.maxage", fmt.Sprint(sts))
		}
		cfg, err := config.Load(args, nil)
		if err != nil {
			t.Fatalf("config rejected: %v %q", err, args)
		}
		tbl, err := route.NewTable(bytes.NewBufferString("route add web / " + up.URL + "/"))
		if err != nil {
			t.Fatal(err)
		}
		route.SetTable(tbl)
		flex(startServers, cfg, metrics.Provider(metrics.DiscardProvider{}))
		defer proxy.Shutdown(50 * time.Millisecond)
		if !waitListening(plainAddr) || !waitListening(tlsAddr) {
			t.Fatalf("VERIF-INCONCLUSIVE listeners did not come up")
		}
		for k, n := 0, rapid.IntRange(2, 6).Draw(t, "requests"); k < n; k++ {
			overTLS := rapid.Bool().Draw(t, "tls")
			forged := map[string]string{}
			if tlsHdr != "" && rapid.Bool().Draw(t, "forge-tls-header") {
				forged[tlsHdr] = rapid.SampledFrom([]string{tlsVal, "forged", "off"}).Draw(t, "forged-tls")
			}
			if ipHdr != "" && rapid.Bool().Draw(t, "forge-ip-header") {
				forged[ipHdr] = "6.6.6.6"
			}
			chain := ""
			if rapid.IntRange(0, 2).Draw(t, "client-sends-x-forwarded-for") == 0 {
				// an earlier hop's chain: it is kept, the peer is appended
				chain = rapid.SampledFrom([]string{"3.3.3.3", "3.3.3.3, 4.4.4.4"}).Draw(t, "xff-chain")
				forged["X-Forwarded-For"] = chain
				if http.CanonicalHeaderKey(ipHdr) == "X-Forwarded-For" {
					delete(forged, ipHdr)
					forged["X-Forwarded-For"] = chain
				}
			}
			if rapid.IntRange(0, 3).Draw(t, "forge-sts") == 0 {
				forged["Strict-Transport-Security"] = "max-age=1"
			}
			addr := plainAddr
			if overTLS {
				addr = tlsAddr
			}
			var c net.Conn
			// (a TLS listener is open a moment before its certificate store has been filled: the
			// handshake is tried again for a while, whatever then remains is not this property's business)
			for attempt := 0; ; attempt++ {
				raw, err := net.DialTimeout("tcp", addr, 3*time.Second)
				if err != nil {
					t.Fatalf("VERIF-INCONCLUSIVE dial: %v", err)
				}
				raw.SetDeadline(time.Now().Add(10 * time.Second))
				c = raw
				if !overTLS {
					break
				}
				tc := tls.Client(raw, &tls.Config{InsecureSkipVerify: true, ServerName: "localhost"})
				err = tc.Handshake()
				if err == nil {
					c = tc
					break
				}
				raw.Close()
				if attempt >= 60 {
					t.Fatalf("VERIF-INCONCLUSIVE TLS handshake: %v", err)
				}
				time.Sleep(50 * time.Millisecond)
			}
			var b strings.Builder
			b.WriteString("GET /x HTTP/1.1\r\nHost: example.com\r\nConnection: close\r\n")
			for h, v := range forged {
				fmt.Fprintf(&b, "%s: %s\r\n", h, v)
			}
			b.WriteString("\r\n")
			mu.Lock()
			seen = nil
			mu.Unlock()
			c.Write([]byte(b.String()))
			resp, err := http.ReadResponse(bufio.NewReader(c), nil)
			c.Close()
			hx.Eval()
			if err != nil || resp.StatusCode != 200 {
				t.Fatalf("request failed: %v %v", resp, err)
			}
			mu.Lock()
			got := seen
			mu.Unlock()
			ctx := fmt.Sprintf("options %q\nrequest over TLS=%v with forged headers %v\nupstream saw %v", args[5:], overTLS, forged, got)
			if got == nil {
				t.Fatalf("upstream saw nothing\n%s", ctx)
			}
			if tlsHdr != "" {
				vals := got.Values(tlsHdr)
				if overTLS && (len(vals) != 1 || vals[0] != tlsVal) {
					t.Fatalf("TLS connection: header %s = %q at the upstream, want [%q]\n%s", tlsHdr, vals, tlsVal, ctx)
				}
				if !overTLS && len(vals) != 0 {
					t.Fatalf("plain connection: header %s = %q reached the upstream\n%s", tlsHdr, vals, ctx)
				}
			}
			// X-Forwarded-For: what the client sent, then the peer - also when that header is the one
			// named as proxy.header.clientip
			// (when X-Forwarded-For itself is named as the client-IP header the statement's two clauses -
			// "overwritten with the peer" and "the peer is appended" - pull in different directions;
			// nothing is demanded of the chain then)
			if c := forged["X-Forwarded-For"]; c != "" {
				chain = c
			}
			wantXFF := "127.0.0.1"
			if chain != "" {
				wantXFF = chain + ", 127.0.0.1"
			}
			if v := strings.Join(got.Values("X-Forwarded-For"), ", "); v != wantXFF && http.CanonicalHeaderKey(ipHdr) != "X-Forwarded-For" {
				t.Fatalf("X-Forwarded-For = %q at the upstream, want %q\n%s", v, wantXFF, ctx)
			}
			if c := http.CanonicalHeaderKey(ipHdr); ipHdr != "" && c != "X-Forwarded-For" && !(c == "X-Real-Ip" && forged[ipHdr] != "") {
				if vals := got.Values(ipHdr); len(vals) != 1 || vals[0] != "127.0.0.1" {
					t.Fatalf("client-IP header %s = %q at the upstream, want the peer address 127.0.0.1\n%s", ipHdr, vals, ctx)
				}
			}
			wantProto := "http"
			if overTLS {
				wantProto = "https"
			}
			if v := got.Get("X-Forwarded-Proto"); v != wantProto {
				t.Fatalf("X-Forwarded-Proto = %q, want %q\n%s", v, wantProto, ctx)
			}
			hsts := resp.Header.Get("Strict-Transport-Security")
			if overTLS && sts > 0 && hsts != fmt.Sprintf("max-age=%d", sts) {
				t.Fatalf("Strict-Transport-Security %q on a TLS connection, configured max-age %d\n%s", hsts, sts, ctx)
			}
			if !overTLS && hsts != "" {
				t.Fatalf("Strict-Transport-Security %q on a plain connection\n%s", hsts, ctx)
			}
			if len(forged) > 0 {
				hx.NonTrivial(fmt.Sprintf("main|%v|%v|%v|%s|%s|%d", overTLS, forged, tlsHdr, tlsVal, ipHdr, sts))
			}
			hx.Class(fmt.Sprintf("main-wiring:tls=%v", overTLS))
		}
	})
}
