package main

import (
	"bytes"
	"fmt"
	"io"
	"net"
	"strings"
	"testing"
	"time"

	"github.com/fabiolb/fabio/route"
	"pgregory.net/rapid"

	"verifharness/hx"
)

// TestC09DynamicListenerTunnel: a tunnel through a listener that main.go's
// tcp-dynamic loop opened keeps carrying bytes while the routing table changes
// in ways that do not concern its route (other services come and go, http
// routes with host:port prefixes appear).
func TestC09DynamicListenerTunnel(t *testing.T) {
	echo, err := hx.Listen("tcp", "127.0.0.1:0")
	if err != nil {
		t.Fatalf("VERIF-INCONCLUSIVE %v", err)
	}
	defer echo.Close()
	go func() {
		for {
			c, err := echo.Accept()
			if err != nil {
				return
			}
			go func() { io.Copy(c, c); c.Close() }()
		}
	}()
	hx.Check(t, hx.Scale(4, 40), func(t *rapid.T) {
		dynFabio(t)
		refresh := dynRefresh
		dynAddr := freeAddr()
		_, dynPort, _ := net.SplitHostPort(dynAddr)
		base := fmt.Sprintf("route add dyn :%s tcp://%s\n", dynPort, echo.Addr())
		set := func(text string) {
			tbl, err := route.NewTable(bytes.NewBufferString(text))
			if err != nil {
				t.Fatal(err)
			}
			route.SetTable(tbl)
		}
		set(base)
		defer set("route add none /none http://127.0.0.1:1/\n") // the loop terminates the listener of this case
		dynListen := "127.0.0.1:" + dynPort
		if !waitListening(dynListen) {
			t.Fatalf("VERIF-INCONCLUSIVE the dynamic listener on :%s did not come up", dynPort)
		}
		tun, err := net.DialTimeout("tcp", dynListen, 2*time.Second)
		if err != nil {
			t.Fatalf("VERIF-INCONCLUSIVE %v", err)
		}
		defer tun.Close()
		roundTrip := func(i int, what string) {
			msg := []byte(fmt.Sprintf("message-%d-%s", i, strings.Repeat("x", i%50)))
			tun.SetDeadline(time.Now().Add(5 * time.Second))
			if _, err := tun.Write(msg); err != nil {
				t.Fatalf("write %d through the tunnel failed after %s: %v", i, what, err)
			}
			buf := make([]byte, len(msg))
			if _, err := io.ReadFull(tun, buf); err != nil || !bytes.Equal(buf, msg) {
				t.Fatalf("round trip %d through the tunnel on the dynamic listener failed after %s: %v (got %q)", i, what, err, buf)
			}
			hx.Eval()
		}
		roundTrip(0, "the start")
		others := []string{
			"route add web example.com:8080/ http://10.0.0.1:80/\n",
			"route add api api.example.com:9090/v1 http://10.0.0.2:80/\n",
			"route add plain /plain http://10.0.0.3:80/\n",
			"route add tls secure.example.com:443/ https://10.0.0.4:443\n",
			"route add other :%d tcp://10.0.0.5:5000\n",
			"route add h2 h.example.org:7000/ http://10.0.0.6:80/\n",
		}
		for i, n := 1, rapid.IntRange(3, 10).Draw(t, "table-changes"); i <= n; i++ {
			text := base
			var added []string
			for _, o := range rapid.SliceOfNDistinct(rapid.SampledFrom(others), 1, 5, func(s string) string { return s }).Draw(t, "others") {
				if strings.Contains(o, "%d") {
					o = fmt.Sprintf(o, 40000+i)
				}
				text += o
				added = append(added, strings.Fields(o)[3])
			}
			set(text)
			time.Sleep(time.Duration(rapid.IntRange(100, 300).Draw(t, "wait-pct")) * refresh / 100)
			roundTrip(i, fmt.Sprintf("routes for %v were added next to the tunnel's own route", added))
		}
		hx.Class("dynamic-listener-tunnel-across-unrelated-table-changes")
		hx.NonTrivial(fmt.Sprintf("dyn-tunnel|%v|%s", refresh, dynPort))
	})
}
