package main

import (
	"bytes"
	"context"
	"encoding/binary"
	"fmt"
	"io"
	"math/rand"
	"net"
	"sort"
	"strings"
	"sync"
	"sync/atomic"
	"testing"
	"time"

	"github.com/fabiolb/fabio/config"
	"github.com/fabiolb/fabio/metrics"
	"github.com/fabiolb/fabio/proxy"
	"github.com/fabiolb/fabio/route"
	"google.golang.org/grpc"
	"google.golang.org/grpc/codes"
	"google.golang.org/grpc/credentials/insecure"
	"google.golang.org/grpc/metadata"
	"google.golang.org/grpc/stats"
	"google.golang.org/grpc/status"
	"pgregory.net/rapid"

	"verifharness/hx"
	"verifharness/observe"
)

// rawBytes codec: client and backends exchange already-marshalled protobuf
// wire messages, so no generated stubs are needed.
type rawCodec struct{}

func (rawCodec) Marshal(v any) ([]byte, error) { return *(v.(*[]byte)), nil }
func (rawCodec) Unmarshal(data []byte, v any) error {
	*(v.(*[]byte)) = append([]byte(nil), data...)
	return nil
}
func (rawCodec) Name() string { return "proto" }

// ---------------------------------------------------------------------------
// scripted backends

type callScript struct {
	respHeaders  metadata.MD
	respTrailers metadata.MD
	responses    [][]byte
	code         codes.Code
	msg          string
	interleaved  bool          // respond while still receiving
	delay        time.Duration // time the backend takes before it answers (C18)
	hang         bool          // never answer: wait until the stream is torn down (C18)
}

type callRecord struct {
	backend  int
	method   string
	md       metadata.MD
	messages [][]byte
}

type grpcBackend struct {
	idx     int
	ln      net.Listener
	srv     *grpc.Server
	begins  int64
	ends    int64
	lastEnd atomic.Value // time.Time
}

type connStats struct{ b *grpcBackend }

func (c connStats) TagRPC(ctx context.Context, _ *stats.RPCTagInfo) context.Context { return ctx }
func (c connStats) HandleRPC(context.Context, stats.RPCStats)                       {}
func (c connStats) TagConn(ctx context.Context, _ *stats.ConnTagInfo) context.Context {
	return ctx
}
func (c connStats) HandleConn(_ context.Context, s stats.ConnStats) {
	switch s.(type) {
	case *stats.ConnBegin:
		atomic.AddInt64(&c.b.begins, 1)
	case *stats.ConnEnd:
		atomic.AddInt64(&c.b.ends, 1)
		c.b.lastEnd.Store(time.Now())
	}
}

type grpcHarness struct {
	mu        sync.Mutex
	scripts   map[string]callScript
	records   map[string]*callRecord
	backends  []*grpcBackend
	proxyAddr string
	conn      *grpc.ClientConn
	seq       int64
	poolBorn  time.Time // when the proxy (and its connection pool with the 5 s clean-up loop) was created
}

func (h *grpcHarness) handler(b *grpcBackend) grpc.StreamHandler {
	return func(_ any, stream grpc.ServerStream) error {
		md, _ := metadata.FromIncomingContext(stream.Context())
		method, _ := grpc.MethodFromServerStream(stream)
		id := ""
		if v := md.Get("x-call-id"); len(v) > 0 {
			id = v[0]
		}
		h.mu.Lock()
		sc, ok := h.scripts[id]
		rec := &callRecord{backend: b.idx, method: method, md: md.Copy()}
		h.records[id] = rec
		h.mu.Unlock()
		if !ok {
			return status.Error(codes.DataLoss, "harness: no script for call id "+id)
		}
		recvAll := func() error {
			for {
				var m []byte
				if err := stream.RecvMsg(&m); err != nil {
					if err == io.EOF {
						return nil
					}
					return err
				}
				h.mu.Lock()
				rec.messages = append(rec.messages, m)
				h.mu.Unlock()
			}
		}
		var recvErr error
		done := make(chan struct{})
		if sc.interleaved {
			go func() { recvErr = recvAll(); close(done) }()
		} else {
			recvErr = recvAll()
			close(done)
		}
		if sc.hang {
			<-stream.Context().Done()
			return status.Error(codes.Canceled, "harness: hung stream torn down")
		}
		if sc.delay > 0 {
			select {
			case <-time.After(sc.delay):
			case <-stream.Context().Done():
				return status.Error(codes.Canceled, "harness: torn down while working")
			}
		}
		if len(sc.respHeaders) > 0 {
			stream.SetHeader(sc.respHeaders)
		}
		for i := range sc.responses {
			if err := stream.SendMsg(&sc.responses[i]); err != nil {
				return err
			}
		}
		<-done
		if recvErr != nil {
			return status.Error(codes.DataLoss, "harness: backend receive failed: "+recvErr.Error())
		}
		if len(sc.respTrailers) > 0 {
			stream.SetTrailer(sc.respTrailers)
		}
		if sc.code == codes.OK {
			return nil
		}
		return status.Error(sc.code, sc.msg)
	}
}

var (
	grpcOnce sync.Once
	grpcH    *grpcHarness
)

func startGRPC(t *testing.T) *grpcHarness {
	grpcOnce.Do(func() {
		h := &grpcHarness{scripts: map[string]callScript{}, records: map[string]*callRecord{}}
		for i := 0; i < 3; i++ {
			ln, err := hx.Listen("tcp", "127.0.0.1:0")
			if err != nil {
				panic(err)
			}
			b := &grpcBackend{idx: i, ln: ln}
			b.srv = grpc.NewServer(grpc.ForceServerCodec(rawCodec{}), grpc.UnknownServiceHandler(h.handler(b)), grpc.StatsHandler(connStats{b}), grpc.MaxRecvMsgSize(8<<20))
			go b.srv.Serve(ln)
			h.backends = append(h.backends, b)
		}
		cfg, err := config.Load([]string{"fabio"}, nil)
		if err != nil {
			panic(err)
		}
		cfg.Proxy.Strategy = "rr"
		// proxy.grpcshutdowntimeout: how long a connection whose backend left the table is given (0 = none)
		cfg.Proxy.GRPCGShutdownTimeout = []time.Duration{2 * time.Second, 0, 500 * time.Millisecond}[hx.Shard()%3]
		hx.Note(fmt.Sprintf("proxy.grpcshutdowntimeout=%v", cfg.Proxy.GRPCGShutdownTimeout))
		// different limits for the two directions (they are separate options)
		cfg.Proxy.GRPCMaxRxMsgSize, cfg.Proxy.GRPCMaxTxMsgSize = grpcRxLimit(), grpcTxLimit()
		dp := metrics.DiscardProvider{}
		sh := &proxy.GrpcStatsHandler{Connect: dp.NewCounter("c"), Request: dp.NewHistogram("r"), NoRoute: dp.NewCounter("n"), Status: dp.NewHistogram("s", "code")}
		h.poolBorn = time.Now()
		// the listener is started the way main.go starts a proto=grpc listener
		h.proxyAddr = freeAddr()
		opts := flexAs[[]grpc.ServerOption](newGrpcProxy, cfg, sh)
		go func() {
			if err := proxy.ListenAndServeGRPC(config.Listen{Addr: h.proxyAddr, Proto: "grpc"}, opts, nil); err != nil {
				fmt.Println("grpc listener:", err)
			}
		}()
		if !waitListening(h.proxyAddr) {
			panic("VERIF-INCONCLUSIVE grpc listener did not come up")
		}
		h.conn, err = grpc.NewClient(h.proxyAddr, grpc.WithTransportCredentials(insecure.NewCredentials()),
			grpc.WithDefaultCallOptions(grpc.ForceCodec(rawCodec{}), grpc.MaxCallRecvMsgSize(8<<20)))
		if err != nil {
			panic(err)
		}
		grpcH = h
	})
	return grpcH
}

// ---------------------------------------------------------------------------
// generators

// message size limits configured on the proxy: requests may use the receive
// limit, responses the (smaller) send limit
func grpcRxLimit() int { return hx.Pick(160<<10, 4<<20) }
func grpcTxLimit() int { return hx.Pick(80<<10, 2<<20) }

// genProtoMessage builds a well-formed protobuf wire message of at most
// maxLen bytes from random fields.
func genProtoMessage(t *rapid.T, label string, maxLen int) []byte {
	var b []byte
	varint := func(v uint64) {
		var tmp [10]byte
		n := binary.PutUvarint(tmp[:], v)
		b = append(b, tmp[:n]...)
	}
	nf := rapid.IntRange(0, 6).Draw(t, label+"nfields")
	for i := 0; i < nf; i++ {
		field := uint64(rapid.IntRange(1, 2000).Draw(t, label+"field"))
		switch rapid.IntRange(0, 3).Draw(t, label+"wt") {
		case 0:
			varint(field<<3 | 0)
			varint(rapid.Uint64().Draw(t, label+"varint"))
		case 1:
			varint(field<<3 | 1)
			b = binary.LittleEndian.AppendUint64(b, rapid.Uint64().Draw(t, label+"f64"))
		case 2:
			varint(field<<3 | 5)
			b = binary.LittleEndian.AppendUint32(b, rapid.Uint32().Draw(t, label+"f32"))
		default:
			var n int
			switch rapid.IntRange(0, 4).Draw(t, label+"lenclass") {
			case 0:
				n = 0
			case 1, 2:
				n = rapid.IntRange(1, 300).Draw(t, label+"small")
			case 3:
				n = rapid.IntRange(301, 20000).Draw(t, label+"mid")
			default:
				n = rapid.IntRange(20001, max(20002, maxLen)).Draw(t, label+"large")
			}
			if room := maxLen - len(b) - 16; n > room {
				n = max(0, room)
			}
			varint(field<<3 | 2)
			varint(uint64(n))
			p := make([]byte, n)
			rand.New(rand.NewSource(rapid.Int64().Draw(t, label+"seed"))).Read(p) // deterministic expansion of a drawn seed
			b = append(b, p...)
		}
	}
	return b
}

func genMD(t *rapid.T, label string) metadata.MD {
	md := metadata.MD{}
	for i, n := 0, rapid.IntRange(0, 6).Draw(t, label+"n"); i < n; i++ {
		k := rapid.SampledFrom([]string{"x-custom", "x-trace-id", "x-multi", "x-multi", "authorization", "x-data-bin", "x-empty", "x-tenant"}).Draw(t, label+"key")
		var v string
		if strings.HasSuffix(k, "-bin") {
			v = string(rapid.SliceOfN(rapid.Byte(), 0, 16).Draw(t, label+"bin"))
		} else {
			v = rapid.SampledFrom([]string{"v1", "some value", "", "Bearer abc.def", "a,b", "x=y; z", "1234567890"}).Draw(t, label+"val")
		}
		if k == "x-empty" {
			v = ""
		}
		md.Append(k, v)
	}
	return md
}

type grpcTable struct {
	text  string
	model map[string][]int // "<host>|<path>" -> backends
}

func genGRPCTable(t *rapid.T, h *grpcHarness) grpcTable {
	gt := grpcTable{model: map[string][]int{}}
	var b strings.Builder
	add := func(host, path string, be int) {
		fmt.Fprintf(&b, "route add svc%d %s%s grpc://%s opts \"proto=grpc\"\n", be, host, path, h.backends[be].ln.Addr())
		gt.model[host+"|"+path] = append(gt.model[host+"|"+path], be)
	}
	for _, cand := range []struct {
		host, path string
	}{{"", "/pkg.A/"}, {"beta", "/pkg.A/"}, {"", "/pkg.B/"}, {"", "/pkg.A/Special"}, {"beta", "/pkg.B/"}, {"", "/grpc.health.v1.Health/"}, {"", "/grpc.reflection.v1alpha.ServerReflection/"},
		// a glob host next to the exact one: consulted when the exact host has no route for the method
		{"b*a", "/pkg.B/"}, {"b*a", "/pkg.C/"}} {
		if rapid.IntRange(0, 2).Draw(t, "have") > 0 {
			add(cand.host, cand.path, rapid.IntRange(0, 2).Draw(t, "be"))
			if rapid.IntRange(0, 3).Draw(t, "second") == 0 {
				add(cand.host, cand.path, rapid.IntRange(0, 2).Draw(t, "be2"))
			}
		}
	}
	gt.text = b.String()
	return gt
}

// wantBackends: the C03 reference specialised to these tables.
func (gt grpcTable) wantBackends(method string, dsthost []string) []int {
	host := ""
	if len(dsthost) == 1 {
		host = strings.ToLower(dsthost[0])
	}
	best := func(h string) []int {
		var bestPath string
		var out []int
		for k, be := range gt.model {
			p := strings.SplitN(k, "|", 2)
			if p[0] == h && strings.HasPrefix(method, p[1]) && len(p[1]) > len(bestPath) {
				bestPath, out = p[1], be
			}
		}
		return out
	}
	if host != "" {
		if be := best(host); be != nil {
			return be
		}
		if host == "beta" { // the only name the glob host pattern b*a matches here
			if be := best("b*a"); be != nil {
				return be
			}
		}
	}
	return best("")
}

func mdSubset(want, got metadata.MD) string {
	for k, vs := range want {
		g := got.Get(k)
		if len(g) != len(vs) {
			return fmt.Sprintf("key %q: got %q want %q", k, g, vs)
		}
		for i := range vs {
			if g[i] != vs[i] {
				return fmt.Sprintf("key %q: got %q want %q", k, g, vs)
			}
		}
	}
	return ""
}

func sameMessages(a, b [][]byte) string {
	if len(a) != len(b) {
		return fmt.Sprintf("%d messages, want %d", len(a), len(b))
	}
	for i := range a {
		if !bytes.Equal(a[i], b[i]) {
			return fmt.Sprintf("message %d differs (%d vs %d bytes)", i, len(a[i]), len(b[i]))
		}
	}
	return ""
}

func TestC16Calls(t *testing.T) {
	h := startGRPC(t)
	hx.Check(t, hx.Scale(1500, 50000), func(t *rapid.T) {
		gt := genGRPCTable(t, h)
		tbl, err := route.NewTable(bytes.NewBufferString(gt.text))
		if err != nil {
			t.Fatalf("%v\n%s", err, gt.text)
		}
		route.SetTable(tbl)
		ncalls := rapid.IntRange(1, 4).Draw(t, "ncalls")
		for c := 0; c < ncalls; c++ {
			if rapid.IntRange(0, 3).Draw(t, "admin-looks-at-the-table") == 0 {
				// somebody opens the routes page of the UI / calls the admin API between two calls
				observe.Poke(route.GetTable())
				hx.Class("admin-endpoints-read-the-table-between-calls")
			}
			method := rapid.SampledFrom([]string{"/pkg.A/M1", "/pkg.A/M2", "/pkg.A/Special", "/pkg.B/Get", "/pkg.C/Nope", "/pkg.A/SpecialX",
				// well-known services a gRPC server might answer itself: they are method paths like any other
				"/grpc.health.v1.Health/Check", "/grpc.health.v1.Health/Watch", "/grpc.reflection.v1alpha.ServerReflection/ServerReflectionInfo", "/grpc.channelz.v1.Channelz/GetServers"}).Draw(t, "method")
			var dsthost []string
			switch rapid.IntRange(0, 5).Draw(t, "dsthost") {
			case 1:
				dsthost = []string{"beta"}
			case 2:
				dsthost = []string{"BETA"}
			case 3:
				dsthost = []string{"other"}
			case 4:
				dsthost = []string{"beta", "x"}
			}
			reqMax, respMax := grpcRxLimit()-4096, grpcTxLimit()-4096
			var reqs [][]byte
			shape := rapid.SampledFrom([]string{"unary", "client-stream", "server-stream", "bidi"}).Draw(t, "shape")
			nreq, nresp := 1, 1
			if shape == "client-stream" || shape == "bidi" {
				nreq = rapid.IntRange(0, 20).Draw(t, "nreq")
			}
			if shape == "server-stream" || shape == "bidi" {
				nresp = rapid.IntRange(0, 20).Draw(t, "nresp")
			}
			for i := 0; i < nreq; i++ {
				reqs = append(reqs, genProtoMessage(t, "req", reqMax))
			}
			sc := callScript{respHeaders: genMD(t, "rh"), respTrailers: genMD(t, "rt"), interleaved: rapid.Bool().Draw(t, "interleaved")}
			for i := 0; i < nresp; i++ {
				sc.responses = append(sc.responses, genProtoMessage(t, "resp", respMax))
			}
			if rapid.IntRange(0, 2).Draw(t, "fail") == 0 {
				sc.code = codes.Code(rapid.IntRange(1, 16).Draw(t, "code"))
				sc.msg = rapid.SampledFrom([]string{"boom", "", "detailed message: ünï", "not found: x/y"}).Draw(t, "msg")
			}
			id := fmt.Sprintf("call-%d", atomic.AddInt64(&h.seq, 1))
			h.mu.Lock()
			h.scripts[id] = sc
			h.mu.Unlock()
			sent := genMD(t, "md")
			out := sent.Copy()
			out.Set("x-call-id", id)
			if dsthost != nil {
				out.Set("dsthost", dsthost...)
			}
			ctx, cancel := context.WithTimeout(metadata.NewOutgoingContext(context.Background(), out), 30*time.Second)
			var gotResp [][]byte
			var hdr, trl metadata.MD
			var callErr error
			func() {
				defer cancel()
				stream, err := h.conn.NewStream(ctx, &grpc.StreamDesc{ClientStreams: true, ServerStreams: true}, method)
				if err != nil {
					callErr = err
					return
				}
				for i := range reqs {
					if err := stream.SendMsg(&reqs[i]); err != nil {
						break // the status is delivered by RecvMsg
					}
				}
				stream.CloseSend()
				for {
					var m []byte
					if err := stream.RecvMsg(&m); err != nil {
						if err != io.EOF {
							callErr = err
						}
						break
					}
					gotResp = append(gotResp, m)
				}
				hdr, _ = stream.Header()
				trl = stream.Trailer()
			}()
			hx.Eval()
			h.mu.Lock()
			rec := h.records[id]
			delete(h.records, id)
			delete(h.scripts, id)
			h.mu.Unlock()
			want := gt.wantBackends(method, dsthost)
			ctxs := fmt.Sprintf("table:\n%scall: %s dsthost=%q shape=%s requests=%d responses=%d backend status=%v %q interleaved=%v", gt.text, method, dsthost, shape, len(reqs), len(sc.responses), sc.code, sc.msg, sc.interleaved)
			if want == nil {
				if status.Code(callErr) != codes.NotFound {
					t.Fatalf("call without a matching route ended with %v, want NotFound\n%s", callErr, ctxs)
				}
				if rec != nil {
					t.Fatalf("a backend (%d) was contacted for a call without a matching route\n%s", rec.backend, ctxs)
				}
				hx.Class("unrouted:NotFound")
				continue
			}
			if rec == nil {
				t.Fatalf("no backend saw the call (client error: %v), route allows %v\n%s", callErr, want, ctxs)
			}
			okBackend := false
			for _, b := range want {
				if b == rec.backend {
					okBackend = true
				}
			}
			if !okBackend {
				t.Fatalf("call served by backend %d, matching route has %v\n%s", rec.backend, want, ctxs)
			}
			if rec.method != method {
				t.Fatalf("backend saw method %q\n%s", rec.method, ctxs)
			}
			if d := sameMessages(rec.messages, reqs); d != "" {
				t.Fatalf("backend received different messages: %s\n%s", d, ctxs)
			}
			if d := mdSubset(sent, rec.md); d != "" {
				t.Fatalf("backend received different metadata: %s\n%s", d, ctxs)
			}
			if got := status.Code(callErr); got != sc.code {
				t.Fatalf("caller saw status %v (%v), backend returned %v\n%s", got, callErr, sc.code, ctxs)
			}
			if sc.code != codes.OK {
				if st, _ := status.FromError(callErr); st.Message() != sc.msg {
					t.Fatalf("caller saw status message %q, backend sent %q\n%s", st.Message(), sc.msg, ctxs)
				}
			}
			if d := sameMessages(gotResp, sc.responses); d != "" {
				t.Fatalf("caller received different messages: %s\n%s", d, ctxs)
			}
			if d := mdSubset(sc.respTrailers, trl); d != "" {
				t.Fatalf("caller received different trailers: %s\n%s", d, ctxs)
			}
			if len(sc.responses) > 0 {
				if d := mdSubset(sc.respHeaders, hdr); d != "" {
					t.Fatalf("caller received different headers: %s\n%s", d, ctxs)
				}
			}
			hx.Class("shape:" + shape)
			if strings.HasPrefix(method, "/grpc.") {
				hx.Class("well-known-grpc-service-path-routed")
			}
			for _, m := range reqs {
				if len(m) > grpcTxLimit() {
					hx.Class("request-larger-than-the-send-limit")
				}
			}
			if len(reqs) >= 2 || len(sc.responses) >= 2 || (sc.code != codes.OK && len(sc.respTrailers) > 0) || c > 0 {
				hx.NonTrivial(fmt.Sprintf("%s|%s|%v|%d|%d|%v|%d", gt.text, method, dsthost, len(reqs), len(sc.responses), sc.code, c))
				hx.Class("nontrivial")
			}
			if sc.code != codes.OK {
				hx.Class("non-OK-status")
			}
			if hx.WantSample("call") && len(reqs) >= 2 && len(sc.responses) >= 2 {
				var rs, ps []int
				for _, m := range reqs {
					rs = append(rs, len(m))
				}
				for _, m := range sc.responses {
					ps = append(ps, len(m))
				}
				hx.Sample("call", map[string]any{"method": method, "dsthost": dsthost, "request_sizes": rs, "response_sizes": ps, "status": sc.code.String(), "served_by": rec.backend})
			}
		}
	})
}

// connections are reused per backend and dropped once the backend leaves the table
func TestC16Pool(t *testing.T) {
	h := startGRPC(t)
	call := func(method string) error {
		id := fmt.Sprintf("pool-%d", atomic.AddInt64(&h.seq, 1))
		h.mu.Lock()
		h.scripts[id] = callScript{responses: [][]byte{{}}}
		h.mu.Unlock()
		ctx, cancel := context.WithTimeout(metadata.NewOutgoingContext(context.Background(), metadata.Pairs("x-call-id", id)), 10*time.Second)
		defer cancel()
		var req, resp []byte
		return h.conn.Invoke(ctx, method, &req, &resp)
	}
	text := func(bs ...int) string {
		var b strings.Builder
		for _, i := range bs {
			fmt.Fprintf(&b, "route add svc%d /pool.S%d/ grpc://%s opts \"proto=grpc\"\n", i, i, h.backends[i].ln.Addr())
		}
		return b.String()
	}
	set := func(bs ...int) {
		tbl, err := route.NewTable(bytes.NewBufferString(text(bs...)))
		if err != nil {
			t.Fatal(err)
		}
		route.SetTable(tbl)
	}
	set(0, 1)
	b0, b1 := h.backends[0], h.backends[1]
	begin0, begin1 := atomic.LoadInt64(&b0.begins), atomic.LoadInt64(&b1.begins)
	n := hx.Pick(40, 400)
	for i := 0; i < n; i++ {
		if err := call("/pool.S0/M"); err != nil {
			t.Fatalf("call %d failed: %v", i, err)
		}
		if err := call("/pool.S1/M"); err != nil {
			t.Fatalf("call %d failed: %v", i, err)
		}
	}
	hx.EvalN(2 * n)
	if d := atomic.LoadInt64(&b0.begins) - begin0; d > 1 {
		t.Fatalf("%d sequential calls to one backend opened %d connections (connections are not reused)", n, d)
	}
	if d := atomic.LoadInt64(&b1.begins) - begin1; d > 1 {
		t.Fatalf("%d sequential calls to one backend opened %d connections", n, d)
	}
	// backend 1 leaves the table
	// (a connection to backend 0 that an earlier clean-up cycle scheduled for closing may
	// still end during this window: "dropped" is observed as a new dial, not as an end)
	begins0, ends1 := atomic.LoadInt64(&b0.begins), atomic.LoadInt64(&b1.ends)
	set(0)
	left := time.Now()
	deadline := left.Add(5*time.Second + 2*time.Second + 4*time.Second) // cleanup interval + grpcshutdowntimeout + slack
	for atomic.LoadInt64(&b1.ends) == ends1 && time.Now().Before(deadline) {
		time.Sleep(50 * time.Millisecond)
		if err := call("/pool.S0/M"); err != nil {
			t.Fatalf("call to the remaining backend failed: %v", err)
		}
	}
	if atomic.LoadInt64(&b1.ends) == ends1 {
		t.Fatalf("the connection to a backend that left the table is still open %v later", time.Since(left))
	}
	if d := atomic.LoadInt64(&b0.begins) - begins0; d != 0 {
		t.Fatalf("the connection to a backend that is still in the table was dropped: %d new connection(s) were opened to it while another backend left the table", d)
	}
	if err := call("/pool.S1/M"); status.Code(err) != codes.NotFound {
		t.Fatalf("call to the removed route: %v, want NotFound", err)
	}
	// one service with two instances: round robin must reach both (the pool is per backend, not per service)
	shared := fmt.Sprintf("route add shared /pool.Shared/ grpc://%s opts \"proto=grpc\"\nroute add shared /pool.Shared/ grpc://%s opts \"proto=grpc\"\n", h.backends[0].ln.Addr(), h.backends[2].ln.Addr())
	tblShared, err := route.NewTable(bytes.NewBufferString(shared))
	if err != nil {
		t.Fatal(err)
	}
	route.SetTable(tblShared)
	served := map[int]int{}
	for i := 0; i < 20; i++ {
		id := fmt.Sprintf("shared-%d", atomic.AddInt64(&h.seq, 1))
		h.mu.Lock()
		h.scripts[id] = callScript{responses: [][]byte{{}}}
		h.mu.Unlock()
		ctx, cancel := context.WithTimeout(metadata.NewOutgoingContext(context.Background(), metadata.Pairs("x-call-id", id)), 10*time.Second)
		var req, resp []byte
		err := h.conn.Invoke(ctx, "/pool.Shared/M", &req, &resp)
		cancel()
		if err != nil {
			t.Fatalf("call to the shared service failed: %v", err)
		}
		h.mu.Lock()
		if r := h.records[id]; r != nil {
			served[r.backend]++
		}
		delete(h.records, id)
		delete(h.scripts, id)
		h.mu.Unlock()
	}
	hx.EvalN(20)
	if served[0] != 10 || served[2] != 10 {
		t.Fatalf("20 round-robin calls to a service with two instances were served %v, want 10 each by backends 0 and 2", served)
	}
	// outage and recovery of one backend: still one connection afterwards, none after it leaves the table
	set(0, 1)
	if err := call("/pool.S1/M"); err != nil {
		t.Fatalf("call before the outage failed: %v", err)
	}
	addr1 := b1.ln.Addr().String()
	b1.srv.Stop()
	for i := 0; i < 4; i++ {
		if err := call("/pool.S1/M"); err == nil {
			t.Fatalf("call to a stopped backend succeeded")
		}
		time.Sleep(50 * time.Millisecond)
	}
	ln1, err := net.Listen("tcp", addr1)
	if err != nil {
		t.Fatalf("VERIF-INCONCLUSIVE cannot re-listen on %s: %v", addr1, err)
	}
	nb := &grpcBackend{idx: 1, ln: ln1}
	nb.srv = grpc.NewServer(grpc.ForceServerCodec(rawCodec{}), grpc.UnknownServiceHandler(h.handler(nb)), grpc.StatsHandler(connStats{nb}), grpc.MaxRecvMsgSize(8<<20))
	go nb.srv.Serve(ln1)
	h.backends[1] = nb
	recovered := false
	for deadline := time.Now().Add(20 * time.Second); time.Now().Before(deadline); time.Sleep(100 * time.Millisecond) {
		if err := call("/pool.S1/M"); err == nil {
			recovered = true
			break
		}
	}
	if !recovered {
		t.Fatalf("calls do not recover after the backend came back")
	}
	for i := 0; i < 10; i++ {
		if err := call("/pool.S1/M"); err != nil {
			t.Fatalf("call after recovery failed: %v", err)
		}
	}
	time.Sleep(1500 * time.Millisecond) // connections that are still reconnecting in the background show up
	if open := atomic.LoadInt64(&nb.begins) - atomic.LoadInt64(&nb.ends); open > 1 {
		t.Fatalf("after an outage and recovery the proxy holds %d connections to one backend", open)
	}
	set(0)
	gone := false
	for deadline := time.Now().Add(11 * time.Second); time.Now().Before(deadline); time.Sleep(100 * time.Millisecond) {
		if atomic.LoadInt64(&nb.begins) == atomic.LoadInt64(&nb.ends) {
			gone = true
			break
		}
	}
	if !gone {
		t.Fatalf("%d connection(s) to a backend that left the table are still open 11s later (after an outage/recovery)", atomic.LoadInt64(&nb.begins)-atomic.LoadInt64(&nb.ends))
	}
	time.Sleep(1200 * time.Millisecond)
	if atomic.LoadInt64(&nb.begins) != atomic.LoadInt64(&nb.ends) {
		t.Fatalf("a connection to a backend that left the table was re-established")
	}
	hx.Class("pool-outage-recovery")
	// coming back works
	set(0, 1)
	if err := call("/pool.S1/M"); err != nil {
		t.Fatalf("call after the backend was re-added failed: %v", err)
	}
	hx.NonTrivial("pool-history-1")
	hx.NonTrivial("pool-history-2")
	hx.Class("pool-history")
	hx.Note(fmt.Sprintf("pool: connection to the removed backend closed %v after it left the table", time.Since(left).Round(100*time.Millisecond)))
}

var _ = sort.Strings
