package main

import (
	"bytes"
	"context"
	"fmt"
	"sync/atomic"
	"testing"
	"time"

	"github.com/fabiolb/fabio/route"
	"google.golang.org/grpc/metadata"
	"pgregory.net/rapid"

	"verifharness/hx"
)

// TestC04GRPCShares: the shares as gRPC callers see them.  The instances of a
// service usually differ in nothing but the port (several on one host): k full
// round-robin cycles of unary calls give every instance k calls.
func TestC04GRPCShares(t *testing.T) {
	h := startGRPC(t)
	hx.Check(t, hx.Scale(6, 60), func(t *rapid.T) {
		n := rapid.IntRange(2, 3).Draw(t, "instances")
		var text bytes.Buffer
		for i := 0; i < n; i++ {
			fmt.Fprintf(&text, "route add shares /c04.S/ grpc://%s opts \"proto=grpc\"\n", h.backends[i].ln.Addr())
		}
		tbl, err := route.NewTable(&text)
		if err != nil {
			t.Fatal(err)
		}
		route.SetTable(tbl)
		cycles := rapid.IntRange(2, 8).Draw(t, "cycles")
		served := make([]int, n)
		for k := 0; k < cycles*n; k++ {
			id := fmt.Sprintf("c04-%d", atomic.AddInt64(&h.seq, 1))
			h.mu.Lock()
			h.scripts[id] = callScript{responses: [][]byte{{}}}
			h.mu.Unlock()
			ctx, cancel := context.WithTimeout(metadata.NewOutgoingContext(context.Background(), metadata.Pairs("x-call-id", id)), 10*time.Second)
			var req, resp []byte
			err := h.conn.Invoke(ctx, "/c04.S/M", &req, &resp)
			cancel()
			h.mu.Lock()
			rec := h.records[id]
			delete(h.records, id)
			delete(h.scripts, id)
			h.mu.Unlock()
			hx.Eval()
			if err != nil || rec == nil {
				t.Fatalf("call %d failed: %v", k, err)
			}
			if rec.backend < 0 || rec.backend >= n {
				t.Fatalf("call served by backend %d which is not on the route", rec.backend)
			}
			served[rec.backend]++
		}
		for i, c := range served {
			if c != cycles {
				t.Fatalf("%d round-robin cycles of gRPC calls over %d equally weighted instances on one host (ports differ): instance %d served %d calls, want %d; all: %v", cycles, n, i, c, cycles, served)
			}
		}
		hx.NonTrivial(fmt.Sprintf("grpc-shares|%d|%d", n, cycles))
		hx.Class("grpc-shares")
	})
}
