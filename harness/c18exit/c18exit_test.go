// Package c18exit: the glue between signals and the drain.  main.go registers its drain
// (deregister, proxy.Shutdown) with exit.Listen; other parts of fabio (bgp) register handlers
// of their own.  A termination signal must start the drain whatever else is registered.
package c18exit

import (
	"fmt"
	"net"
	"net/http"
	"os"
	"sync/atomic"
	"syscall"
	"testing"
	"time"

	"github.com/fabiolb/fabio/config"
	"github.com/fabiolb/fabio/exit"
	"github.com/fabiolb/fabio/proxy"
	"pgregory.net/rapid"

	"verifharness/hx"
)

func TestMain(m *testing.M) { hx.Main(m) }

func freeAddr() string { return hx.FreeAddr() }

func TestC18SignalStartsTheDrain(t *testing.T) {
	hx.Check(t, hx.Scale(6, 40), func(t *rapid.T) {
		n := rapid.IntRange(1, 4).Draw(t, "exit-handlers")
		drainAt := rapid.IntRange(0, n-1).Draw(t, "position-of-the-drain-handler")
		wait := time.Duration(rapid.IntRange(200, 600).Draw(t, "wait_ms")) * time.Millisecond
		sig := rapid.SampledFrom([]syscall.Signal{syscall.SIGTERM, syscall.SIGINT}).Draw(t, "signal")
		hupFirst := rapid.Bool().Draw(t, "sighup-first")
		work := time.Duration(rapid.IntRange(0, 100).Draw(t, "inflight_pct_of_half_wait")) * wait / 200

		addr := freeAddr()
		served := make(chan struct{})
		go proxy.ListenAndServeHTTP(config.Listen{Addr: addr, Proto: "http"}, http.HandlerFunc(func(w http.ResponseWriter, r *http.Request) {
			time.Sleep(work)
			w.Write([]byte("done"))
		}), nil)
		up := false
		for i := 0; i < 400; i++ {
			if c, err := net.DialTimeout("tcp", addr, 100*time.Millisecond); err == nil {
				c.Close()
				up = true
				break
			}
			time.Sleep(5 * time.Millisecond)
		}
		if !up {
			t.Fatalf("VERIF-INCONCLUSIVE listener did not come up")
		}
		ran := make([]int32, n)
		for i := 0; i < n; i++ {
			i := i
			if i == drainAt {
				exit.Listen(func(os.Signal) { // what main.go registers
					atomic.AddInt32(&ran[i], 1)
					proxy.Shutdown(wait)
				})
			} else {
				exit.Listen(func(os.Signal) { // what another component (bgp) registers
					atomic.AddInt32(&ran[i], 1)
				})
			}
		}
		time.Sleep(30 * time.Millisecond) // the handlers' goroutines are waiting for a signal now
		// a request in flight when the signal arrives
		go func() {
			defer close(served)
			c := &http.Client{Timeout: 10 * time.Second}
			resp, err := c.Get("http://" + addr + "/")
			if err == nil {
				resp.Body.Close()
			}
		}()
		time.Sleep(20 * time.Millisecond)
		pid := os.Getpid()
		if hupFirst {
			syscall.Kill(pid, syscall.SIGHUP) // ignored
			time.Sleep(20 * time.Millisecond)
		}
		start := time.Now()
		syscall.Kill(pid, sig)
		done := make(chan struct{})
		go func() { exit.Wait(); close(done) }()
		select {
		case <-done:
		case <-time.After(wait + 3*time.Second):
			var counts []int32
			for i := range ran {
				counts = append(counts, atomic.LoadInt32(&ran[i]))
			}
			// let the process get out of this state before the next case
			exitAll()
			t.Fatalf("%v with %d exit handlers registered (the drain is number %d): %v later exit.Wait has not returned; handlers ran %v times; wait is %v", sig, n, drainAt, time.Since(start).Round(time.Millisecond), counts, wait)
		}
		hx.Eval()
		for i := range ran {
			if c := atomic.LoadInt32(&ran[i]); c != 1 {
				t.Fatalf("%v with %d exit handlers registered: handler %d ran %d times (drain handler is number %d)", sig, n, i, c, drainAt)
			}
		}
		if took := time.Since(start); took > wait+2*time.Second {
			t.Fatalf("the drain took %v, the wait is %v", took, wait)
		}
		if c, err := net.DialTimeout("tcp", addr, 200*time.Millisecond); err == nil {
			c.Close()
			t.Fatalf("%v was handled by all %d handlers, but the listener still accepts connections", sig, n)
		}
		<-served
		hx.Class(fmt.Sprintf("exit-handlers:%d", n))
		if n > 1 {
			hx.NonTrivial(fmt.Sprintf("exit|%d|%d|%v|%v", n, drainAt, sig, hupFirst))
		}
	})
}

// exitAll releases handlers that are still waiting (only used on the failure path).
func exitAll() {
	defer func() { recover() }()
	syscall.Kill(os.Getpid(), syscall.SIGTERM)
	time.Sleep(50 * time.Millisecond)
}
