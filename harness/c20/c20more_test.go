package c20

import (
	"bufio"
	"bytes"
	"crypto/tls"
	"fmt"
	"net"
	"net/http"
	"net/http/httptest"
	"net/url"
	"strings"
	"testing"
	"time"

	"github.com/fabiolb/fabio/logger"
	"github.com/fabiolb/fabio/proxy"
	"github.com/fabiolb/fabio/route"
	"pgregory.net/rapid"

	"verifharness/hx"
	"verifharness/wire"
)

// $request_url, $request_scheme and $request_uri describe the request the client made, also
// when the route replaces the Host header (host=dst / host=<name>) and when the proxy adds the
// forwarding headers it derives the scheme from.
func TestC20RequestURLFields(t *testing.T) {
	hx.Check(t, hx.Scale(1500, 40000), func(t *rapid.T) {
		w := &countingWriter{}
		format := rapid.SampledFrom([]string{
			"$request_url", "$request_scheme $request_url", "$request_url|$request_uri|$request_scheme",
			"$request_scheme", "$request_url $response_status",
		}).Draw(t, "format")
		l, err := logger.New(w, format)
		if err != nil {
			t.Fatalf("format %q rejected: %v", format, err)
		}
		hostOpt := rapid.SampledFrom([]string{"", "dst", "backend.internal", "dst", "other.example:8443"}).Draw(t, "route-host-option")
		upstream := rapid.SampledFrom([]string{"10.0.0.7:8080", "backend", "[::1]:81"}).Draw(t, "upstream")
		clientHost := rapid.SampledFrom([]string{"example.com", "www.example.com:8080", "EXAMPLE.com", "[::1]:9999"}).Draw(t, "client-host")
		path := rapid.SampledFrom([]string{"/", "/foo", "/foo/bar", "/a.b/c-d"}).Draw(t, "path")
		query := rapid.SampledFrom([]string{"", "x=1", "a=b&c=d"}).Draw(t, "query")
		onTLS := rapid.Bool().Draw(t, "tls")
		fwd := rapid.SampledFrom([]string{"none", "none", "xfp-https", "xfp-http", "forwarded-https", "forwarded-http", "both"}).Draw(t, "client-forwarding-headers")
		p := &proxy.HTTPProxy{
			Stats:     wire.Stats(),
			Transport: cannedRT{200, "hello"},
			Lookup: func(r *http.Request) *route.Target {
				return &route.Target{Service: "svc", Host: hostOpt, URL: &url.URL{Scheme: "http", Host: upstream, Path: "/"}}
			},
			Logger: l,
		}
		uri := path
		if query != "" {
			uri += "?" + query
		}
		req := httptest.NewRequest("GET", uri, nil)
		req.Host = clientHost
		req.RemoteAddr = "192.0.2.1:4711"
		if onTLS {
			req.TLS = &tls.ConnectionState{Version: tls.VersionTLS13, HandshakeComplete: true}
		}
		wantScheme := "http"
		if onTLS {
			wantScheme = "https"
		}
		switch fwd {
		case "xfp-https":
			req.Header.Set("X-Forwarded-Proto", "https")
			wantScheme = "https"
		case "xfp-http":
			req.Header.Set("X-Forwarded-Proto", "http")
			wantScheme = "http"
		case "forwarded-https":
			req.Header.Set("Forwarded", "for=1.2.3.4; proto=https")
			wantScheme = "https"
		case "forwarded-http":
			req.Header.Set("Forwarded", "for=1.2.3.4; proto=http; by=5.6.7.8")
			wantScheme = "http"
		case "both":
			req.Header.Set("X-Forwarded-Proto", "https")
			req.Header.Set("Forwarded", "for=1.2.3.4; proto=https")
			// with both present the connection decides
		}
		rec := httptest.NewRecorder()
		p.ServeHTTP(rec, req)
		hx.Eval()
		if rec.Code != 200 || rec.Body.String() != "hello" {
			t.Fatalf("response altered: %d %q", rec.Code, rec.Body.String())
		}
		line := strings.Join(func() []string {
			var s []string
			for _, b := range w.writes {
				s = append(s, string(b))
			}
			return s
		}(), "")
		wantURL := (&url.URL{Scheme: wantScheme, Host: clientHost, Path: path, RawQuery: query}).String()
		want := format
		want = strings.ReplaceAll(want, "$request_url", wantURL)
		want = strings.ReplaceAll(want, "$request_uri", uri)
		want = strings.ReplaceAll(want, "$request_scheme", wantScheme)
		want = strings.ReplaceAll(want, "$response_status", "200")
		want += "\n"
		if line != want {
			t.Fatalf("access log line %q, want %q (format %q, client asked for host %q over tls=%v with forwarding headers %q, route option host=%q, upstream %s)",
				line, want, format, clientHost, onTLS, fwd, hostOpt, upstream)
		}
		if hostOpt != "" {
			hx.Class("request-url-on-a-route-that-replaces-the-host")
		}
		if fwd != "none" {
			hx.Class("request-scheme-from-the-client's-forwarding-header")
		}
		if hostOpt != "" || (fwd != "none" && fwd != "both") {
			hx.NonTrivial(fmt.Sprintf("requrl|%s|%s|%s|%v|%s|%s", format, hostOpt, clientHost, onTLS, fwd, uri))
		}
	})
}

// A websocket upgrade that fails (upstream refuses the connection, closes it before answering,
// or stays silent) is a completed request: exactly one line is written for it. (Nothing is said
// here about the status in that line.)
func TestC20FailedUpgradeIsLogged(t *testing.T) {
	var target atomicURL
	lw := &lockedWriter{}
	l, err := logger.New(lw, "$request_uri $upstream_service")
	if err != nil {
		t.Fatal(err)
	}
	front := httptest.NewServer(&proxy.HTTPProxy{
		Stats:     wire.Stats(),
		Transport: &http.Transport{},
		Lookup:    func(*http.Request) *route.Target { return &route.Target{Service: "svc", URL: target.get()} },
		Logger:    l,
	})
	defer front.Close()
	n := 0
	hx.Check(t, hx.Scale(40, 600), func(t *rapid.T) {
		n++
		kind := rapid.SampledFrom([]string{"refused", "closes-at-once", "closes-after-request"}).Draw(t, "upstream-failure")
		var ln net.Listener
		switch kind {
		case "refused":
			target.set(&url.URL{Scheme: "http", Host: hx.FreeAddr()}) // nothing listens there
		default:
			l0, err := hx.Listen("tcp", "127.0.0.1:0")
			if err != nil {
				t.Fatalf("VERIF-INCONCLUSIVE %v", err)
			}
			ln = l0
			go func() {
				for {
					c, err := l0.Accept()
					if err != nil {
						return
					}
					if kind == "closes-after-request" {
						c.SetReadDeadline(time.Now().Add(2 * time.Second))
						http.ReadRequest(bufio.NewReader(c))
					}
					c.Close()
				}
			}()
			target.set(&url.URL{Scheme: "http", Host: l0.Addr().String()})
		}
		lw.reset()
		path := fmt.Sprintf("/chat%d", n)
		c, err := net.DialTimeout("tcp", strings.TrimPrefix(front.URL, "http://"), 2*time.Second)
		if err != nil {
			t.Fatalf("VERIF-INCONCLUSIVE %v", err)
		}
		fmt.Fprintf(c, "GET %s HTTP/1.1\r\nHost: example.com\r\nUpgrade: websocket\r\nConnection: Upgrade\r\nSec-WebSocket-Key: dGhlIHNhbXBsZSBub25jZQ==\r\nSec-WebSocket-Version: 13\r\n\r\n", path)
		c.SetReadDeadline(time.Now().Add(5 * time.Second))
		buf := make([]byte, 4096)
		for {
			if _, err := c.Read(buf); err != nil {
				break
			}
		}
		c.Close()
		if ln != nil {
			ln.Close()
		}
		hx.Eval()
		want := path + " svc\n"
		var got string
		for i := 0; i < 2000; i++ {
			if got = lw.String(); got != "" {
				break
			}
			time.Sleep(time.Millisecond)
		}
		time.Sleep(2 * time.Millisecond)
		got = lw.String()
		if got != want {
			t.Fatalf("websocket upgrade whose upstream %s: access log has %q, want exactly the line %q", kind, got, want)
		}
		hx.Class("failed-websocket-upgrade:" + kind)
		hx.NonTrivial(fmt.Sprintf("wsfail|%s|%d", kind, n%8))
	})
}

type atomicURL struct {
	mu lockedWriter
	u  *url.URL
}

func (a *atomicURL) set(u *url.URL) { a.mu.mu.Lock(); a.u = u; a.mu.mu.Unlock() }
func (a *atomicURL) get() *url.URL  { a.mu.mu.Lock(); defer a.mu.mu.Unlock(); return a.u }

// The line describes the request the client made also when the lookup had to pass over a
// redirect route first (a route that would have redirected the request to itself is skipped):
// host and port as the client wrote them.
func TestC20LogAfterSkippedRedirect(t *testing.T) {
	hx.Check(t, hx.Scale(600, 10000), func(t *rapid.T) {
		w := &countingWriter{}
		format := rapid.SampledFrom([]string{"$request_host", "$request_url", "$request_host|$request_url|$request_uri", "$header.Host $request_host"}).Draw(t, "format")
		l, err := logger.New(w, format)
		if err != nil {
			t.Fatalf("format %q rejected: %v", format, err)
		}
		clientHost := rapid.SampledFrom([]string{"example.com:80", "example.com", "EXAMPLE.com:80", "example.com:443", "example.com:8080"}).Draw(t, "client-host")
		text := "route add redir example.com/ https://example.com$path opts \"redirect=301\"\nroute add redir8080 example.com:8080/ https://example.com$path opts \"redirect=301\"\nroute add svc / http://10.0.0.7:8080/\n"
		tbl, err := route.NewTable(bytes.NewBufferString(text))
		if err != nil {
			t.Fatal(err)
		}
		cache := route.NewGlobCache(10)
		p := &proxy.HTTPProxy{
			Stats:     wire.Stats(),
			Transport: cannedRT{200, "hello"},
			Lookup: func(r *http.Request) *route.Target {
				return tbl.Lookup(r, "", route.Picker["rr"], route.Matcher["prefix"], cache, false)
			},
			Logger: l,
		}
		path := rapid.SampledFrom([]string{"/", "/a/b"}).Draw(t, "path")
		req := httptest.NewRequest("GET", path, nil)
		req.Host = clientHost
		req.RemoteAddr = "192.0.2.1:4711"
		req.Header.Set("X-Forwarded-Proto", "https") // TLS was terminated in front of fabio: the redirect to https is done
		rec := httptest.NewRecorder()
		p.ServeHTTP(rec, req)
		hx.Eval()
		if rec.Code != 200 {
			hx.Class("skipped-redirect:not-skipped")
			return // redirected after all (another host:port form): nothing to compare here
		}
		line := ""
		for _, b := range w.writes {
			line += string(b)
		}
		want := format
		want = strings.ReplaceAll(want, "$request_url", (&url.URL{Scheme: "https", Host: clientHost, Path: path}).String())
		want = strings.ReplaceAll(want, "$request_uri", path)
		want = strings.ReplaceAll(want, "$request_host", clientHost)
		want = strings.ReplaceAll(want, "$header.Host", "")
		want += "\n"
		if line != want {
			t.Fatalf("access log line %q, want %q (format %q; the client asked for host %q; the lookup passed over a redirect route that would have sent the request to itself)", line, want, format, clientHost)
		}
		hx.Class("log-line-after-a-skipped-redirect")
		hx.NonTrivial(fmt.Sprintf("skipped|%s|%s|%s", format, clientHost, path))
	})
}
