package c20

import (
	"fmt"
	"io"
	"net/http"
	"net/http/httptest"
	"net/url"
	"strings"
	"testing"

	"github.com/fabiolb/fabio/logger"
	"github.com/fabiolb/fabio/proxy"
	"github.com/fabiolb/fabio/route"
	"pgregory.net/rapid"

	"verifharness/hx"
	"verifharness/wire"
)

// a client connection that takes only so many body bytes and then fails (the client went away
// in the middle of the response)
type limitedWriter struct {
	hdr      http.Header
	status   int
	left     int
	accepted int
}

func (w *limitedWriter) Header() http.Header { return w.hdr }
func (w *limitedWriter) WriteHeader(c int) {
	if w.status == 0 {
		w.status = c
	}
}
func (w *limitedWriter) Write(p []byte) (int, error) {
	if w.status == 0 {
		w.status = 200
	}
	if len(p) <= w.left {
		w.left -= len(p)
		w.accepted += len(p)
		return len(p), nil
	}
	n := w.left
	w.left = 0
	w.accepted += n
	return n, io.ErrClosedPipe
}

// $response_body_size is a number of the completed request: the body bytes that went to the
// client. When the client goes away in the middle of the body that is less than the upstream
// sent; the line (exactly one) carries the number of bytes the client connection took.
func TestC20BodySizeWhenTheClientGoesAway(t *testing.T) {
	hx.Check(t, hx.Scale(600, 10000), func(t *rapid.T) {
		w := &countingWriter{}
		l, err := logger.New(w, "$response_status $response_body_size $request_uri")
		if err != nil {
			t.Fatal(err)
		}
		size := rapid.SampledFrom([]int{0, 1, 100, 4096, 32 * 1024, 32*1024 + 1, 100000, 300000}).Draw(t, "upstream-body-bytes")
		body := strings.Repeat("x", size)
		takes := size
		if rapid.IntRange(0, 3).Draw(t, "client-goes-away") != 0 && size > 0 {
			takes = rapid.IntRange(0, size-1).Draw(t, "client-takes")
		}
		p := &proxy.HTTPProxy{
			Stats:     wire.Stats(),
			Transport: cannedRT{200, body},
			Lookup: func(r *http.Request) *route.Target {
				return &route.Target{Service: "svc", URL: &url.URL{Scheme: "http", Host: "10.0.0.7:8080", Path: "/"}}
			},
			Logger: l,
		}
		req := httptest.NewRequest("GET", "/download", nil)
		req.Host = "example.com"
		req.RemoteAddr = "192.0.2.1:4711"
		rw := &limitedWriter{hdr: http.Header{}, left: takes}
		p.ServeHTTP(rw, req)
		hx.Eval()
		if len(w.writes) != 1 {
			t.Fatalf("%d access log lines for one request (upstream sent %d body bytes, the client took %d)", len(w.writes), size, takes)
		}
		want := fmt.Sprintf("200 %d /download\n", rw.accepted)
		if got := string(w.writes[0]); got != want {
			t.Fatalf("access log line %q, want %q: the upstream sent %d body bytes, the client connection took %d and then failed", got, want, size, rw.accepted)
		}
		if takes < size {
			hx.Class("client-went-away-in-the-middle-of-the-body")
			hx.NonTrivial(fmt.Sprintf("short|%d|%d", size, takes))
		} else {
			hx.Class("client-took-the-whole-body")
		}
	})
}
