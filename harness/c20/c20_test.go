package c20

import (
	"bytes"
	"context"
	"errors"
	"fmt"
	"io"
	"math"
	"net"
	"net/http"
	"net/http/httptest"
	"net/url"
	"os"
	"runtime"
	"sort"
	"strconv"
	"strings"
	"sync"
	"testing"
	"time"

	"github.com/fabiolb/fabio/config"
	"github.com/fabiolb/fabio/logger"
	"github.com/fabiolb/fabio/proxy"
	"github.com/fabiolb/fabio/route"
	"github.com/fabiolb/fabio/uuid"
	"pgregory.net/rapid"

	"verifharness/hx"
	"verifharness/wire"
)

func TestMain(m *testing.M) { wire.Init(true); hx.Main(m) }

// ---------------------------------------------------------------------------
// reference renderer, written from the field documentation in logger.go and
// the property statement ("what the standard library would render for the
// same request, time (in UTC) and numbers").

type kind int

const (
	kText kind = iota
	kTime
	kNumber
	kAddr
	kOther
)

type item struct {
	src  string // text of the item in the format string
	kind kind
}

// splitHP is the tolerant reference for host/port fields: addresses with a
// port are split by net.SplitHostPort; an address without a port is its own
// host and has an empty port. stripBr controls whether IPv6 brackets are kept
// (the field documentation does not say, both renderings are accepted as
// long as one line uses one convention).
func splitHP(addr string, stripBr bool) (string, string) {
	if addr == "" {
		return "", ""
	}
	h, p, err := net.SplitHostPort(addr)
	if err != nil {
		return addr, ""
	}
	if !stripBr && strings.Contains(h, ":") {
		h = "[" + h + "]"
	}
	return h, p
}

func frac(d int64, unit int64, width int) string {
	return fmt.Sprintf("%d.%0*d", d/int64(time.Second), width, d%int64(time.Second)/unit)
}

func renderField(name string, e *logger.Event, stripBr bool) string {
	utc := e.End.UTC()
	switch name {
	case "$remote_addr":
		return e.Request.RemoteAddr
	case "$remote_host":
		h, _ := splitHP(e.Request.RemoteAddr, stripBr)
		return h
	case "$remote_port":
		_, p := splitHP(e.Request.RemoteAddr, stripBr)
		return p
	case "$request":
		return e.Request.Method + " " + e.Request.RequestURI + " " + e.Request.Proto
	case "$request_args":
		return e.RequestURL.RawQuery
	case "$request_host":
		return e.Request.Host
	case "$request_method":
		return e.Request.Method
	case "$request_scheme":
		return e.RequestURL.Scheme
	case "$request_uri":
		return e.Request.RequestURI
	case "$request_url":
		return e.RequestURL.String()
	case "$request_proto":
		return e.Request.Proto
	case "$response_body_size":
		return strconv.FormatInt(e.Response.ContentLength, 10)
	case "$response_status":
		return strconv.Itoa(e.Response.StatusCode)
	case "$response_time_ms":
		return frac(e.End.Sub(e.Start).Nanoseconds(), int64(time.Millisecond), 3)
	case "$response_time_us":
		return frac(e.End.Sub(e.Start).Nanoseconds(), int64(time.Microsecond), 6)
	case "$response_time_ns":
		return frac(e.End.Sub(e.Start).Nanoseconds(), 1, 9)
	case "$time_unix_ms":
		return strconv.FormatInt(e.End.UnixNano()/1e6, 10)
	case "$time_unix_us":
		return strconv.FormatInt(e.End.UnixNano()/1e3, 10)
	case "$time_unix_ns":
		return strconv.FormatInt(e.End.UnixNano(), 10)
	case "$time_common":
		return utc.Format("02/Jan/2006:15:04:05 +0000")
	case "$time_rfc3339":
		return utc.Format("2006-01-02T15:04:05Z")
	case "$time_rfc3339_ms":
		return utc.Format("2006-01-02T15:04:05.000Z")
	case "$time_rfc3339_us":
		return utc.Format("2006-01-02T15:04:05.000000Z")
	case "$time_rfc3339_ns":
		return utc.Format("2006-01-02T15:04:05.000000000Z")
	case "$upstream_addr":
		return e.UpstreamAddr
	case "$upstream_host":
		h, _ := splitHP(e.UpstreamAddr, stripBr)
		return h
	case "$upstream_port":
		_, p := splitHP(e.UpstreamAddr, stripBr)
		return p
	case "$upstream_request_scheme":
		return e.UpstreamURL.Scheme
	case "$upstream_request_uri":
		return e.UpstreamURL.RequestURI()
	case "$upstream_request_url":
		return e.UpstreamURL.String()
	case "$upstream_service":
		return e.UpstreamService
	}
	if strings.HasPrefix(name, "$header.") {
		return e.Request.Header.Get(name[len("$header."):])
	}
	panic("reference renderer: unknown field " + name)
}

func fieldKind(name string) kind {
	switch {
	case strings.HasPrefix(name, "$time_"):
		return kTime
	case strings.HasPrefix(name, "$response_"):
		return kNumber
	case strings.HasSuffix(name, "_addr") || strings.HasSuffix(name, "_host") || strings.HasSuffix(name, "_port"):
		return kAddr
	}
	return kOther
}

func render(items []item, e *logger.Event, stripBr bool) string {
	var b strings.Builder
	for _, it := range items {
		if it.kind == kText {
			b.WriteString(it.src)
		} else {
			b.WriteString(renderField(it.src, e, stripBr))
		}
	}
	b.WriteString("\n")
	return b.String()
}

// ---------------------------------------------------------------------------
// generators

var headerNames = []string{"User-Agent", "Referer", "X-Forwarded-For", "x-request-id", "ACCEPT", "X_Odd-9"}

func genFormat(t *rapid.T) []item {
	n := rapid.IntRange(1, 10).Draw(t, "nitems")
	var items []item
	haveText := false
	for i := 0; i < n; i++ {
		switch rapid.IntRange(0, 9).Draw(t, "itemkind") {
		case 0, 1: // literal text; starts with a non-identifier character
			first := rapid.SampledFrom([]string{" ", "\"", "[", "]", "|", ":", "/", ",", ";", "=", "(", ")", " - - "}).Draw(t, "lit0")
			rest := rapid.StringMatching(`[ a-zA-Z0-9\[\]":/|,;=_-]{0,6}`).Draw(t, "lit")
			items = append(items, item{src: first + rest, kind: kText})
			haveText = true
		case 2:
			h := rapid.SampledFrom(headerNames).Draw(t, "hdr")
			items = append(items, item{src: "$header." + h, kind: kOther})
		default:
			f := rapid.SampledFrom(logger.Fields).Draw(t, "field")
			items = append(items, item{src: f, kind: fieldKind(f)})
		}
	}
	if !haveText { // every shipped format has literal text; keeps the line non-empty
		items = append(items, item{src: " .", kind: kText})
	}
	// merge adjacent text items (the lexer produces one item for them) and
	// make sure a field is not directly followed by text that would extend
	// its name: our text always starts with a non-identifier, non-dot rune.
	return items
}

func formatString(items []item) string {
	var b strings.Builder
	for _, it := range items {
		b.WriteString(it.src)
	}
	return b.String()
}

func genHostPort(t *rapid.T, label string, allowNoPort bool) string {
	host := rapid.SampledFrom([]string{"1.2.3.4", "10.0.0.1", "255.255.255.255", "backend", "svc-1.example.com", "::1", "2001:db8::a:1", "fe80::1"}).Draw(t, label+"host")
	port := rapid.IntRange(1, 65535).Draw(t, label+"port")
	mode := 0
	if allowNoPort {
		mode = rapid.IntRange(0, 3).Draw(t, label+"mode")
	}
	v6 := strings.Contains(host, ":")
	switch mode {
	case 1: // no port
		if v6 {
			return "[" + host + "]"
		}
		return host
	case 2: // empty
		return ""
	}
	return net.JoinHostPort(host, strconv.Itoa(port))
}

func genEvent(t *rapid.T) *logger.Event {
	// End in [1970, 2262): UnixNano is defined on that range
	sec := rapid.Int64Range(0, 9214646400).Draw(t, "endsec")
	if rapid.IntRange(0, 9).Draw(t, "edge") == 0 {
		// calendar corner cases: leap days, year ends, month ends
		sec = rapid.SampledFrom([]int64{0, 951782400, 951868799, 1078099199, 1230767999, 1230768000, 4107542399, 4102444800, 68255999, 1709251199, 2147483647, 2147483648, 9214646399}).Draw(t, "edgesec")
	}
	nsec := rapid.Int64Range(0, 999999999).Draw(t, "endnsec")
	if rapid.IntRange(0, 4).Draw(t, "nsedge") == 0 {
		nsec = rapid.SampledFrom([]int64{0, 1, 999, 1000, 999999, 1000000, 999999999, 1000001, 500000000}).Draw(t, "nsv")
	}
	off := rapid.SampledFrom([]int{0, 0, 3600, -3600, 19800, -28800, 45900, 50400, -43200}).Draw(t, "zone")
	loc := time.UTC
	if off != 0 {
		loc = time.FixedZone("gen", off)
	}
	end := time.Unix(sec, nsec).In(loc)
	var d int64
	switch rapid.IntRange(0, 3).Draw(t, "durkind") {
	case 0:
		d = rapid.Int64Range(0, 5_000_000).Draw(t, "dur_small")
	case 1:
		d = rapid.Int64Range(0, 1_000_000_000_000_000).Draw(t, "dur_big") // up to 10^6 s
	case 2:
		d = rapid.SampledFrom([]int64{0, 1, 999, 1000, 999999, 1000000, 999999999, 1000000000, 1000000001, 59999999999, 1001001001}).Draw(t, "dur_edge")
	default:
		d = rapid.Int64Range(0, 120_000_000_000).Draw(t, "dur_mid")
	}
	start := end.Add(-time.Duration(d))

	method := rapid.SampledFrom([]string{"GET", "POST", "PUT", "DELETE", "HEAD", "PATCH", "OPTIONS", "PURGE"}).Draw(t, "method")
	path := rapid.SampledFrom([]string{"/", "/foo", "/a/b/c", "/a%2Fb", "/ü", "/x y", "/a/../b", "//dbl"}).Draw(t, "path")
	query := rapid.SampledFrom([]string{"", "a=1", "a=1&b=2", "x=%20y", "q", "a=b=c"}).Draw(t, "query")
	if rapid.IntRange(0, 11).Draw(t, "long-query") == 0 {
		query = "SAMLRequest=" + strings.Repeat("fZJNb9swDIb", rapid.SampledFrom([]int{380, 600, 2000}).Draw(t, "querylen"))
	}
	host := rapid.SampledFrom([]string{"example.com", "example.com:8080", "EXAMPLE.com", "[::1]:9999", "foo", ""}).Draw(t, "reqhost")
	uri := (&url.URL{Path: path, RawQuery: query}).RequestURI()
	proto := rapid.SampledFrom([]string{"HTTP/1.1", "HTTP/1.0", "HTTP/2.0"}).Draw(t, "proto")
	hdr := http.Header{}
	for _, h := range headerNames {
		if rapid.Bool().Draw(t, "hashdr") {
			v := rapid.StringMatching(`[ -~]{0,24}`).Draw(t, "hdrval")
			hdr.Set(h, v)
			// a header may come on several lines (the field is its first value, as Header.Get gives it)
			if rapid.IntRange(0, 5).Draw(t, "second-line") == 0 {
				hdr.Add(h, rapid.StringMatching(`[ -~]{0,24}`).Draw(t, "hdrval2"))
			}
			// ... and may be long (a SAML redirect in the Referer, a fat cookie)
			if rapid.IntRange(0, 11).Draw(t, "long-value") == 0 {
				hdr.Set(h, strings.Repeat("long-header-value/", rapid.SampledFrom([]int{230, 400, 1200}).Draw(t, "longlen")))
			}
		}
	}
	scheme := rapid.SampledFrom([]string{"http", "https", "ws", "wss"}).Draw(t, "scheme")
	req := &http.Request{
		Method:     method,
		RequestURI: uri,
		Proto:      proto,
		Host:       host,
		Header:     hdr,
		RemoteAddr: genHostPort(t, "remote", false),
		URL:        &url.URL{Path: path, RawQuery: query},
	}
	var size int64
	switch rapid.IntRange(0, 2).Draw(t, "sizekind") {
	case 0:
		size = rapid.Int64Range(0, 100000).Draw(t, "size")
	case 1:
		size = rapid.Int64Range(0, 1<<62).Draw(t, "sizebig")
	default:
		size = rapid.SampledFrom([]int64{0, 9, 10, 99, 100, 1<<31 - 1, 1 << 31, 1<<32 - 1, 1 << 32, 1<<63 - 1, 999999999999999999, 1000000000000000000}).Draw(t, "sizeedge")
	}
	upAddr := genHostPort(t, "up", true)
	upPath := rapid.SampledFrom([]string{"/", "/up", "/a%2Fb", ""}).Draw(t, "uppath")
	up := &url.URL{Scheme: rapid.SampledFrom([]string{"http", "https"}).Draw(t, "upscheme"), Host: upAddr, Path: upPath, RawQuery: query}
	return &logger.Event{
		Start:   start,
		End:     end,
		Request: req,
		Response: &http.Response{
			StatusCode:    rapid.IntRange(100, 999).Draw(t, "status"),
			ContentLength: size,
		},
		RequestURL:      &url.URL{Scheme: scheme, Host: host, Path: path, RawQuery: query},
		UpstreamAddr:    upAddr,
		UpstreamService: rapid.SampledFrom([]string{"svc", "svc-a", "сервис", ""}).Draw(t, "svc"),
		UpstreamURL:     up,
	}
}

type countingWriter struct {
	writes [][]byte
}

func (w *countingWriter) Write(p []byte) (int, error) {
	w.writes = append(w.writes, append([]byte(nil), p...))
	return len(p), nil
}

func describeEvent(e *logger.Event) map[string]any {
	return map[string]any{
		"end": e.End.Format(time.RFC3339Nano), "dur_ns": e.End.Sub(e.Start).Nanoseconds(),
		"remote": e.Request.RemoteAddr, "upstream": e.UpstreamAddr, "status": e.Response.StatusCode,
		"size": e.Response.ContentLength, "uri": e.Request.RequestURI, "host": e.Request.Host,
	}
}

// ---------------------------------------------------------------------------
// properties

func logOnce(t *rapid.T, format string, e *logger.Event) (w *countingWriter, panicked any) {
	w = &countingWriter{}
	l, err := logger.New(w, format)
	if err != nil {
		t.Fatalf("valid format %q rejected: %v", format, err)
	}
	func() {
		defer func() { panicked = recover() }()
		l.Log(e)
	}()
	return w, panicked
}

func TestC20LogLine(t *testing.T) {
	hx.Check(t, hx.Scale(80000, 1000000), func(t *rapid.T) {
		var items []item
		switch rapid.IntRange(0, 9).Draw(t, "fmtkind") {
		case 0:
			items = nil
		default:
			items = genFormat(t)
		}
		format := formatString(items)
		named := ""
		if items == nil {
			named = rapid.SampledFrom([]string{"common", "combined"}).Draw(t, "named")
			if named == "common" {
				format = logger.CommonFormat
			} else {
				format = logger.CombinedFormat
			}
			items = lexRef(format)
		}
		e := genEvent(t)
		hx.Eval()
		noPort := e.UpstreamAddr != "" && func() bool { _, _, err := net.SplitHostPort(e.UpstreamAddr); return err != nil }()
		if noPort {
			hx.Class("upstream_addr_without_port")
		}
		if _, off := e.End.Zone(); off != 0 {
			hx.Class("end_in_non_utc_zone")
		}
		w, p := logOnce(t, format, e)
		if p != nil {
			t.Fatalf("Log panicked: %v\nformat=%q event=%v", p, format, describeEvent(e))
		}
		got := string(bytes.Join(w.writes, nil))
		if strings.Count(got, "\n") != 1 || !strings.HasSuffix(got, "\n") {
			t.Fatalf("want exactly one line per Log call, got %q in %d writes (format %q)", got, len(w.writes), format)
		}
		wantA, wantB := render(items, e, false), render(items, e, true)
		if got != wantA && got != wantB {
			t.Fatalf("log line differs from the standard-library rendering\nformat: %q\n got: %q\nwant: %q\n  or: %q\nevent: %v", format, got, wantA, wantB, describeEvent(e))
		}
		// classification
		kinds := map[kind]bool{}
		nf := 0
		for _, it := range items {
			if it.kind != kText {
				nf++
				kinds[it.kind] = true
			}
		}
		delete(kinds, kOther)
		if nf >= 3 && len(kinds) >= 2 {
			hx.NonTrivial(format + "|" + fmt.Sprint(describeEvent(e)))
			hx.Class("nontrivial_format")
		}
		if named != "" {
			hx.Class("named_format_" + named)
		}
		if hx.WantSample("logline") && nf >= 3 {
			hx.Sample("logline", map[string]any{"format": format, "event": describeEvent(e), "line": got})
		}
	})
}

// lexRef splits one of the two shipped formats into items (fields are
// delimited by non-identifier characters there).
func lexRef(format string) []item {
	var items []item
	i := 0
	for i < len(format) {
		if format[i] == '$' {
			j := i + 1
			for j < len(format) && (format[j] == '_' || format[j] == '-' || format[j] == '.' ||
				format[j] >= 'a' && format[j] <= 'z' || format[j] >= 'A' && format[j] <= 'Z' || format[j] >= '0' && format[j] <= '9') {
				j++
			}
			items = append(items, item{src: format[i:j], kind: fieldKind(format[i:j])})
			i = j
			continue
		}
		j := i
		for j < len(format) && format[j] != '$' {
			j++
		}
		items = append(items, item{src: format[i:j], kind: kText})
		i = j
	}
	return items
}

// Every single documented field, on its own, for every event: this makes sure
// no field is only ever sampled rarely by the sequence generator.
func TestC20EachField(t *testing.T) {
	all := append([]string{}, logger.Fields...)
	all = append(all, "$header.User-Agent", "$header.x-request-id")
	hx.Check(t, hx.Scale(3000, 100000), func(t *rapid.T) {
		e := genEvent(t)
		for _, f := range all {
			items := []item{{src: "<", kind: kText}, {src: f, kind: fieldKind(f)}, {src: ">", kind: kText}}
			w, p := logOnce(t, formatString(items), e)
			hx.Eval()
			if p != nil {
				t.Fatalf("field %s panicked: %v; event %v", f, p, describeEvent(e))
			}
			got := string(bytes.Join(w.writes, nil))
			if a, b := render(items, e, false), render(items, e, true); got != a && got != b {
				t.Fatalf("field %s: got %q (writes=%d) want %q or %q; event %v", f, got, len(w.writes), a, b, describeEvent(e))
			}
		}
		hx.Class("each_field_sweeps")
	})
}

// ---------------------------------------------------------------------------
// hand-optimised formatters versus the standard library

func TestC20Uint16Base16Exhaustive(t *testing.T) {
	for n := 0; n <= 0xffff; n++ {
		got, want := proxy.VerifUint16Base16(uint16(n)), fmt.Sprintf("0x%04x", n)
		if got != want {
			t.Fatalf("uint16base16(%d) = %q, want %q", n, got, want)
		}
	}
	hx.EvalN(65536)
	hx.ClassN("uint16_values_exhaustive", 65536)
	hx.Exhaustive(true)
	hx.NonTrivial("uint16:all")
}

var i32edges = []int32{0, 1, -1, 9, 10, -9, -10, 99, 100, 999, 1000, 99999, 100000, 999999999, 1000000000, 2147483647, -2147483648, -2147483647, 2147483646, 1 << 30, -(1 << 30), 86400, 31536000, 63072000}

func TestC20I32toa(t *testing.T) {
	for _, n := range i32edges {
		if got, want := proxy.VerifI32toa(n), strconv.Itoa(int(n)); got != want {
			t.Fatalf("i32toa(%d) = %q, want %q", n, got, want)
		}
		hx.Eval()
	}
	if hx.Thorough() {
		// all 2^32 values, split over the shards
		shards, shard := uint64(hx.Shards()), uint64(hx.Shard())
		var buf []byte
		cnt := 0
		for u := shard; u < 1<<32; u += shards {
			n := int32(uint32(u))
			buf = strconv.AppendInt(buf[:0], int64(n), 10)
			if got := proxy.VerifI32toa(n); got != string(buf) {
				t.Fatalf("i32toa(%d) = %q, want %q", n, got, buf)
			}
			cnt++
		}
		hx.EvalN(cnt)
		hx.ClassN("int32_values_swept", cnt)
		hx.Note("int32 formatter swept over all 2^32 values across the shards")
		return
	}
	hx.Check(t, hx.Scale(200000, 200000), func(t *rapid.T) {
		n := rapid.Int32().Draw(t, "n")
		hx.Eval()
		if got, want := proxy.VerifI32toa(n), strconv.Itoa(int(n)); got != want {
			t.Fatalf("i32toa(%d) = %q, want %q", n, got, want)
		}
		if n < 0 || n >= 10 {
			hx.NonTrivial("i32:" + strconv.Itoa(int(n)))
		}
	})
}

func TestC20UUIDToString(t *testing.T) {
	hx.Check(t, hx.Scale(50000, 1000000), func(t *rapid.T) {
		var u [24]byte
		bs := rapid.SliceOfN(rapid.Byte(), 24, 24).Draw(t, "u")
		copy(u[:], bs)
		hx.Eval()
		want := fmt.Sprintf("%x-%x-%x-%x-%x", u[0:4], u[4:6], u[6:8], u[8:10], u[10:16])
		if got := uuid.ToString(u); got != want {
			t.Fatalf("uuid.ToString(%x) = %q, want %q", u, got, want)
		}
		hx.NonTrivial("uuid:" + want)
	})
}

// STS max-age goes through i32toa on the request path; the values an
// operator can configure are ints.
func TestC20STSHeaderNumber(t *testing.T) {
	hx.Check(t, hx.Scale(2000, 50000), func(t *rapid.T) {
		age := int(rapid.Int32Range(1, 1<<31-1).Draw(t, "maxage"))
		if rapid.IntRange(0, 9).Draw(t, "beyond-int32") == 0 {
			// proxy.header.sts.maxage is an int option: larger values are accepted by the configuration
			age = rapid.SampledFrom([]int{1 << 31, 1<<31 + 5, 1<<32 - 1, 1 << 32, 1 << 40, math.MaxInt64}).Draw(t, "bigage")
			hx.Class("sts-maxage-beyond-int32")
		}
		p := newProxy(nil, "", config.Proxy{STSHeader: config.STSHeader{MaxAge: age}})
		rec := httptest.NewRecorder()
		req := httptest.NewRequest("GET", "https://example.com/", nil) // sets req.TLS
		req.RemoteAddr = "1.2.3.4:5555"
		p.ServeHTTP(rec, req)
		hx.Eval()
		want := "max-age=" + strconv.Itoa(age)
		if got := rec.Header().Get("Strict-Transport-Security"); got != want {
			t.Fatalf("STS header %q, want %q", got, want)
		}
	})
}

// ---------------------------------------------------------------------------
// integration: logging can never disturb a request

type cannedRT struct {
	status int
	body   string
}

func (c cannedRT) RoundTrip(r *http.Request) (*http.Response, error) {
	return &http.Response{
		StatusCode: c.status, Proto: "HTTP/1.1", ProtoMajor: 1, ProtoMinor: 1,
		Header:        http.Header{"Content-Type": {"text/plain"}, "X-Up": {"yes"}},
		Body:          ioNop(c.body),
		ContentLength: int64(len(c.body)),
		Request:       r,
	}, nil
}

type errRT struct{ err error }

func (e errRT) RoundTrip(*http.Request) (*http.Response, error) { return nil, e.err }

type nopBody struct{ *strings.Reader }

func (nopBody) Close() error { return nil }
func ioNop(s string) nopBody { return nopBody{strings.NewReader(s)} }

func newProxy(w *countingWriter, format string, cfg config.Proxy) *proxy.HTTPProxy {
	var l logger.Logger
	if w != nil {
		var err error
		l, err = logger.New(w, format)
		if err != nil {
			panic(err)
		}
	}
	return &proxy.HTTPProxy{
		Stats:     wire.Stats(),
		Config:    cfg,
		Transport: cannedRT{200, "hello"},
		Lookup: func(r *http.Request) *route.Target {
			return &route.Target{Service: "svc", URL: &url.URL{Scheme: "http", Host: "backend", Path: "/"}}
		},
		Logger: l,
	}
}

func TestC20ProxyLogging(t *testing.T) {
	hx.Check(t, hx.Scale(3000, 100000), func(t *rapid.T) {
		items := genFormat(t)
		format := formatString(items)
		upstream := rapid.SampledFrom([]string{"backend", "backend:8080", "[::1]", "[::1]:81", "h:1", "10.0.0.1", "a.b.c.example.com"}).Draw(t, "upstream")
		status := rapid.SampledFrom([]int{200, 201, 204, 301, 404, 500, 503}).Draw(t, "status")
		body := rapid.StringMatching(`[a-z]{0,40}`).Draw(t, "body")
		if status == 204 {
			body = ""
		}
		w := &countingWriter{}
		l, err := logger.New(w, format)
		if err != nil {
			t.Fatalf("format %q rejected: %v", format, err)
		}
		fixed := time.Unix(rapid.Int64Range(0, 4102444800).Draw(t, "now"), 0)
		zone := rapid.SampledFrom([]int{0, 3600, -18000, 34200}).Draw(t, "zone")
		if zone != 0 {
			fixed = fixed.In(time.FixedZone("z", zone))
		} else {
			fixed = fixed.UTC()
		}
		tick := 0
		// how the exchange with the upstream ends: an answer, or one of the failures the
		// proxy turns into a status of its own (incl. the client going away: 499)
		outcome := rapid.SampledFrom([]string{"answer", "answer", "answer", "client-gone", "upstream-eof", "upstream-timeout", "upstream-refused", "other-error"}).Draw(t, "outcome")
		var tr http.RoundTripper = cannedRT{status, body}
		switch outcome {
		case "client-gone":
			tr = errRT{context.Canceled}
		case "upstream-eof":
			tr = errRT{io.EOF}
		case "upstream-timeout":
			tr = errRT{&net.OpError{Op: "read", Net: "tcp", Err: os.ErrDeadlineExceeded}}
		case "upstream-refused":
			tr = errRT{&net.OpError{Op: "dial", Net: "tcp", Err: errors.New("connection refused")}}
		case "other-error":
			tr = errRT{errors.New("boom")}
		}
		p := &proxy.HTTPProxy{
			Stats:     wire.Stats(),
			Transport: tr,
			Lookup: func(r *http.Request) *route.Target {
				return &route.Target{Service: "svc", URL: &url.URL{Scheme: "http", Host: upstream, Path: "/"}}
			},
			Logger: l,
			Time: func() time.Time {
				tick++
				return fixed.Add(time.Duration(tick-1) * 1500 * time.Millisecond)
			},
		}
		path := rapid.SampledFrom([]string{"/", "/foo", "/foo?x=1", "/a%2Fb"}).Draw(t, "path")
		req := httptest.NewRequest("GET", "http://example.com"+path, nil)
		req.RemoteAddr = genHostPort(t, "remote", false)
		req.Header.Set("User-Agent", "ua/1")
		rec := httptest.NewRecorder()
		var panicked any
		func() {
			defer func() { panicked = recover() }()
			p.ServeHTTP(rec, req)
		}()
		hx.Eval()
		if panicked != nil {
			t.Fatalf("request handler panicked while logging: %v (format %q upstream %q)", panicked, format, upstream)
		}
		if outcome != "answer" {
			// the status the proxy chose is what the client saw and what the log line must say
			status, body = rec.Code, rec.Body.String()
			hx.Class("proxy-outcome:" + outcome)
		} else if rec.Code != status || rec.Body.String() != body || rec.Header().Get("X-Up") != "yes" {
			t.Fatalf("response altered: code %d body %q hdr %v; want %d %q", rec.Code, rec.Body.String(), rec.Header(), status, body)
		}
		line := string(bytes.Join(w.writes, nil))
		if !strings.HasSuffix(line, "\n") || strings.Count(line, "\n") != 1 {
			t.Fatalf("log output is not exactly one line: %q (exchange ended with: %s, status %d)", line, outcome, status)
		}
		// the event the proxy must have built, rendered by the reference
		q := ""
		pp := path
		if i := strings.Index(path, "?"); i >= 0 {
			pp, q = path[:i], path[i+1:]
		}
		upath, _ := url.PathUnescape(pp)
		ev := &logger.Event{
			Start: fixed, End: fixed.Add(1500 * time.Millisecond),
			Request:         &http.Request{Method: "GET", RequestURI: req.RequestURI, Proto: "HTTP/1.1", Host: "example.com", RemoteAddr: req.RemoteAddr, Header: req.Header},
			Response:        &http.Response{StatusCode: status, ContentLength: int64(len(body))},
			RequestURL:      &url.URL{Scheme: "http", Host: "example.com", Path: upath, RawQuery: q},
			UpstreamAddr:    upstream,
			UpstreamService: "svc",
			UpstreamURL:     &url.URL{Scheme: "http", Host: upstream, Path: upath, RawQuery: q},
		}
		// $upstream_request_* depend on the encoding decisions checked by C07; skip formats using them here
		for _, it := range items {
			if strings.HasPrefix(it.src, "$upstream_request_") || it.src == "$request_url" {
				return
			}
		}
		if a, b := render(items, ev, false), render(items, ev, true); line != a && line != b {
			t.Fatalf("proxy log line differs from reference\nformat %q\n got %q\nwant %q\n  or %q", format, line, a, b)
		}
		if _, _, err := net.SplitHostPort(upstream); err != nil {
			hx.Class("proxy_upstream_without_port")
			hx.NonTrivial("proxy|" + format + "|" + upstream)
		}
		if hx.WantSample("proxy") {
			hx.Sample("proxy", map[string]any{"format": format, "upstream": upstream, "line": line})
		}
	})
}

var _ = bytes.NewBuffer

// ---------------------------------------------------------------------------
// the status in the access log is the one the client received, also when the
// upstream sends informational responses first; real sockets on both sides.

func TestC20ProxyFinalStatus(t *testing.T) {
	type upSpec struct {
		early  []int
		status int
		body   string
	}
	var mu sync.Mutex
	var cur upSpec
	up := httptest.NewServer(http.HandlerFunc(func(w http.ResponseWriter, r *http.Request) {
		mu.Lock()
		s := cur
		mu.Unlock()
		for _, c := range s.early {
			w.Header().Set("Link", "</style.css>; rel=preload")
			w.WriteHeader(c)
		}
		w.WriteHeader(s.status)
		io.WriteString(w, s.body)
	}))
	defer up.Close()
	upURL, _ := url.Parse(up.URL)
	lw := &lockedWriter{}
	l, err := logger.New(lw, "$response_status $response_body_size $request_uri")
	if err != nil {
		t.Fatal(err)
	}
	front := httptest.NewServer(&proxy.HTTPProxy{
		Stats:     wire.Stats(),
		Transport: &http.Transport{},
		Lookup:    func(*http.Request) *route.Target { return &route.Target{Service: "svc", URL: upURL} },
		Logger:    l,
	})
	defer front.Close()
	n := 0
	hx.Check(t, hx.Scale(300, 10000), func(t *rapid.T) {
		n++
		s := upSpec{status: rapid.SampledFrom([]int{200, 201, 404, 500, 503}).Draw(t, "status"), body: rapid.StringMatching(`[a-z]{0,64}`).Draw(t, "body")}
		for i, k := 0, rapid.IntRange(0, 2).Draw(t, "nearly"); i < k; i++ {
			s.early = append(s.early, rapid.SampledFrom([]int{103, 102, 199}).Draw(t, "early"))
		}
		mu.Lock()
		cur = s
		mu.Unlock()
		lw.reset()
		path := fmt.Sprintf("/r%d", n)
		resp, err := http.Get(front.URL + path)
		if err != nil {
			t.Fatalf("request failed: %v", err)
		}
		body, _ := io.ReadAll(resp.Body)
		resp.Body.Close()
		hx.Eval()
		if resp.StatusCode != s.status || string(body) != s.body {
			t.Fatalf("client saw %d %q, upstream sent %d %q after informational %v", resp.StatusCode, body, s.status, s.body, s.early)
		}
		want := fmt.Sprintf("%d %d %s\n", s.status, len(s.body), path)
		var got string
		for i := 0; i < 400; i++ { // the line is written after the response has been sent
			if got = lw.String(); got != "" {
				break
			}
			time.Sleep(500 * time.Microsecond)
		}
		if got != want {
			t.Fatalf("access log line %q, the client received %q (upstream sent informational responses %v first)", got, want, s.early)
		}
		if len(s.early) > 0 {
			hx.NonTrivial(fmt.Sprintf("early|%v|%d|%d", s.early, s.status, len(s.body)))
			hx.Class("informational-before-final")
		}
	})
}

type lockedWriter struct {
	mu sync.Mutex
	b  bytes.Buffer
}

func (w *lockedWriter) Write(p []byte) (int, error) {
	w.mu.Lock()
	defer w.mu.Unlock()
	return w.b.Write(p)
}
func (w *lockedWriter) String() string { w.mu.Lock(); defer w.mu.Unlock(); return w.b.String() }
func (w *lockedWriter) reset()         { w.mu.Lock(); w.b.Reset(); w.mu.Unlock() }

// ---------------------------------------------------------------------------
// concurrent requests finishing at the same time: exactly one intact line each

type slowWriter struct {
	mu    sync.Mutex
	lines []string
	yield bool
}

func (w *slowWriter) Write(p []byte) (int, error) {
	// the logger serialises writers; take a copy the way a file or pipe would
	s := string(p)
	if w.yield {
		runtime.Gosched()
		time.Sleep(20 * time.Microsecond)
	}
	w.mu.Lock()
	w.lines = append(w.lines, s)
	w.mu.Unlock()
	return len(p), nil
}

func TestC20ConcurrentLogging(t *testing.T) {
	hx.Check(t, hx.Scale(20, 200), func(t *rapid.T) {
		items := genFormat(t)
		format := formatString(items)
		G := rapid.IntRange(2, 32).Draw(t, "goroutines")
		per := hx.Pick(150, 1500)
		w := &slowWriter{yield: rapid.Bool().Draw(t, "slowwriter")}
		l, err := logger.New(w, format+" #$header.X-Goroutine")
		if err != nil {
			t.Fatalf("format %q rejected: %v", format, err)
		}
		items = append(items, item{src: " #", kind: kText}, item{src: "$header.X-Goroutine", kind: kOther})
		events := make([]*logger.Event, G)
		want := map[string]int{}
		for g := range events {
			events[g] = genEvent(t)
			events[g].Request.Header.Set("X-Goroutine", fmt.Sprintf("g%02d", g))
		}
		var wg sync.WaitGroup
		start := make(chan struct{})
		for g := 0; g < G; g++ {
			wg.Add(1)
			go func(g int) {
				defer wg.Done()
				<-start
				for i := 0; i < per; i++ {
					l.Log(events[g])
				}
			}(g)
		}
		close(start)
		wg.Wait()
		hx.EvalN(G * per)
		accept := map[string]int{}
		for g := range events {
			accept[render(items, events[g], false)] = g
			accept[render(items, events[g], true)] = g
		}
		counts := make([]int, G)
		for _, line := range w.lines {
			g, ok := accept[line]
			if !ok {
				t.Fatalf("a log line written under concurrency is not the line of any request: %q\nformat %q, %d goroutines", line, format, G)
			}
			counts[g]++
		}
		_ = want
		for g, c := range counts {
			// two goroutines may by chance log identical lines only if their events render identically; the goroutine tag prevents that
			if c != per {
				t.Fatalf("goroutine %d logged %d events, %d intact lines of it were written (format %q, %d goroutines)", g, per, c, format, G)
			}
		}
		hx.NonTrivial(fmt.Sprintf("conc|%s|%d", format, G))
		hx.Class("concurrent-logging")
	})
}

// ---------------------------------------------------------------------------
// a fault of the log target (disk full, pipe closed) is the log's problem, not
// the requests': every request still completes unaltered, and once the target
// works again every completed request gets its line

type faultyWriter struct {
	mu     sync.Mutex
	n      int
	failAt map[int]bool
	lines  []string
}

func (w *faultyWriter) Write(p []byte) (int, error) {
	w.mu.Lock()
	defer w.mu.Unlock()
	w.n++
	if w.failAt[w.n] {
		return 0, errors.New("injected: no space left on device")
	}
	w.lines = append(w.lines, string(p))
	return len(p), nil
}

func TestC20LogTargetFaults(t *testing.T) {
	hx.Check(t, hx.Scale(300, 5000), func(t *rapid.T) {
		n := rapid.IntRange(2, 8).Draw(t, "requests")
		w := &faultyWriter{failAt: map[int]bool{}}
		for i := 1; i <= n; i++ {
			if rapid.IntRange(0, 3).Draw(t, "write-fails") == 0 {
				w.failAt[i] = true
			}
		}
		l, err := logger.New(w, "$request_uri $response_status")
		if err != nil {
			t.Fatal(err)
		}
		p := &proxy.HTTPProxy{
			Stats:     wire.Stats(),
			Transport: cannedRT{200, "hello"},
			Lookup: func(r *http.Request) *route.Target {
				return &route.Target{Service: "svc", URL: &url.URL{Scheme: "http", Host: "backend", Path: "/"}}
			},
			Logger: l,
		}
		var want []string
		for i := 1; i <= n; i++ {
			rec := httptest.NewRecorder()
			req := httptest.NewRequest("GET", fmt.Sprintf("http://example.com/r%d", i), nil)
			req.RemoteAddr = "192.0.2.1:1234"
			done := make(chan struct{})
			go func() {
				defer close(done)
				p.ServeHTTP(rec, req)
			}()
			select {
			case <-done:
			case <-time.After(5 * time.Second):
				t.Fatalf("request %d of %d never completed; the log target failed on writes %v", i, n, keysOf(w.failAt))
			}
			hx.Eval()
			if rec.Code != 200 || rec.Body.String() != "hello" {
				t.Fatalf("request %d altered: %d %q; the log target failed on writes %v", i, rec.Code, rec.Body.String(), keysOf(w.failAt))
			}
			if !w.failAt[i] {
				want = append(want, req.RequestURI+" 200\n")
			}
		}
		w.mu.Lock()
		got := append([]string{}, w.lines...)
		w.mu.Unlock()
		if strings.Join(got, "") != strings.Join(want, "") {
			t.Fatalf("log lines %q, want %q (one per completed request whose write succeeded); the log target failed on writes %v", got, want, keysOf(w.failAt))
		}
		if len(w.failAt) > 0 && !w.failAt[n] {
			hx.NonTrivial(fmt.Sprintf("faults|%d|%v", n, keysOf(w.failAt)))
			hx.Class("log-target-fault-then-more-requests")
		}
	})
}

func keysOf(m map[int]bool) []int {
	var out []int
	for k := range m {
		out = append(out, k)
	}
	sort.Ints(out)
	return out
}

// The request id formatter is called by every request at once
// (proxy.header.requestid): renderings do not depend on what other goroutines
// render at the same moment, and generated ids do not repeat.
func TestC20ConcurrentUUID(t *testing.T) {
	hx.Check(t, hx.Scale(30, 300), func(t *rapid.T) {
		G := rapid.IntRange(2, 16).Draw(t, "goroutines")
		per := hx.Pick(2000, 20000)
		seeds := make([]uint64, G)
		for g := range seeds {
			seeds[g] = rapid.Uint64().Draw(t, "seed")
		}
		var wg sync.WaitGroup
		errs := make([]string, G)
		ids := make([][]string, G)
		start := make(chan struct{})
		for g := 0; g < G; g++ {
			wg.Add(1)
			go func(g int) {
				defer wg.Done()
				<-start
				x := seeds[g] | 1
				var u [24]byte
				for i := 0; i < per && errs[g] == ""; i++ {
					for k := range u {
						x ^= x << 13
						x ^= x >> 7
						x ^= x << 17
						u[k] = byte(x)
					}
					want := fmt.Sprintf("%x-%x-%x-%x-%x", u[0:4], u[4:6], u[6:8], u[8:10], u[10:16])
					if got := uuid.ToString(u); got != want {
						errs[g] = fmt.Sprintf("uuid.ToString(%x) = %q, want %q", u, got, want)
					}
					if i%20 == 0 {
						ids[g] = append(ids[g], uuid.NewUUID())
					}
				}
			}(g)
		}
		close(start)
		wg.Wait()
		hx.EvalN(G * per)
		seen := map[string]bool{}
		for g := range errs {
			if errs[g] != "" {
				t.Fatalf("%d goroutines rendering at once: %s", G, errs[g])
			}
			for _, id := range ids[g] {
				if seen[id] {
					t.Fatalf("%d goroutines generating request ids at once: %s was handed out twice", G, id)
				}
				seen[id] = true
			}
		}
		hx.NonTrivial(fmt.Sprintf("uuid-conc|%d|%v", G, seeds[0]))
		hx.Class("concurrent-uuid")
	})
}
