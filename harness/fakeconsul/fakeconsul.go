// Package fakeconsul is a minimal in-process Consul HTTP API: exactly the
// endpoints fabio's consul backend calls, with blocking queries.
package fakeconsul

import (
	"encoding/json"
	"net/http"
	"net/http/httptest"
	"sort"
	"strconv"
	"strings"
	"sync"
	"time"

	"github.com/hashicorp/consul/api"
)

type Instance struct {
	Node, NodeAddr string
	ID, Name       string
	Addr           string
	Port           int
	Tags           []string
	Checks         []string // status of each service check
	Maintenance    bool     // service maintenance mode
}

type Node struct {
	Name        string
	Addr        string
	SerfStatus  string // "" = no serfHealth check
	Maintenance bool
}

type Server struct {
	mu    sync.Mutex
	cond  *sync.Cond
	srv   *httptest.Server
	nodes map[string]*Node
	inst  map[string]*Instance // key node/id
	kv    map[string]string

	healthIndex uint64
	kvIndex     uint64

	// bookkeeping for quiescence detection
	healthParkedAt    uint64 // index a health/state query is currently blocked on (0 = none)
	kvParkedAt        map[string]uint64
	healthServed      uint64 // number of health/state responses sent
	kvServed          uint64
	CatalogErr        map[string]bool // service names whose catalog lookup fails (fault injection)
	healthWake        uint64          // bumped by WakeHealth: parked health queries return with the unchanged index
	healthSeenAt      uint64          // index of the last health response sent
	kvSeenAt          map[string]uint64
	kvFail            bool // every KV request fails with 500 (fault injection)
	agentRefusesDereg bool
	agentRefuses      bool // service registrations are refused with 403 (ACL)
	kvWake            uint64
}

func New() *Server {
	s := &Server{nodes: map[string]*Node{}, inst: map[string]*Instance{}, kv: map[string]string{}, healthIndex: 10, kvIndex: 10, kvParkedAt: map[string]uint64{}, kvSeenAt: map[string]uint64{}, CatalogErr: map[string]bool{}}
	s.cond = sync.NewCond(&s.mu)
	s.srv = httptest.NewServer(http.HandlerFunc(s.handle))
	// wake blocked queries regularly so that cancelled requests are noticed
	go func() {
		for {
			time.Sleep(50 * time.Millisecond)
			s.cond.Broadcast()
		}
	}()
	return s
}

func (s *Server) Addr() string { return strings.TrimPrefix(s.srv.URL, "http://") }

// ---- mutations (each bumps the index of the affected table)

func (s *Server) Mutate(f func()) {
	s.mu.Lock()
	f()
	s.healthIndex++
	s.mu.Unlock()
	s.cond.Broadcast()
}

func (s *Server) MutateKV(f func(kv map[string]string)) {
	s.mu.Lock()
	f(s.kv)
	s.kvIndex++
	s.mu.Unlock()
	s.cond.Broadcast()
}

// SetCatalogErr makes the catalog lookup of a service fail (500) or work again.
// It does not bump an index: the registry's state is unchanged.
func (s *Server) SetCatalogErr(name string, fail bool) {
	s.mu.Lock()
	if fail {
		s.CatalogErr[name] = true
	} else {
		delete(s.CatalogErr, name)
	}
	s.mu.Unlock()
}

// WakeHealth lets parked health queries return now with the unchanged index, as Consul does
// when the wait time of a blocking query has elapsed.
func (s *Server) WakeHealth() {
	s.mu.Lock()
	s.healthWake++
	s.mu.Unlock()
	s.cond.Broadcast()
}

// SetKVFail makes every KV request fail (500) or work again; parked KV queries are released.
func (s *Server) SetKVFail(fail bool) {
	s.mu.Lock()
	s.kvFail = fail
	s.kvWake++
	s.mu.Unlock()
	s.cond.Broadcast()
}

// Rewind makes both indexes go back (a Consul restored from a snapshot, a rebuilt cluster): the
// data stays, the numbers restart low.  Parked queries return.
func (s *Server) Rewind() {
	s.mu.Lock()
	s.healthIndex = 2 + s.healthIndex%3
	s.kvIndex = 2 + s.kvIndex%3
	s.healthWake++
	s.kvWake++
	s.mu.Unlock()
	s.cond.Broadcast()
}

// SetAgentRefuses makes the agent refuse service registrations (403), as an ACL would.
func (s *Server) SetAgentRefuses(v bool) {
	s.mu.Lock()
	s.agentRefuses = v
	s.mu.Unlock()
}

// SetAgentRefusesDeregister makes the agent answer deregistrations with an error (it is going
// down together with fabio, or has lost its leader).
func (s *Server) SetAgentRefusesDeregister(v bool) {
	s.mu.Lock()
	s.agentRefusesDereg = v
	s.mu.Unlock()
}

// Touch bumps the health index without changing anything (watchers wake up and re-read).
func (s *Server) Touch() { s.Mutate(func() {}) }

func (s *Server) SetNode(n Node) { s.Mutate(func() { c := n; s.nodes[n.Name] = &c }) }

func (s *Server) SetInstance(in Instance) {
	s.Mutate(func() {
		c := in
		if _, ok := s.nodes[in.Node]; !ok {
			s.nodes[in.Node] = &Node{Name: in.Node, Addr: in.NodeAddr, SerfStatus: "passing"}
		}
		s.inst[in.Node+"/"+in.ID] = &c
	})
}

func (s *Server) RemoveInstance(node, id string) { s.Mutate(func() { delete(s.inst, node+"/"+id) }) }

func (s *Server) Reset() {
	s.Mutate(func() {
		s.nodes = map[string]*Node{}
		s.inst = map[string]*Instance{}
	})
	s.MutateKV(func(kv map[string]string) {
		for k := range kv {
			delete(kv, k)
		}
	})
	s.mu.Lock()
	s.CatalogErr = map[string]bool{}
	s.kvFail = false
	s.mu.Unlock()
}

// Quiesced reports whether both watchers have seen the current state: a
// blocking query is parked on the current index of each table (blocking
// mode) or at least one response was served after the last mutation.
func (s *Server) Quiesced(kvPrefix string) bool {
	s.mu.Lock()
	defer s.mu.Unlock()
	return s.healthParkedAt == s.healthIndex && s.kvParkedAt[strings.Trim(kvPrefix, "/")] == s.kvIndex
}

// Seen reports whether the current state of both tables has been sent to the watchers at least
// once (whether or not they are parked on it now).
func (s *Server) Seen(kvPrefix string) bool {
	s.mu.Lock()
	defer s.mu.Unlock()
	return s.healthSeenAt == s.healthIndex && s.kvSeenAt[strings.Trim(kvPrefix, "/")] == s.kvIndex
}

// KVQuiesced: the KV watcher is parked on the current KV index.
func (s *Server) KVQuiesced(kvPrefix string) bool {
	s.mu.Lock()
	defer s.mu.Unlock()
	return s.kvParkedAt[strings.Trim(kvPrefix, "/")] == s.kvIndex
}

// Served returns the number of health and kv responses sent so far.
func (s *Server) Served() (uint64, uint64) {
	s.mu.Lock()
	defer s.mu.Unlock()
	return s.healthServed, s.kvServed
}

// ---- HTTP

func (s *Server) handle(w http.ResponseWriter, r *http.Request) {
	p := r.URL.Path
	switch {
	case p == "/v1/agent/self":
		json.NewEncoder(w).Encode(map[string]map[string]interface{}{"Config": {"Datacenter": "dc1", "NodeName": "fake"}})
	case p == "/v1/health/state/any":
		s.health(w, r)
	case strings.HasPrefix(p, "/v1/catalog/service/"):
		s.catalog(w, r, strings.TrimPrefix(p, "/v1/catalog/service/"))
	case strings.HasPrefix(p, "/v1/kv/"):
		s.kvGet(w, r, strings.TrimPrefix(p, "/v1/kv/"))
	case p == "/v1/agent/services":
		w.Write([]byte("{}"))
	case strings.HasPrefix(p, "/v1/agent/service/register"):
		s.mu.Lock()
		refuse := s.agentRefuses
		s.mu.Unlock()
		if refuse {
			http.Error(w, "Permission denied", 403)
			return
		}
		w.WriteHeader(200)
	case strings.HasPrefix(p, "/v1/agent/service/deregister"):
		s.mu.Lock()
		refuse := s.agentRefusesDereg
		s.mu.Unlock()
		if refuse {
			http.Error(w, "rpc error: No cluster leader", 500)
			return
		}
		w.WriteHeader(200)
	case strings.HasPrefix(p, "/v1/agent/"):
		w.WriteHeader(200)
	default:
		http.NotFound(w, r)
	}
}

func waitIndex(r *http.Request) uint64 {
	n, _ := strconv.ParseUint(r.URL.Query().Get("index"), 10, 64)
	return n
}

func (s *Server) health(w http.ResponseWriter, r *http.Request) {
	idx := waitIndex(r)
	s.mu.Lock()
	wake := s.healthWake
	for idx == s.healthIndex && wake == s.healthWake && r.Context().Err() == nil {
		s.healthParkedAt = idx
		s.cond.Wait()
	}
	s.healthParkedAt = 0
	if r.Context().Err() != nil {
		s.mu.Unlock()
		return
	}
	var out []*api.HealthCheck
	for _, n := range s.sortedNodes() {
		if n.SerfStatus != "" {
			out = append(out, &api.HealthCheck{Node: n.Name, CheckID: "serfHealth", Name: "Serf Health Status", Status: n.SerfStatus})
		}
		if n.Maintenance {
			out = append(out, &api.HealthCheck{Node: n.Name, CheckID: "_node_maintenance", Name: "Node Maintenance Mode", Status: "critical"})
		}
	}
	for _, in := range s.sortedInstances() {
		for i, st := range in.Checks {
			out = append(out, &api.HealthCheck{Node: in.Node, CheckID: "service:" + in.ID + ":" + strconv.Itoa(i), ServiceID: in.ID, ServiceName: in.Name, ServiceTags: in.Tags, Status: st})
		}
		if in.Maintenance {
			out = append(out, &api.HealthCheck{Node: in.Node, CheckID: "_service_maintenance:" + in.ID, ServiceID: in.ID, ServiceName: in.Name, ServiceTags: in.Tags, Status: "critical"})
		}
	}
	index := s.healthIndex
	s.healthServed++
	s.healthSeenAt = index
	s.mu.Unlock()
	w.Header().Set("X-Consul-Index", strconv.FormatUint(index, 10))
	w.Header().Set("Content-Type", "application/json")
	if out == nil {
		out = []*api.HealthCheck{}
	}
	json.NewEncoder(w).Encode(out)
}

func (s *Server) sortedNodes() []*Node {
	var ns []*Node
	for _, n := range s.nodes {
		ns = append(ns, n)
	}
	sort.Slice(ns, func(i, j int) bool { return ns[i].Name < ns[j].Name })
	return ns
}

func (s *Server) sortedInstances() []*Instance {
	var is []*Instance
	for _, in := range s.inst {
		is = append(is, in)
	}
	sort.Slice(is, func(i, j int) bool { return is[i].Node+"/"+is[i].ID < is[j].Node+"/"+is[j].ID })
	return is
}

func (s *Server) catalog(w http.ResponseWriter, r *http.Request, name string) {
	s.mu.Lock()
	if s.CatalogErr[name] {
		s.mu.Unlock()
		http.Error(w, "injected failure", 500)
		return
	}
	out := []*api.CatalogService{}
	for _, in := range s.sortedInstances() {
		if in.Name != name {
			continue
		}
		addr := in.NodeAddr
		if n := s.nodes[in.Node]; n != nil && n.Addr != "" {
			addr = n.Addr
		}
		out = append(out, &api.CatalogService{Node: in.Node, Address: addr, Datacenter: "dc1", ServiceID: in.ID, ServiceName: in.Name, ServiceAddress: in.Addr, ServicePort: in.Port, ServiceTags: in.Tags})
	}
	index := s.healthIndex
	s.mu.Unlock()
	w.Header().Set("X-Consul-Index", strconv.FormatUint(index, 10))
	json.NewEncoder(w).Encode(out)
}

func (s *Server) kvGet(w http.ResponseWriter, r *http.Request, key string) {
	key = strings.Trim(key, "/")
	idx := waitIndex(r)
	_, recurse := r.URL.Query()["recurse"]
	s.mu.Lock()
	wake := s.kvWake
	// (an index from the future - the server was restored from a snapshot - is answered at once)
	for idx == s.kvIndex && wake == s.kvWake && !s.kvFail && r.Context().Err() == nil {
		s.kvParkedAt[key] = idx
		s.cond.Wait()
	}
	s.kvParkedAt[key] = 0
	if r.Context().Err() != nil {
		s.mu.Unlock()
		return
	}
	if s.kvFail {
		s.mu.Unlock()
		http.Error(w, "injected KV failure", 500)
		return
	}
	var keys []string
	for k := range s.kv {
		if (recurse && strings.HasPrefix(k, key)) || k == key {
			keys = append(keys, k)
		}
	}
	sort.Strings(keys)
	var out []*api.KVPair
	for _, k := range keys {
		out = append(out, &api.KVPair{Key: k, Value: []byte(s.kv[k]), ModifyIndex: s.kvIndex})
	}
	index := s.kvIndex
	s.kvServed++
	s.kvSeenAt[key] = index
	s.mu.Unlock()
	w.Header().Set("X-Consul-Index", strconv.FormatUint(index, 10))
	if len(out) == 0 {
		w.WriteHeader(404)
		return
	}
	json.NewEncoder(w).Encode(out)
}
