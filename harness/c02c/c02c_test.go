package c02c

import (
	"bytes"
	"fmt"
	"net/http"
	"net/url"
	"strconv"
	"strings"
	"sync"
	"sync/atomic"
	"testing"

	"github.com/fabiolb/fabio/route"
	"pgregory.net/rapid"

	"verifharness/hx"
)

func TestMain(m *testing.M) { hx.Main(m) }

// (c) atomic replacement under concurrency, run with the race detector.
//
// A writer installs tables T0,T1,...; every target of Tg carries g in its
// URL. Routes are written in least-specific-first order so that a table
// observed before it is sorted gives a detectably wrong answer. Readers take
// a snapshot and look up every (host, path) of the generated shape.

type shape struct {
	hosts []string
	paths []string // nested: "/", "/p1", "/p1/p2", ...
}

func tableText(sh shape, gen int) string {
	var b strings.Builder
	for hi, h := range sh.hosts {
		for pi, p := range sh.paths {
			fmt.Fprintf(&b, "route add svc %s%s http://g%d-h%d-p%d:80/\n", h, p, gen, hi, pi)
			if (hi+pi)%3 == 0 { // some routes have two targets
				fmt.Fprintf(&b, "route add svc %s%s http://g%d-h%d-p%d:81/\n", h, p, gen, hi, pi)
			}
		}
	}
	return b.String()
}

func parseTarget(tg *route.Target) (gen, hi, pi int, ok bool) {
	if tg == nil {
		return
	}
	h := tg.URL.Hostname()
	var err error
	parts := strings.Split(h, "-")
	if len(parts) != 3 {
		return
	}
	if gen, err = strconv.Atoi(parts[0][1:]); err != nil {
		return
	}
	if hi, err = strconv.Atoi(parts[1][1:]); err != nil {
		return
	}
	if pi, err = strconv.Atoi(parts[2][1:]); err != nil {
		return
	}
	return gen, hi, pi, true
}

func TestC02cAtomicReplacement(t *testing.T) {
	hx.Check(t, hx.Scale(20, 200), func(t *rapid.T) {
		nh := rapid.IntRange(1, 4).Draw(t, "nhosts")
		np := rapid.IntRange(1, 4).Draw(t, "npaths")
		sh := shape{}
		for i := 0; i < nh; i++ {
			sh.hosts = append(sh.hosts, []string{"", "a.example", "b.example", "*.w.example"}[i])
		}
		p := ""
		sh.paths = append(sh.paths, "/")
		for i := 1; i < np; i++ {
			p += fmt.Sprintf("/p%d", i)
			sh.paths = append(sh.paths, p)
		}
		readers := rapid.IntRange(2, 16).Draw(t, "readers")
		gens := rapid.IntRange(5, 60).Draw(t, "generations")
		perReader := hx.Pick(3000, 20000)
		matcher := rapid.SampledFrom([]string{"prefix", "iprefix", "glob"}).Draw(t, "matcher")
		if matcher == "glob" {
			for i := range sh.paths {
				sh.paths[i] += "*"
			}
		}

		t0, err := route.NewTable(bytes.NewBufferString(tableText(sh, 0)))
		if err != nil {
			t.Fatal(err)
		}
		route.SetTable(t0)
		var published, publishing int64 // generations: fully installed / about to be installed
		var stop int32
		var wg sync.WaitGroup
		errs := make(chan string, readers+1)
		fail := func(format string, a ...any) {
			select {
			case errs <- fmt.Sprintf(format, a...):
			default:
			}
			atomic.StoreInt32(&stop, 1)
		}
		wg.Add(1)
		go func() { // writer
			defer wg.Done()
			for g := 1; g <= gens && atomic.LoadInt32(&stop) == 0; g++ {
				tbl, err := route.NewTable(bytes.NewBufferString(tableText(sh, g)))
				if err != nil {
					fail("NewTable: %v", err)
					return
				}
				atomic.StoreInt64(&publishing, int64(g))
				route.SetTable(tbl)
				atomic.StoreInt64(&published, int64(g))
			}
		}()
		var lookups int64
		for r := 0; r < readers; r++ {
			wg.Add(1)
			go func(r int) {
				defer wg.Done()
				cache := route.NewGlobCache(2)
				lastGen := 0
				for n := 0; n < perReader && atomic.LoadInt32(&stop) == 0; n++ {
					lo := atomic.LoadInt64(&published)
					snap := route.GetTable()
					snapGen := -1
					// every (host, path) of the shape, answered from one snapshot
					for hi, h := range sh.hosts {
						reqHost := strings.Replace(h, "*", "x", 1)
						if h == "" {
							reqHost = "unrelated.example"
						}
						for pi, pth := range sh.paths {
							req := &http.Request{Host: reqHost, URL: &url.URL{Path: strings.TrimSuffix(pth, "*") + "/leaf"}, Header: http.Header{}}
							tg := snap.Lookup(req, "", route.Picker["rr"], route.Matcher[matcher], cache, false)
							atomic.AddInt64(&lookups, 1)
							g, ghi, gpi, ok := parseTarget(tg)
							if !ok {
								fail("reader %d: lookup %s%s in a snapshot returned %v (incomplete table)", r, reqHost, pth, tg)
								return
							}
							if ghi != hi || gpi != pi {
								fail("reader %d: lookup %s%s answered by route h%d/p%d of generation %d (table not fully built when visible)", r, reqHost, pth, ghi, gpi, g)
								return
							}
							if snapGen == -1 {
								snapGen = g
							} else if g != snapGen {
								fail("reader %d: one snapshot answered with generations %d and %d (mixture of two tables)", r, snapGen, g)
								return
							}
						}
					}
					hi := atomic.LoadInt64(&publishing)
					if int64(snapGen) < lo || int64(snapGen) > hi {
						fail("reader %d: snapshot has generation %d, writer had installed %d and was installing at most %d", r, snapGen, lo, hi)
						return
					}
					if snapGen < lastGen {
						fail("reader %d: generation went backwards %d -> %d", r, lastGen, snapGen)
						return
					}
					lastGen = snapGen
				}
			}(r)
		}
		wg.Wait()
		hx.Eval()
		hx.ClassN("lookups", int(atomic.LoadInt64(&lookups)))
		select {
		case e := <-errs:
			t.Fatalf("%s\nshape: hosts=%v paths=%v matcher=%s readers=%d generations=%d", e, sh.hosts, sh.paths, matcher, readers, gens)
		default:
		}
		if readers >= 2 && len(sh.hosts)*len(sh.paths) >= 2 {
			hx.NonTrivial(fmt.Sprintf("%v|%v|%s|%d|%d", sh.hosts, sh.paths, matcher, readers, gens))
		}
		if hx.WantSample("workload") {
			hx.Sample("workload", map[string]any{"hosts": sh.hosts, "paths": sh.paths, "matcher": matcher, "readers": readers, "generations": gens, "lookups": atomic.LoadInt64(&lookups)})
		}
	})
}
