// Package observe pokes fabio's read-only admin endpoints.  They look at the
// routing table that is installed (route.GetTable) while requests are being
// routed from it, so the checks of the routing properties call them in between
// and alongside their lookups: looking must not change what is looked at.
package observe

import (
	"io"
	"net/http"
	"net/http/httptest"
	"net/url"

	"github.com/fabiolb/fabio/admin/api"
	"github.com/fabiolb/fabio/admin/ui"
	"github.com/fabiolb/fabio/config"
	"github.com/fabiolb/fabio/route"
)

var handlers = map[string]http.Handler{
	"/api/routes":     &api.RoutesHandler{},
	"/api/routes?raw": &api.RoutesHandler{},
	"/routes":         &ui.RoutesHandler{Title: "t", Version: "v", RoutingTable: config.RoutingTable{}},
	"/api/config":     &api.ConfigHandler{Config: &config.Config{}},
}

// Poke installs tbl as the active table (what the admin endpoints read) and
// calls every read-only endpoint once.  It returns the number of calls.
func Poke(tbl route.Table) int {
	route.SetTable(tbl)
	n := 0
	for path, h := range handlers {
		rec := httptest.NewRecorder()
		h.ServeHTTP(rec, httptest.NewRequest("GET", "http://admin.local"+path, nil))
		io.Copy(io.Discard, rec.Body)
		n++
	}
	// the listing filtered by every service of the table (query parameters of the routes API),
	// and the renderings fabio writes to its log when a table is installed (log.routes.format)
	seen := map[string]bool{}
	for _, rs := range tbl {
		for _, r := range rs {
			for _, tg := range r.Targets {
				if seen[tg.Service] {
					continue
				}
				seen[tg.Service] = true
				for _, q := range []string{"service=", "svc=", "name="} {
					rec := httptest.NewRecorder()
					handlers["/api/routes"].ServeHTTP(rec, httptest.NewRequest("GET", "http://admin.local/api/routes?"+q+url.QueryEscape(tg.Service), nil))
					io.Copy(io.Discard, rec.Body)
					n++
				}
			}
		}
	}
	_ = tbl.String()
	_ = tbl.Dump()
	n += 2
	return n
}
