package c05

import (
	"bytes"
	"fmt"
	"math"
	"net/http"
	"net/http/httptest"
	"net/url"
	"reflect"
	"sort"
	"strconv"
	"strings"
	"testing"

	"github.com/fabiolb/fabio/admin/api"
	"github.com/fabiolb/fabio/route"
	"pgregory.net/rapid"

	"verifharness/hx"
	"verifharness/wire"
)

func TestMain(m *testing.M) { wire.Init(false); hx.Main(m) }

// ---------------------------------------------------------------------------
// independent model of the documented command semantics

type mTarget struct {
	svc   string
	url   string
	fixed float64
	tags  []string
	opts  map[string]string
}

type mRoute struct {
	host, path string
	targets    []*mTarget
}

type model struct {
	routes []*mRoute // insertion order; the table's own order is not compared
}

func splitSrc(src string) (string, string) {
	if strings.HasPrefix(src, ":") {
		return strings.ToLower(src), ""
	}
	i := strings.Index(src, "/")
	if i < 0 {
		return strings.ToLower(src), "/"
	}
	return strings.ToLower(src[:i]), src[i:]
}

func (m *model) find(host, path string) *mRoute {
	for _, r := range m.routes {
		if r.host == host && r.path == path {
			return r
		}
	}
	return nil
}

func normURL(s string) string {
	u, err := url.Parse(s)
	if err != nil {
		panic(err)
	}
	return u.String()
}

func subset(have, want []string) bool {
	for _, w := range want {
		ok := false
		for _, h := range have {
			if h == w {
				ok = true
			}
		}
		if !ok {
			return false
		}
	}
	return true
}

func eqTags(a, b []string) bool {
	if len(a) != len(b) {
		return false
	}
	for i := range a {
		if a[i] != b[i] {
			return false
		}
	}
	return true
}

type cmd struct {
	kind   string // add, del, weight
	svc    string
	src    string
	dst    string
	weight float64
	hasW   bool
	tags   []string
	opts   map[string]string
	text   string
}

func (m *model) add(c cmd) {
	host, path := splitSrc(c.src)
	w := c.weight
	if w < 0 {
		w = 0
	}
	r := m.find(host, path)
	if r == nil {
		r = &mRoute{host: host, path: path}
		m.routes = append(m.routes, r)
	}
	u := normURL(c.dst)
	for _, t := range r.targets {
		if t.svc == c.svc && t.url == u && t.fixed == w && eqTags(t.tags, c.tags) {
			return // idempotent
		}
	}
	r.targets = append(r.targets, &mTarget{svc: c.svc, url: u, fixed: w, tags: c.tags, opts: c.opts})
}

func (m *model) del(c cmd) (selected, existing int) {
	filter := func(r *mRoute, sel func(*mTarget) bool) {
		var keep []*mTarget
		for _, t := range r.targets {
			if sel(t) {
				selected++
			} else {
				keep = append(keep, t)
			}
		}
		r.targets = keep
	}
	for _, r := range m.routes {
		existing += len(r.targets)
	}
	switch {
	case len(c.tags) > 0:
		for _, r := range m.routes {
			filter(r, func(t *mTarget) bool { return (c.svc == "" || t.svc == c.svc) && subset(t.tags, c.tags) })
		}
	case c.src == "" && c.dst == "":
		for _, r := range m.routes {
			filter(r, func(t *mTarget) bool { return t.svc == c.svc })
		}
	case c.dst == "":
		if r := m.find(splitSrc(c.src)); r != nil {
			filter(r, func(t *mTarget) bool { return t.svc == c.svc })
		}
	default:
		u := normURL(c.dst)
		if r := m.find(splitSrc(c.src)); r != nil {
			filter(r, func(t *mTarget) bool { return t.svc == c.svc && t.url == u })
		}
	}
	var keep []*mRoute
	for _, r := range m.routes {
		if len(r.targets) > 0 {
			keep = append(keep, r)
		}
	}
	m.routes = keep
	return
}

// weight returns the number of matching targets (0 = the command is an error).
func (m *model) weight(c cmd) (n, inRoute int) {
	r := m.find(splitSrc(c.src))
	if r == nil {
		return 0, 0
	}
	var sel []*mTarget
	for _, t := range r.targets {
		if (c.svc == "" || t.svc == c.svc) && subset(t.tags, c.tags) {
			sel = append(sel, t)
		}
	}
	for _, t := range sel {
		t.fixed = c.weight / float64(len(sel))
	}
	return len(sel), len(r.targets)
}

func refWeights(ts []*mTarget) []float64 {
	n := len(ts)
	nF, sumF := 0, 0.0
	for _, x := range ts {
		if x.fixed > 0 {
			nF++
			sumF += x.fixed
		}
	}
	w := make([]float64, n)
	for i, x := range ts {
		switch {
		case nF == 0:
			w[i] = 1 / float64(n)
		case sumF > 1 || nF == n:
			if x.fixed > 0 {
				w[i] = x.fixed / sumF
			}
		case x.fixed > 0:
			w[i] = x.fixed
		default:
			w[i] = (1 - sumF) / float64(n-nF)
		}
	}
	return w
}

// ---------------------------------------------------------------------------
// generator

var (
	services = []string{"svc-a", "svc-b", "svc-c"}
	hosts    = []string{"", "foo.com", "bar.com", "a.foo.com", "*.foo.com", "foo.com:8443"}
	paths    = []string{"/", "/a", "/a/b", "/A"}
	dsts     = []string{"http://10.0.0.1:80/", "http://10.0.0.2:8080/", "https://h3.example:443/base", "http://10.0.0.4:80/?x=1",
		"HTTP://10.0.0.5:80/", "http://10.0.0.6:80/café", "http://10.0.0.7:80/x#", "http://H8.Example:80/a^b"} // the last ones are not in net/url's own rendering
	tagPool = []string{"a", "b", "c", `d\e`, "ü", "v1.2"}
	optPool = []string{"strip=/a", "prepend=/x", "proto=https", "tlsskipverify=true", "host=dst", "flag", "k=v=w", "auth=basic1"}
)

func mixCase(t *rapid.T, s string) string {
	if s == "" {
		return s
	}
	b := []byte(s)
	mode := rapid.IntRange(0, 2).Draw(t, "casemode")
	for i := range b {
		if b[i] >= 'a' && b[i] <= 'z' && (mode == 1 || (mode == 2 && rapid.Bool().Draw(t, "up"))) {
			b[i] -= 32
		}
	}
	return string(b)
}

func genTags(t *rapid.T, label string, min int) []string {
	n := rapid.IntRange(min, 3).Draw(t, label+"n")
	if n == 0 {
		return nil
	}
	seen := map[string]bool{}
	var out []string
	for i := 0; i < n; i++ {
		x := rapid.SampledFrom(tagPool).Draw(t, label)
		if !seen[x] {
			seen[x] = true
			out = append(out, x)
		}
	}
	return out
}

func sp(t *rapid.T) string {
	return rapid.SampledFrom([]string{" ", " ", " ", "  ", "\t", " \t "}).Draw(t, "space")
}

func genW(t *rapid.T) float64 {
	return rapid.SampledFrom([]float64{0.1, 0.25, 0.5, 0.3333, 0.0001, 1, 0.9, 0.05, 1.5, 0.2, 0.75, 0, -1, 10, 50, 100, 20.5, 0.01, 1000, 33.333, 123456, 12.3456, 2.5}).Draw(t, "w")
}

func fw(w float64) string { return strconv.FormatFloat(w, 'f', -1, 64) }

func genCmd(t *rapid.T, m *model) cmd {
	var c cmd
	k := rapid.IntRange(0, 9).Draw(t, "cmdkind")
	s := func() string { return sp(t) }
	// an existing route / target to aim del and weight commands at
	var er *mRoute
	var et *mTarget
	if m != nil && len(m.routes) > 0 && rapid.IntRange(0, 9).Draw(t, "aim") < 8 {
		er = m.routes[rapid.IntRange(0, len(m.routes)-1).Draw(t, "aimroute")]
		et = er.targets[rapid.IntRange(0, len(er.targets)-1).Draw(t, "aimtarget")]
	}
	if k > 7 && (er == nil || rapid.IntRange(0, 19).Draw(t, "strayweight") > 0) {
		if er == nil {
			k = 0 // nothing to weigh yet: add instead
		}
	}
	stray := k > 7 && rapid.IntRange(0, 19).Draw(t, "stray") == 0 // a weight command that may match nothing
	if stray {
		er, et = nil, nil
	}
	src := func() string {
		if er != nil && k > 4 {
			return mixCase(t, er.host) + er.path
		}
		h := rapid.SampledFrom(hosts).Draw(t, "host")
		if h != "" && !strings.HasPrefix(h, ":") && rapid.IntRange(0, 5).Draw(t, "bare-host") == 0 {
			return mixCase(t, h) // a bare host (no slash): the same as <host>/
		}
		return mixCase(t, h) + rapid.SampledFrom(paths).Draw(t, "path")
	}
	pickSvc := func() string {
		if et != nil && (k > 7 || rapid.IntRange(0, 4).Draw(t, "aimsvc") > 0) {
			return et.svc
		}
		return rapid.SampledFrom(services).Draw(t, "svc")
	}
	var pickTags0 func(min int) []string
	pickTags0 = func(min int) []string {
		if et != nil && k > 7 && len(et.tags) == 0 && min == 0 {
			return nil
		}
		if et != nil && len(et.tags) > 0 && (k > 7 || rapid.IntRange(0, 4).Draw(t, "aimtags") > 0) {
			n := rapid.IntRange(1, len(et.tags)).Draw(t, "ntags")
			return append([]string{}, et.tags[:n]...)
		}
		return genTags(t, "tag", min)
	}
	pickTags := func(min int) []string {
		ts := pickTags0(min)
		// a selector may name a tag twice: it still asks for that tag to be present, nothing more
		if len(ts) > 0 && rapid.IntRange(0, 7).Draw(t, "repeat-a-selector-tag") == 0 {
			ts = append(ts, ts[rapid.IntRange(0, len(ts)-1).Draw(t, "which")])
			hx.Class("selector-names-a-tag-twice")
		}
		return ts
	}
	pickDst := func() string {
		if et != nil && rapid.IntRange(0, 4).Draw(t, "aimdst") > 0 {
			return et.url
		}
		return rapid.SampledFrom(dsts).Draw(t, "dst")
	}
	switch {
	case k <= 4: // add
		c.kind = "add"
		c.svc = rapid.SampledFrom(services).Draw(t, "svc")
		c.src = src()
		c.dst = rapid.SampledFrom(dsts).Draw(t, "dst")
		c.text = "route" + s() + "add" + s() + c.svc + s() + c.src + s() + c.dst
		if rapid.IntRange(0, 2).Draw(t, "hasw") == 0 {
			c.weight, c.hasW = genW(t), true
			c.text += s() + "weight" + s() + fw(c.weight)
		}
		if c.tags = genTags(t, "tag", 0); len(c.tags) > 0 {
			c.text += s() + "tags" + s() + `"` + strings.Join(c.tags, ",") + `"`
		}
		if rapid.IntRange(0, 2).Draw(t, "hasopts") == 0 {
			c.opts = map[string]string{}
			var parts []string
			for i, n := 0, rapid.IntRange(1, 3).Draw(t, "nopts"); i < n; i++ {
				o := rapid.SampledFrom(optPool).Draw(t, "opt")
				kv := strings.SplitN(o, "=", 2)
				if _, dup := c.opts[kv[0]]; dup {
					continue
				}
				if len(kv) == 2 {
					c.opts[kv[0]] = kv[1]
				} else {
					c.opts[kv[0]] = ""
				}
				parts = append(parts, o)
			}
			c.text += s() + "opts" + s() + `"` + strings.Join(parts, " ") + `"`
		}
	case k <= 7: // del
		c.kind = "del"
		switch rapid.IntRange(0, 4).Draw(t, "delform") {
		case 0:
			c.svc = pickSvc()
			c.text = "route" + s() + "del" + s() + c.svc
		case 1:
			c.svc = pickSvc()
			c.src = src()
			c.text = "route" + s() + "del" + s() + c.svc + s() + c.src
		case 2:
			c.svc = pickSvc()
			c.src = src()
			c.dst = pickDst()
			c.text = "route" + s() + "del" + s() + c.svc + s() + c.src + s() + c.dst
		case 3:
			c.svc = pickSvc()
			c.tags = pickTags(1)
			c.text = "route" + s() + "del" + s() + c.svc + s() + "tags" + s() + `"` + strings.Join(c.tags, ",") + `"`
		default:
			c.tags = pickTags(1)
			c.text = "route" + s() + "del" + s() + "tags" + s() + `"` + strings.Join(c.tags, ",") + `"`
		}
	default: // weight
		c.kind = "weight"
		c.src = src()
		c.weight, c.hasW = genW(t), true
		if rapid.IntRange(0, 2).Draw(t, "wform") == 0 {
			c.tags = pickTags(1)
			c.text = "route" + s() + "weight" + s() + c.src + s() + "weight" + s() + fw(c.weight) + s() + "tags" + s() + `"` + strings.Join(c.tags, ",") + `"`
		} else {
			c.svc = pickSvc()
			c.tags = pickTags(0)
			c.text = "route" + s() + "weight" + s() + c.svc + s() + c.src + s() + "weight" + s() + fw(c.weight)
			if len(c.tags) > 0 {
				c.text += s() + "tags" + s() + `"` + strings.Join(c.tags, ",") + `"`
			}
		}
	}
	return c
}

// genProgram biases later commands towards objects that exist in the model.
func genProgram(t *rapid.T) []cmd {
	n := rapid.IntRange(1, 25).Draw(t, "ncmds")
	var prog []cmd
	shadow := &model{} // only used to aim commands; the checked model is built separately
	for i := 0; i < n; i++ {
		c := genCmd(t, shadow)
		// now and then an earlier add comes once more, letter for letter (a registry announces the
		// same line again, an operator pins an instance after a del by copying its line): it is an
		// add like any other
		if len(prog) > 0 && rapid.IntRange(0, 5).Draw(t, "repeat-an-earlier-add-verbatim") == 0 {
			var adds []cmd
			for _, e := range prog {
				if e.kind == "add" {
					adds = append(adds, e)
				}
			}
			if len(adds) > 0 {
				c = adds[rapid.IntRange(0, len(adds)-1).Draw(t, "which-add")]
				hx.Class("earlier-add-repeated-verbatim")
			}
		}
		prog = append(prog, c)
		switch c.kind {
		case "add":
			shadow.add(c)
		case "del":
			shadow.del(c)
		case "weight":
			shadow.weight(c)
		}
	}
	return prog
}

// ---------------------------------------------------------------------------

func optsEq(a, b map[string]string) bool {
	if len(a) == 0 && len(b) == 0 {
		return true
	}
	return reflect.DeepEqual(a, b)
}

func compare(t *rapid.T, tbl route.Table, m *model, text string, fixedTol, effTol float64, skipZero bool) {
	nroutes := 0
	for h, rs := range tbl {
		if len(rs) == 0 {
			t.Fatalf("host %q left without routes\n%s", h, text)
		}
		for _, r := range rs {
			nroutes++
			if len(r.Targets) == 0 {
				t.Fatalf("route %s%s left without targets\n%s", h, r.Path, text)
			}
			if r.Host != h {
				t.Fatalf("route under key %q has Host %q", h, r.Host)
			}
		}
	}
	mr := 0
	for _, r := range m.routes {
		ts := r.targets
		ws := refWeights(ts)
		if skipZero {
			var keep []*mTarget
			var kw []float64
			for i, x := range ts {
				if ws[i] > 0 {
					keep = append(keep, x)
					kw = append(kw, ws[i])
				}
			}
			ts, ws = keep, kw
			if len(ts) == 0 {
				continue
			}
		}
		mr++
		var got *route.Route
		for _, x := range tbl[r.host] {
			if x.Path == r.path {
				got = x
			}
		}
		if got == nil {
			t.Fatalf("route %q%q missing from the table\n%s\ntable:\n%s", r.host, r.path, text, tbl.String())
		}
		if len(got.Targets) != len(ts) {
			t.Fatalf("route %s%s: table has %d targets, the command semantics give %d\n%s\ntable:\n%s", r.host, r.path, len(got.Targets), len(ts), text, tbl.String())
		}
		for i, x := range ts {
			g := got.Targets[i]
			gf := g.FixedWeight
			if gf < 0 {
				gf = 0
			}
			xf := x.fixed
			if xf < 0 {
				xf = 0
			}
			switch {
			case g.Service != x.svc:
				t.Fatalf("route %s%s target %d: service %q want %q\n%s", r.host, r.path, i, g.Service, x.svc, text)
			case g.URL.String() != x.url:
				t.Fatalf("route %s%s target %d: url %q want %q\n%s", r.host, r.path, i, g.URL, x.url, text)
			case !eqTags(g.Tags, x.tags):
				t.Fatalf("route %s%s target %d: tags %q want %q\n%s", r.host, r.path, i, g.Tags, x.tags, text)
			case !optsEq(g.Opts, x.opts):
				t.Fatalf("route %s%s target %d: opts %v want %v\n%s", r.host, r.path, i, g.Opts, x.opts, text)
			case math.Abs(gf-xf) > fixedTol:
				t.Fatalf("route %s%s target %d (%s): fixed weight %v want %v\n%s", r.host, r.path, i, x.url, g.FixedWeight, x.fixed, text)
			case math.Abs(g.Weight-ws[i]) > effTol:
				t.Fatalf("route %s%s target %d (%s): effective weight %v want %v\n%s", r.host, r.path, i, x.url, g.Weight, ws[i], text)
			}
		}
	}
	if mr != nroutes {
		t.Fatalf("table has %d routes, the command semantics give %d\n%s\ntable:\n%s", nroutes, mr, text, tbl.String())
	}
}

func TestC05Commands(t *testing.T) {
	hx.Check(t, hx.Scale(40000, 500000), func(t *rapid.T) {
		prog := genProgram(t)
		m := &model{}
		var lines []string
		nontrivial := false
		wantErr := false
		sawNoMatch := false
		caseDiff := false
		for _, c := range prog {
			lines = append(lines, c.text)
			if wantErr {
				continue
			}
			switch c.kind {
			case "add":
				m.add(c)
			case "del":
				sel, ex := m.del(c)
				if sel > 0 && sel < ex {
					nontrivial = true
					if c.src != strings.ToLower(c.src) {
						caseDiff = true
					}
				}
			case "weight":
				n, in := m.weight(c)
				if n == 0 {
					// nothing matches: the statement only says "changes only the matching
					// targets"; fabio rejects the program today, a no-op would satisfy it too
					sawNoMatch = true
				} else if n < in {
					nontrivial = true
					if c.src != strings.ToLower(c.src) {
						caseDiff = true
					}
				}
			}
		}
		text := strings.Join(lines, "\n")
		tbl, err := route.NewTable(bytes.NewBufferString(text))
		hx.Eval()
		_ = wantErr
		if sawNoMatch {
			hx.Class("weight-without-match")
			if err != nil {
				return // rejected as a whole: allowed
			}
		}
		if err != nil {
			t.Fatalf("well-formed program rejected: %v\n%s", err, text)
		}
		compare(t, tbl, m, text, 1e-12, 1e-9, false)
		if nontrivial {
			hx.NonTrivial(text)
			hx.Class("nontrivial")
			if caseDiff {
				hx.Class("nontrivial:selecting-command-with-uppercase-host")
			}
		}

		// ---- round trip through the text rendering
		fourDec, weightOnly := true, false
		for _, r := range m.routes {
			for i, x := range r.targets {
				if x.fixed > 0 && math.Abs(x.fixed*10000-math.Round(x.fixed*10000)) > 1e-9 {
					fourDec = false
				}
				for _, y := range r.targets[:i] {
					if x.svc == y.svc && x.url == y.url && eqTags(x.tags, y.tags) {
						weightOnly = true
					}
				}
			}
		}
		if weightOnly {
			hx.Class("roundtrip:skipped-two-targets-differ-only-in-weight")
			return
		}
		if !fourDec {
			hx.Class("roundtrip:skipped-weight-needs-more-than-4-decimals")
			return
		}
		rendered := tbl.String()
		// the rendering operators get is the one of the admin API (GET /api/routes?raw, which the
		// UI's "manual overrides" editor starts from): the same text
		if rapid.Bool().Draw(t, "rendering-through-the-admin-api") {
			route.SetTable(tbl)
			rec := httptest.NewRecorder()
			(&api.RoutesHandler{}).ServeHTTP(rec, httptest.NewRequest("GET", "http://admin.local/api/routes?raw", nil))
			if got := strings.TrimSuffix(rec.Body.String(), "\n"); got != rendered {
				t.Fatalf("GET /api/routes?raw serves a different text than the table's rendering\nserved:\n%s\nrendering:\n%s", got, rendered)
			}
			hx.Class("roundtrip:rendering-served-by-the-admin-api")
		}
		tbl2, err := route.NewTable(bytes.NewBufferString(rendered))
		if err != nil {
			t.Fatalf("the parser rejects the table's own rendering: %v\nrendering:\n%s\nprogram:\n%s", err, rendered, text)
		}
		compare(t, tbl2, m, "re-parsed rendering:\n"+rendered+"\nprogram:\n"+text, 1e-9, 1e-9, true)
		hx.Class("roundtrip:checked")
		// same route answers every request
		for _, r := range m.routes {
			h := r.host
			if strings.HasPrefix(h, ":") {
				continue
			}
			h = strings.Replace(h, "*", "x", 1)
			req := func() *http.Request {
				return &http.Request{Host: h, URL: &url.URL{Path: r.path + "/zz"}, Header: http.Header{}}
			}
			c1, c2 := route.NewGlobCache(10), route.NewGlobCache(10)
			a := tbl.Lookup(req(), "", route.Picker["rr"], route.Matcher["prefix"], c1, false)
			b := tbl2.Lookup(req(), "", route.Picker["rr"], route.Matcher["prefix"], c2, false)
			if (a == nil) != (b == nil) {
				t.Fatalf("lookup %s%s differs after round trip: %v vs %v\n%s", h, r.path, a, b, rendered)
			}
		}
		if hx.WantSample("program") && nontrivial && len(prog) <= 8 {
			hx.Sample("program", map[string]any{"program": lines, "table": strings.Split(rendered, "\n")})
		}
	})
}

// add is idempotent: repeating any add command leaves the table unchanged.
func TestC05AddIdempotent(t *testing.T) {
	hx.Check(t, hx.Scale(3000, 100000), func(t *rapid.T) {
		var lines []string
		for i, n := 0, rapid.IntRange(1, 8).Draw(t, "n"); i < n; i++ {
			c := genCmd(t, nil)
			if c.kind == "add" {
				lines = append(lines, c.text)
			}
		}
		if len(lines) == 0 {
			return
		}
		once, err := route.NewTable(bytes.NewBufferString(strings.Join(lines, "\n")))
		if err != nil {
			t.Fatalf("%v\n%s", err, strings.Join(lines, "\n"))
		}
		perm := rapid.Permutation(lines).Draw(t, "again")
		k := rapid.IntRange(1, len(perm)).Draw(t, "k")
		twiceText := strings.Join(append(append([]string{}, lines...), perm[:k]...), "\n")
		twice, err := route.NewTable(bytes.NewBufferString(twiceText))
		hx.Eval()
		if err != nil {
			t.Fatalf("%v\n%s", err, twiceText)
		}
		a, b := dump(once), dump(twice)
		if a != b {
			t.Fatalf("repeating add commands changed the table\nonce:\n%s\ntwice:\n%s\nprogram:\n%s", a, b, twiceText)
		}
		if len(lines) >= 2 {
			hx.NonTrivial("idem|" + twiceText)
		}
	})
}

func dump(tbl route.Table) string {
	var out []string
	for h, rs := range tbl {
		for _, r := range rs {
			for i, x := range r.Targets {
				out = append(out, fmt.Sprintf("%s|%s|%d|%s|%s|%v|%q|%v|%.12f", h, r.Path, i, x.Service, x.URL, x.FixedWeight, x.Tags, x.Opts, x.Weight))
			}
		}
	}
	sort.Strings(out)
	return strings.Join(out, "\n")
}
