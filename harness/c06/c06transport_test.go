package c06

import (
	"bytes"
	"crypto/tls"
	"fmt"
	"net/http"
	"net/http/httptest"
	"strings"
	"testing"

	"github.com/fabiolb/fabio/config"
	"github.com/fabiolb/fabio/proxy"
	"github.com/fabiolb/fabio/route"
	"github.com/fabiolb/fabio/transport"
	"pgregory.net/rapid"

	"verifharness/hx"
	"verifharness/wire"
)

// How a request is forwarded depends on that request and the active table only.  Routes to an
// https upstream with host=<name> get a transport of their own (server name, tlsskipverify);
// whether the upstream's certificate is verified is what the route of the ACTIVE table says -
// not what an earlier table, or another route with the same host option, said.
func TestC06PerRouteTransportFollowsTheTable(t *testing.T) { perRouteTransportHistory(t) }

// C14: a registration's options (proto=https host=<name> tlsskipverify=true, or without the
// last one) mean the same whatever was registered before.
func TestC14PerRouteTransportOptions(t *testing.T) { perRouteTransportHistory(t) }

func perRouteTransportHistory(t *testing.T) {
	up := httptest.NewTLSServer(http.HandlerFunc(func(w http.ResponseWriter, r *http.Request) {
		fmt.Fprint(w, "secure-upstream")
	}))
	defer up.Close()
	upAddr := strings.TrimPrefix(up.URL, "https://")
	transport.SetConfig(&config.Config{})
	cache := route.NewGlobCache(10)
	p := &proxy.HTTPProxy{
		Stats:             wire.Stats(),
		Transport:         transport.NewTransport(nil),
		InsecureTransport: transport.NewTransport(&tls.Config{InsecureSkipVerify: true}),
		Lookup: func(r *http.Request) *route.Target {
			return route.GetTable().Lookup(r, "", route.Picker["rr"], route.Matcher["prefix"], cache, false)
		},
	}
	hx.Check(t, hx.Scale(40, 600), func(t *rapid.T) {
		var hist []string
		for g, n := 0, rapid.IntRange(2, 5).Draw(t, "tables"); g < n; g++ {
			type rt struct {
				path string
				skip bool
			}
			var rts []rt
			var text strings.Builder
			for _, path := range []string{"/a", "/b"} {
				if path == "/b" && rapid.Bool().Draw(t, "one-route-only") {
					continue
				}
				skip := rapid.Bool().Draw(t, "tlsskipverify")
				host := rapid.SampledFrom([]string{"example.com", "example.com", "other.example"}).Draw(t, "host-option")
				opts := "host=" + host
				if skip {
					opts += " tlsskipverify=true"
				}
				fmt.Fprintf(&text, "route add svc%s %s https://%s opts %q\n", path[1:], path, upAddr, opts)
				rts = append(rts, rt{path, skip})
			}
			tbl, err := route.NewTable(bytes.NewBufferString(text.String()))
			if err != nil {
				t.Fatalf("%v\n%s", err, text.String())
			}
			route.SetTable(tbl)
			hist = append(hist, fmt.Sprintf("table %d: %s", g, strings.ReplaceAll(strings.TrimSpace(text.String()), "\n", " ; ")))
			for _, r := range rts {
				req := httptest.NewRequest("GET", "http://front.example"+r.path+"/x", nil)
				req.RemoteAddr = "192.0.2.1:999"
				rec := httptest.NewRecorder()
				p.ServeHTTP(rec, req)
				hx.Eval()
				// the upstream's certificate is self-signed: without tlsskipverify the exchange fails
				// (fabio answers with a 5xx of its own), with it the upstream's answer comes through
				ok := rec.Code >= 500
				want := "a 5xx"
				if r.skip {
					ok, want = rec.Code == 200 && rec.Body.String() == "secure-upstream", "200"
				}
				if !ok {
					t.Fatalf("request for %s answered %d, want %s (the route of the active table says tlsskipverify=%v; the upstream presents a self-signed certificate)\n%s", r.path, rec.Code, want, r.skip, strings.Join(hist, "\n"))
				}
			}
		}
		hx.NonTrivial(strings.Join(hist, "|"))
		hx.Class("per-route-transport-history")
	})
}
