package c06

import (
	"bytes"
	"fmt"
	"io"
	"net/http"
	"net/http/httptest"
	"net/url"
	"os"
	"runtime"
	"strings"
	"sync"
	"sync/atomic"
	"testing"
	"time"

	"github.com/fabiolb/fabio/proxy"
	"github.com/fabiolb/fabio/route"
	"pgregory.net/rapid"

	"verifharness/hx"
	"verifharness/observe"
	"verifharness/wire"
)

func TestMain(m *testing.M) { wire.Init(true); hx.Main(m) }

// All tests in this package run under the race detector; a race report is a
// violation (the driver sets GORACE=halt_on_error).

type firstErr struct{ v atomic.Value }

func (f *firstErr) set(format string, a ...any) { f.v.CompareAndSwap(nil, fmt.Sprintf(format, a...)) }
func (f *firstErr) get() string {
	if s, ok := f.v.Load().(string); ok {
		return s
	}
	return ""
}

func run(G int, fn func(g int)) {
	var wg sync.WaitGroup
	start := make(chan struct{})
	for g := 0; g < G; g++ {
		wg.Add(1)
		go func(g int) {
			defer wg.Done()
			<-start
			fn(g)
		}(g)
	}
	close(start)
	done := make(chan struct{})
	go func() { wg.Wait(); close(done) }()
	select {
	case <-done:
	case <-time.After(60 * time.Second):
		// nothing in these workloads waits for anything but the code under test; the process ends
		// here (a panic would make the property library re-run the hanging case over and over)
		fmt.Println("--- FAIL: concurrent workload (watchdog)")
		fmt.Println("    concurrent lookups / requests did not return within 60s: something they call blocks for ever")
		buf := make([]byte, 1<<16)
		fmt.Printf("%s\n", buf[:runtime.Stack(buf, true)])
		os.Exit(1)
	}
}

// ---------------------------------------------------------------------------
// (iii) round robin hands every target its exact share under any interleaving

func TestC06RoundRobinExactShares(t *testing.T) {
	hx.Check(t, hx.Scale(30, 300), func(t *rapid.T) {
		n := rapid.IntRange(2, 12).Draw(t, "ntargets")
		// equal weights give a ring of n slots: the cursor wraps around all the time
		equal := rapid.IntRange(0, 2).Draw(t, "equalweights") == 0
		var cfg strings.Builder
		idx := make([]int, n)
		for i := range idx {
			idx[i] = i
		}
		idx = rapid.Permutation(idx).Draw(t, "targetorder") // registration order is not alphabetical order
		watched := rapid.Bool().Draw(t, "admin-endpoints-read-the-table-meanwhile")
		for _, i := range idx {
			fmt.Fprintf(&cfg, "route add svc /p http://t%d:80/", i)
			k := rapid.IntRange(0, 3).Draw(t, "wkind")
			if equal {
				k = 3
			}
			switch k {
			case 0:
				fmt.Fprintf(&cfg, " weight %.4f", float64(rapid.IntRange(1, 3000).Draw(t, "w"))/10000)
			case 1:
				fmt.Fprintf(&cfg, " weight %.2f", float64(rapid.IntRange(1, 40).Draw(t, "w2"))/100)
			}
			cfg.WriteString("\n")
		}
		seqT, err := route.NewTable(bytes.NewBufferString(cfg.String()))
		if err != nil {
			t.Fatal(err)
		}
		conT, _ := route.NewTable(bytes.NewBufferString(cfg.String()))
		G := rapid.IntRange(2, 32).Draw(t, "goroutines")
		per := rapid.IntRange(200, hx.Pick(3000, 20000)).Draw(t, "per")
		L := G * per
		lookup := func(tbl route.Table, cache *route.GlobCache) string {
			req := &http.Request{Host: "h.example", URL: &url.URL{Path: "/p/x"}, Header: http.Header{}}
			tg := tbl.Lookup(req, "", route.Picker["rr"], route.Matcher["prefix"], cache, false)
			if tg == nil {
				return ""
			}
			return tg.URL.Host
		}
		want := map[string]int{}
		c0 := route.NewGlobCache(10)
		for i := 0; i < L; i++ {
			want[lookup(seqT, c0)]++
		}
		counts := make([]map[string]int, G)
		cache := route.NewGlobCache(10)
		run(G, func(g int) {
			m := map[string]int{}
			for i := 0; i < per; i++ {
				if watched && g == 0 && i%97 == 13 {
					observe.Poke(conT) // the admin UI / API lists the table while requests are routed from it
				}
				m[lookup(conT, cache)]++
			}
			counts[g] = m
		})
		if watched {
			hx.Class("rr-twin-table:admin-endpoints-reading-meanwhile")
		}
		got := map[string]int{}
		for _, m := range counts {
			for k, v := range m {
				got[k] += v
			}
		}
		hx.EvalN(L)
		for k, w := range want {
			if got[k] != w {
				t.Fatalf("%d lookups by %d goroutines: target %s picked %d times, %d times sequentially (round robin lost or duplicated slots)\n%s", L, G, k, got[k], w, cfg.String())
			}
		}
		if got[""] != 0 || len(got) != len(want) {
			t.Fatalf("concurrent lookups returned targets %v, sequential %v", got, want)
		}
		hx.NonTrivial(fmt.Sprintf("rr|%s|%d|%d", cfg.String(), G, per))
		hx.Class("rr-twin-table")
		if hx.WantSample("rr") {
			hx.Sample("rr", map[string]any{"routes": strings.Split(strings.TrimSpace(cfg.String()), "\n"), "goroutines": G, "lookups": L, "per_target": got})
		}
	})
}

// ---------------------------------------------------------------------------
// (ii) glob host cache beyond its size: bounded, never fails a lookup

func TestC06GlobCacheUnderEviction(t *testing.T) {
	hx.Check(t, hx.Scale(30, 300), func(t *rapid.T) {
		size := rapid.IntRange(1, 8).Draw(t, "cachesize")
		nhosts := rapid.IntRange(size+1, size+12).Draw(t, "nhosts")
		var cfg strings.Builder
		for i := 0; i < nhosts; i++ {
			fmt.Fprintf(&cfg, "route add s%d *.h%d.example/ http://t%d:80/\n", i, i, i)
		}
		// some tables also carry host patterns that are no valid globs (they are compared literally):
		// those, too, must not make the cache outgrow its size
		nbad := rapid.SampledFrom([]int{0, 0, 1, 3, 6}).Draw(t, "hosts-that-are-no-valid-patterns")
		for i := 0; i < nbad; i++ {
			fmt.Fprintf(&cfg, "route add bad%d %s%d.example/ http://bad%d:80/\n", i, []string{"[bad", "{a,b", "x[!"}[i%3], i, i)
		}
		if nbad > 0 {
			hx.Class("glob-cache-eviction:table-with-invalid-host-patterns")
		}
		cfg.WriteString("route add fallback / http://fallback:80/\n")
		tbl, err := route.NewTable(bytes.NewBufferString(cfg.String()))
		if err != nil {
			t.Fatal(err)
		}
		cache := route.NewGlobCache(size)
		G := rapid.IntRange(2, 32).Draw(t, "goroutines")
		per := hx.Pick(400, 3000)
		var fe firstErr
		// the workload runs in phases; the number of cached patterns is read
		// between phases, when no lookup is in flight (a Range over the map
		// during an eviction can see the old and the new entry)
		const phases = 8
		maxLen := 0
		for ph := 0; ph < phases && fe.get() == ""; ph++ {
			run(G, func(g int) {
				for i := ph * per / phases; i < (ph+1)*per/phases && fe.get() == ""; i++ {
					k := (g*7 + i) % (nhosts + 1)
					host, want := fmt.Sprintf("x%d.h%d.example", g, k), fmt.Sprintf("t%d:80", k)
					if k == nhosts {
						host, want = "nomatch.example.org", "fallback:80"
					}
					req := &http.Request{Host: host, URL: &url.URL{Path: "/"}, Header: http.Header{}}
					tg := tbl.Lookup(req, "", route.Picker["rr"], route.Matcher["prefix"], cache, false)
					if tg == nil || tg.URL.Host != want {
						fe.set("goroutine %d: lookup of %s answered %v, want %s", g, host, tg, want)
						return
					}
				}
			})
			if n := cache.VerifLen(); n > maxLen {
				maxLen = n
			}
		}
		hx.EvalN(G * per)
		if e := fe.get(); e != "" {
			t.Fatalf("%s\ncache size %d, %d host patterns, %d goroutines", e, size, nhosts, G)
		}
		if maxLen > size {
			t.Fatalf("glob cache holds %d patterns between two phases of the workload, configured size %d; %d host patterns, %d goroutines", maxLen, size, nhosts, G)
		}
		hx.NonTrivial(fmt.Sprintf("glob|%d|%d|%d", size, nhosts, G))
		hx.Class("glob-cache-eviction")
	})
}

// ---------------------------------------------------------------------------
// (i)+(v) through the HTTP handler: redirect location and access decision
// depend on the own request only; (iv) while the table is being replaced

type countingRT struct{ hits int64 }

func (c *countingRT) RoundTrip(r *http.Request) (*http.Response, error) {
	atomic.AddInt64(&c.hits, 1)
	return &http.Response{StatusCode: 200, Proto: "HTTP/1.1", ProtoMajor: 1, ProtoMinor: 1, Header: http.Header{"X-Upstream": {r.URL.Host}}, Body: io.NopCloser(strings.NewReader("ok")), ContentLength: 2, Request: r}, nil
}

func TestC06HandlerIsolation(t *testing.T) {
	hx.Check(t, hx.Scale(25, 250), func(t *rapid.T) {
		nApps := rapid.IntRange(1, 4).Draw(t, "napps")
		text := func(gen int) string {
			var b strings.Builder
			b.WriteString("route add redir r.example/ https://$host$path opts \"redirect=301\"\n")
			b.WriteString("route add redir2 r.example/keep http://fixed.example/base$path opts \"redirect=302 strip=/keep\"\n")
			b.WriteString("route add redir3 *.rh.example/ https://$host/landing opts \"redirect=307\"\n")
			b.WriteString("route add acl a.example/ http://acl-up:80/ opts \"allow=ip:10.0.0.0/8,ip:2001:db8::/32\"\n")
			b.WriteString("route add dny d.example/ http://dny-up:80/ opts \"deny=ip:10.0.0.0/8\"\n")
			for i := 0; i < nApps; i++ {
				fmt.Fprintf(&b, "route add app%d app.example/ http://app%d-gen%d:80/\n", i, i, gen)
			}
			return b.String()
		}
		t0, err := route.NewTable(bytes.NewBufferString(text(0)))
		if err != nil {
			t.Fatal(err)
		}
		var cur atomic.Value
		cur.Store(t0)
		cache := route.NewGlobCache(rapid.IntRange(1, 4).Draw(t, "cachesize"))
		rt := &countingRT{}
		p := &proxy.HTTPProxy{
			Stats:     wire.Stats(),
			Transport: rt,
			Lookup: func(r *http.Request) *route.Target {
				return cur.Load().(route.Table).Lookup(r, "", route.Picker["rr"], route.Matcher["prefix"], cache, false)
			},
		}
		G := rapid.IntRange(2, 32).Draw(t, "goroutines")
		per := hx.Pick(300, 2500)
		withWriter := rapid.Bool().Draw(t, "writer")
		var stop int32
		var wwg sync.WaitGroup
		if withWriter {
			wwg.Add(1)
			go func() {
				defer wwg.Done()
				for g := 1; atomic.LoadInt32(&stop) == 0; g++ {
					tb, err := route.NewTable(bytes.NewBufferString(text(g)))
					if err == nil {
						cur.Store(tb)
					}
				}
			}()
		}
		var fe firstErr
		var overlapped int64
		var inflight int64
		run(G, func(g int) {
			for i := 0; i < per && fe.get() == ""; i++ {
				if atomic.AddInt64(&inflight, 1) > 1 {
					atomic.AddInt64(&overlapped, 1)
				}
				kind := (g + i) % 6
				rec := httptest.NewRecorder()
				switch kind {
				case 0: // $host$path redirect
					path := fmt.Sprintf("/g%d/i%d/a%%2Fb", g, i)
					req := httptest.NewRequest("GET", "http://r.example"+path, nil)
					req.RemoteAddr = "192.0.2.1:1"
					p.ServeHTTP(rec, req)
					if want := "https://r.example" + path; rec.Code != 301 || rec.Header().Get("Location") != want {
						fe.set("goroutine %d: redirect answered %d Location %q, want 301 %q (somebody else's request?)", g, rec.Code, rec.Header().Get("Location"), want)
					}
				case 1: // strip + fixed host redirect with query
					path := fmt.Sprintf("/keep/g%d-%d", g, i)
					req := httptest.NewRequest("GET", "http://r.example"+path+fmt.Sprintf("?q=%d", g), nil)
					req.RemoteAddr = "192.0.2.1:1"
					p.ServeHTTP(rec, req)
					if want := fmt.Sprintf("http://fixed.example/base/g%d-%d?q=%d", g, i, g); rec.Code != 302 || rec.Header().Get("Location") != want {
						fe.set("goroutine %d: redirect answered %d Location %q, want 302 %q", g, rec.Code, rec.Header().Get("Location"), want)
					}
				case 5: // $host without $path: still depends on the request
					host := fmt.Sprintf("g%d.rh.example", g)
					req := httptest.NewRequest("GET", "http://"+host+"/whatever", nil)
					req.RemoteAddr = "192.0.2.1:1"
					p.ServeHTTP(rec, req)
					if want := "https://" + host + "/landing"; rec.Code != 307 || rec.Header().Get("Location") != want {
						fe.set("goroutine %d: $host redirect answered %d Location %q, want 307 %q", g, rec.Code, rec.Header().Get("Location"), want)
					}
				case 2: // allow list: even goroutines are inside
					req := httptest.NewRequest("GET", "http://a.example/x", nil)
					want := 403
					if g%2 == 0 {
						req.RemoteAddr, want = fmt.Sprintf("10.1.%d.%d:99", g, i%250), 200
					} else {
						req.RemoteAddr = fmt.Sprintf("11.1.%d.%d:99", g, i%250)
					}
					p.ServeHTTP(rec, req)
					if rec.Code != want {
						fe.set("goroutine %d: peer %s on the allow route answered %d, want %d", g, req.RemoteAddr, rec.Code, want)
					}
				case 3: // deny list with X-Forwarded-For
					req := httptest.NewRequest("GET", "http://d.example/x", nil)
					req.RemoteAddr = "192.0.2.9:7"
					want := 200
					if g%2 == 1 {
						req.Header.Set("X-Forwarded-For", fmt.Sprintf("8.8.8.8, 10.2.%d.1", g))
						want = 403
					} else {
						req.Header.Set("X-Forwarded-For", "8.8.4.4")
					}
					p.ServeHTTP(rec, req)
					if rec.Code != want {
						fe.set("goroutine %d: deny route with XFF %q answered %d, want %d", g, req.Header.Get("X-Forwarded-For"), rec.Code, want)
					}
				default: // plain app route: any app target of a single generation
					req := httptest.NewRequest("GET", "http://app.example/x", nil)
					req.RemoteAddr = "192.0.2.1:1"
					p.ServeHTTP(rec, req)
					if up := rec.Header().Get("X-Upstream"); rec.Code != 200 || !strings.HasPrefix(up, "app") {
						fe.set("goroutine %d: app route answered %d upstream %q", g, rec.Code, up)
					}
				}
				atomic.AddInt64(&inflight, -1)
			}
		})
		atomic.StoreInt32(&stop, 1)
		wwg.Wait()
		hx.EvalN(G * per)
		if e := fe.get(); e != "" {
			t.Fatalf("%s\n%d goroutines, table writer=%v", e, G, withWriter)
		}
		if overlapped > 0 {
			hx.NonTrivial(fmt.Sprintf("iso|%d|%d|%v|%d", nApps, G, withWriter, per))
			hx.Class("overlapping-requests-observed")
		}
		if withWriter {
			hx.Class("with-table-writer")
		}
	})
}

// ---------------------------------------------------------------------------
// Table.Lookup directly: the redirect URL a lookup returns is the one of its own request

func TestC06LookupRedirectOwnership(t *testing.T) {
	hx.Check(t, hx.Scale(30, 300), func(t *rapid.T) {
		tbl, err := route.NewTable(bytes.NewBufferString("route add r / https://$host/pre$path opts \"redirect=308\"\n"))
		if err != nil {
			t.Fatal(err)
		}
		G := rapid.IntRange(2, 32).Draw(t, "goroutines")
		per := hx.Pick(2000, 20000)
		cache := route.NewGlobCache(3)
		var fe firstErr
		run(G, func(g int) {
			host := fmt.Sprintf("h%d.example", g)
			for i := 0; i < per && fe.get() == ""; i++ {
				path := fmt.Sprintf("/g%d/%d", g, i)
				req := &http.Request{Host: host, URL: &url.URL{Path: path}, Header: http.Header{}}
				tg := tbl.Lookup(req, "", route.Picker["rnd"], route.Matcher["prefix"], cache, false)
				if tg == nil || tg.RedirectURL == nil {
					fe.set("no redirect target")
					return
				}
				if got, want := tg.RedirectURL.String(), "https://"+host+"/pre"+path; got != want {
					fe.set("goroutine %d: lookup for %s%s returned redirect %q", g, host, path, got)
					return
				}
			}
		})
		hx.EvalN(G * per)
		if e := fe.get(); e != "" {
			t.Fatalf("%s", e)
		}
		hx.NonTrivial(fmt.Sprintf("own|%d", G))
		hx.Class("lookup-redirect-ownership")
	})
}
