package c06

import (
	"bytes"
	"fmt"
	"net/http"
	"net/url"
	"strings"
	"testing"

	"github.com/fabiolb/fabio/route"
	"pgregory.net/rapid"

	"verifharness/hx"
)

// The first lookups on a table that has just been installed arrive together,
// for each of the three matchers.  Every answer must be the one a sequential
// lookup on a twin table gives; under the race detector anything a matcher
// writes into the shared table on first use shows up as well.
func TestC06FirstLookupsOnFreshTable(t *testing.T) {
	hx.Check(t, hx.Scale(60, 600), func(t *rapid.T) {
		matcher := rapid.SampledFrom([]string{"iprefix", "glob", "prefix"}).Draw(t, "matcher")
		nroutes := rapid.IntRange(1, 6).Draw(t, "routes")
		var cfg strings.Builder
		var reqPaths []string
		for i := 0; i < nroutes; i++ {
			var p string
			switch matcher {
			case "glob":
				p = fmt.Sprintf("/app%d/*", i)
				reqPaths = append(reqPaths, fmt.Sprintf("/app%d/x/y", i))
			case "iprefix":
				p = fmt.Sprintf("/App%d/Sub", i)
				reqPaths = append(reqPaths, fmt.Sprintf("/app%d/sub/x", i), fmt.Sprintf("/APP%d/SUB", i))
			default:
				p = fmt.Sprintf("/app%d", i)
				reqPaths = append(reqPaths, fmt.Sprintf("/app%d/x", i))
			}
			fmt.Fprintf(&cfg, "route add s%d %s http://t%d:80/\n", i, p, i)
		}
		reqPaths = append(reqPaths, "/unrouted")
		mk := func() route.Table {
			tbl, err := route.NewTable(bytes.NewBufferString(cfg.String()))
			if err != nil {
				t.Fatalf("%v\n%s", err, cfg.String())
			}
			return tbl
		}
		answer := func(tbl route.Table, cache *route.GlobCache, p string) string {
			req := &http.Request{Host: "h.example", URL: &url.URL{Path: p}, Header: http.Header{}}
			tg := tbl.Lookup(req, "", route.Picker["rr"], route.Matcher[matcher], cache, false)
			if tg == nil {
				return "<none>"
			}
			return tg.URL.Host
		}
		twin := mk()
		want := map[string]string{}
		seqCache := route.NewGlobCache(100)
		for _, p := range reqPaths {
			want[p] = answer(twin, seqCache, p)
		}
		G := rapid.IntRange(2, 16).Draw(t, "goroutines")
		rounds := rapid.IntRange(1, 3).Draw(t, "tables")
		for r := 0; r < rounds; r++ {
			fresh := mk() // nothing has been looked up on this table yet
			cache := route.NewGlobCache(100)
			var fe firstErr
			run(G, func(g int) {
				for i := 0; i < 40 && fe.get() == ""; i++ {
					p := reqPaths[(g+i)%len(reqPaths)]
					if got := answer(fresh, cache, p); got != want[p] {
						fe.set("goroutine %d: %s matcher, path %s answered %s, sequentially %s", g, matcher, p, got, want[p])
					}
				}
			})
			hx.EvalN(G * 40)
			if e := fe.get(); e != "" {
				t.Fatalf("%s\n%s", e, cfg.String())
			}
		}
		hx.Class("first-lookups:" + matcher)
		hx.NonTrivial(fmt.Sprintf("fresh|%s|%d|%d|%d", matcher, nroutes, G, rounds))
	})
}
