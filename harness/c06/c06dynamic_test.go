package c06

import (
	"bytes"
	"fmt"
	"io"
	"net"
	"sync/atomic"
	"testing"
	"time"

	"github.com/fabiolb/fabio/proxy/tcp"
	"github.com/fabiolb/fabio/route"
	"pgregory.net/rapid"

	"verifharness/hx"
)

type localConn struct {
	local net.Addr
}

func (c *localConn) Read([]byte) (int, error)         { return 0, io.EOF }
func (c *localConn) Write(p []byte) (int, error)      { return len(p), nil }
func (c *localConn) Close() error                     { return nil }
func (c *localConn) LocalAddr() net.Addr              { return c.local }
func (c *localConn) RemoteAddr() net.Addr             { return &net.TCPAddr{IP: net.IPv4(192, 0, 2, 1), Port: 4711} }
func (c *localConn) SetDeadline(time.Time) error      { return nil }
func (c *localConn) SetReadDeadline(time.Time) error  { return nil }
func (c *localConn) SetWriteDeadline(time.Time) error { return nil }

// The only shared effect of serving a connection is advancing the load balancing of the route
// that serves it.  On a dynamic TCP listener a port may have a route for one local address
// (ip:port) and one for the port as such (:port): connections served by the first do not use up
// places in the cycle of the second, however the two kinds of connection are interleaved.
func TestC06DynamicProxyAdvancesOnlyTheRouteItUses(t *testing.T) {
	var hits [3]int64
	var ups []net.Listener
	for i := range hits {
		ln, err := hx.Listen("tcp", "127.0.0.1:0")
		if err != nil {
			t.Fatalf("VERIF-INCONCLUSIVE %v", err)
		}
		defer ln.Close()
		ups = append(ups, ln)
		go func(i int) {
			for {
				c, err := ln.Accept()
				if err != nil {
					return
				}
				atomic.AddInt64(&hits[i], 1)
				c.Close()
			}
		}(i)
	}
	hx.Check(t, hx.Scale(60, 600), func(t *rapid.T) {
		port := rapid.IntRange(20000, 29999).Draw(t, "port")
		text := fmt.Sprintf("route add byaddr 127.0.0.1:%d tcp://%s\nroute add byport :%d tcp://%s\nroute add byport :%d tcp://%s\n", port, ups[0].Addr(), port, ups[1].Addr(), port, ups[2].Addr())
		tbl, err := route.NewTable(bytes.NewBufferString(text))
		if err != nil {
			t.Fatalf("%v\n%s", err, text)
		}
		p := &tcp.DynamicProxy{DialTimeout: 2 * time.Second, Lookup: func(host string) *route.Target { return tbl.LookupHost(host, route.Picker["rr"]) }}
		for i := range hits {
			atomic.StoreInt64(&hits[i], 0)
		}
		cycles := rapid.IntRange(2, 6).Draw(t, "cycles")
		left := 2 * cycles // connections for the :port route
		nAddr := 0
		for left > 0 {
			if rapid.IntRange(0, 2).Draw(t, "connection-to-the-ip:port-route") > 0 {
				// (most connections: so that they fall between the others)
				p.ServeTCP(&localConn{local: &net.TCPAddr{IP: net.IPv4(127, 0, 0, 1), Port: port}})
				nAddr++
				if nAddr > 6*cycles {
					break
				}
				continue
			}
			p.ServeTCP(&localConn{local: &net.TCPAddr{IP: net.IPv4(127, 0, 0, 2), Port: port}})
			left--
		}
		for left > 0 {
			p.ServeTCP(&localConn{local: &net.TCPAddr{IP: net.IPv4(127, 0, 0, 2), Port: port}})
			left--
		}
		time.Sleep(5 * time.Millisecond)
		hx.EvalN(2*cycles + nAddr)
		var got [3]int64
		deadline := time.Now().Add(2 * time.Second)
		for {
			for i := range got {
				got[i] = atomic.LoadInt64(&hits[i])
			}
			if got[0] == int64(nAddr) && got[1]+got[2] == int64(2*cycles) || time.Now().After(deadline) {
				break
			}
			time.Sleep(2 * time.Millisecond)
		}
		if got[0] != int64(nAddr) || got[1] != int64(cycles) || got[2] != int64(cycles) {
			t.Fatalf("%s%d connections to 127.0.0.1:%d (route byaddr) interleaved with %d whole cycles of connections to 127.0.0.2:%d (route byport, 2 equal targets): upstreams were reached %v times, want [%d %d %d]", text, nAddr, port, cycles, port, got, nAddr, cycles, cycles)
		}
		hx.Class("dynamic-proxy:ip:port-and-:port-routes-interleaved")
		hx.NonTrivial(fmt.Sprintf("dyn|%d|%d", cycles, nAddr))
	})
}
