package c09

import (
	"bufio"
	"fmt"
	"net"
	"net/url"
	"testing"
	"time"

	"github.com/fabiolb/fabio/config"
	"github.com/fabiolb/fabio/proxy"
	"github.com/fabiolb/fabio/proxy/tcp"
	"github.com/fabiolb/fabio/route"
	"pgregory.net/rapid"

	"verifharness/hx"
)

// A one-way stream: the client says what it wants and then only listens while the upstream keeps
// sending for longer than any of the listener's timeouts (rt / wt / it, given the way an operator
// gives them: in proxy.addr).  Everything the upstream sends arrives.
func TestC09OneWayStreamOutlastsListenerTimeouts(t *testing.T) {
	hx.Check(t, hx.Scale(3, 24), func(t *rapid.T) {
		lines := 10
		gap := 120 * time.Millisecond
		up, err := hx.Listen("tcp", "127.0.0.1:0")
		if err != nil {
			t.Fatalf("VERIF-INCONCLUSIVE %v", err)
		}
		defer up.Close()
		go func() {
			for {
				c, err := up.Accept()
				if err != nil {
					return
				}
				go func() {
					defer c.Close()
					buf := make([]byte, 64)
					c.Read(buf)
					for i := 0; i < lines; i++ {
						fmt.Fprintf(c, "line %d\n", i)
						time.Sleep(gap)
					}
				}()
			}
		}()
		addr := hx.FreeAddr()
		// (the small end of the draws: only it= is set)
		opts := ";proto=tcp"
		if rapid.IntRange(0, 3).Draw(t, "no-it") != 3 {
			opts += ";it=300ms"
		}
		if rapid.IntRange(0, 3).Draw(t, "with-wt") == 3 {
			opts += ";wt=5s"
		}
		cfg, err := config.Load([]string{"fabio", "-proxy.addr", addr + opts}, nil)
		if err != nil {
			t.Fatalf("config rejected: %v", err)
		}
		tg := &route.Target{Service: "svc", URL: &url.URL{Scheme: "tcp", Host: up.Addr().String()}}
		go proxy.ListenAndServeTCP(cfg.Listen[0], &tcp.Proxy{Lookup: func(string) *route.Target { return tg }, DialTimeout: 2 * time.Second}, nil)
		var c net.Conn
		for i := 0; i < 400; i++ {
			if c, err = net.DialTimeout("tcp", addr, 100*time.Millisecond); err == nil {
				break
			}
			time.Sleep(5 * time.Millisecond)
		}
		if err != nil {
			t.Fatalf("VERIF-INCONCLUSIVE listener did not come up: %v", err)
		}
		defer c.Close()
		c.SetDeadline(time.Now().Add(20 * time.Second))
		fmt.Fprint(c, "subscribe\n")
		got := 0
		sc := bufio.NewScanner(c)
		for sc.Scan() {
			got++
		}
		hx.Eval()
		if got != lines {
			t.Fatalf("proxy.addr %q: the upstream sent %d lines over %v while the client only listened; the client received %d (%v)", addr+opts, lines, time.Duration(lines)*gap, got, sc.Err())
		}
		hx.Class("one-way-stream-longer-than-the-listener-timeouts")
		hx.NonTrivial("oneway|" + opts)
	})
}
