package c09

import (
	"bytes"
	"context"
	"crypto/tls"
	"io"
	"net"
	"net/http"
	"net/url"
	"testing"
	"time"

	"github.com/fabiolb/fabio/config"
	"github.com/fabiolb/fabio/proxy"
	"github.com/fabiolb/fabio/proxy/tcp"
	"github.com/fabiolb/fabio/route"

	"verifharness/hx"
)

// A tunnel on the shared port of an https+tcp+sni listener (no rt= / wt= on the listener) that
// says nothing for more than ten seconds is still there afterwards: bytes sent then arrive, in
// both directions.  (One tunnel per process, on the first shard only: it takes 11 s.)
func TestC09TunnelOutlivesALongSilence(t *testing.T) {
	if hx.Shard() != 0 {
		t.Skip("first shard only")
	}
	up, err := hx.Listen("tcp", "127.0.0.1:0")
	if err != nil {
		t.Fatalf("VERIF-INCONCLUSIVE %v", err)
	}
	defer up.Close()
	go func() {
		for {
			c, err := up.Accept()
			if err != nil {
				return
			}
			go func() { io.Copy(c, c); c.Close() }()
		}
	}()
	addr := hx.FreeAddr()
	tg := &route.Target{Service: "svc", URL: &url.URL{Scheme: "tcp", Host: up.Addr().String()}}
	go proxy.ListenAndServeHTTPSTCPSNI(config.Listen{Addr: addr, Proto: "https+tcp+sni"}, http.NotFoundHandler(),
		&tcp.SNIProxy{Lookup: func(string) *route.Target { return tg }, DialTimeout: 2 * time.Second},
		&tls.Config{Certificates: []tls.Certificate{tunnelCert()}}, func(context.Context, string) bool { return true })
	var c net.Conn
	for i := 0; i < 400; i++ {
		if c, err = net.DialTimeout("tcp", addr, 100*time.Millisecond); err == nil {
			break
		}
		time.Sleep(5 * time.Millisecond)
	}
	if err != nil {
		t.Fatalf("VERIF-INCONCLUSIVE listener did not come up: %v", err)
	}
	defer c.Close()
	hello := clientHello("quiet.example.com", true)
	c.SetDeadline(time.Now().Add(30 * time.Second))
	c.Write(hello)
	back := make([]byte, len(hello))
	if _, err := io.ReadFull(c, back); err != nil || !bytes.Equal(back, hello) {
		t.Fatalf("VERIF-INCONCLUSIVE the tunnel did not carry the hello to the echoing upstream and back: %v", err)
	}
	time.Sleep(10500 * time.Millisecond)
	for i := 0; i < 2; i++ {
		msg := []byte("after-the-silence")
		if _, err := c.Write(msg); err != nil {
			t.Fatalf("write on a tunnel that was silent for 10.5 s: %v", err)
		}
		got := make([]byte, len(msg))
		if _, err := io.ReadFull(c, got); err != nil || !bytes.Equal(got, msg) {
			t.Fatalf("a tunnel through the shared port of an https+tcp+sni listener (no rt=) was silent for 10.5 s; the round trip after that failed: %v (got %q)", err, got)
		}
		time.Sleep(300 * time.Millisecond)
	}
	hx.Eval()
	hx.Class("tunnel-silent-for-10s-on-the-shared-port")
	hx.NonTrivial("long-silence")
}
