package c09

import (
	"bufio"
	"bytes"
	"crypto/ecdsa"
	"crypto/elliptic"
	crand "crypto/rand"
	"crypto/tls"
	"crypto/x509"
	"crypto/x509/pkix"
	"fmt"
	"io"
	"math/big"
	"math/rand"
	"net"
	"net/http"
	"net/http/httptest"
	"net/url"
	"runtime"
	"strings"
	"sync"
	"testing"
	"time"

	"github.com/fabiolb/fabio/config"
	"github.com/fabiolb/fabio/proxy"
	"github.com/fabiolb/fabio/proxy/tcp"
	"github.com/fabiolb/fabio/route"
	"pgregory.net/rapid"

	"verifharness/hx"
)

func TestMain(m *testing.M) { hx.Main(m) }

const ioTimeout = 8 * time.Second

// haveV6: the sandbox has an IPv6 loopback
var haveV6 = func() bool {
	ln, err := net.Listen("tcp", "[::1]:0")
	if err != nil {
		return false
	}
	ln.Close()
	return true
}()

// ---------------------------------------------------------------------------
// ClientHello from crypto/tls

type captureConn struct{ w bytes.Buffer }

func (c *captureConn) Read(p []byte) (int, error)       { return 0, io.EOF }
func (c *captureConn) Write(p []byte) (int, error)      { return c.w.Write(p) }
func (c *captureConn) Close() error                     { return nil }
func (c *captureConn) LocalAddr() net.Addr              { return &net.TCPAddr{} }
func (c *captureConn) RemoteAddr() net.Addr             { return &net.TCPAddr{} }
func (c *captureConn) SetDeadline(time.Time) error      { return nil }
func (c *captureConn) SetReadDeadline(time.Time) error  { return nil }
func (c *captureConn) SetWriteDeadline(time.Time) error { return nil }

func clientHello(name string, small bool) []byte { return clientHelloN(name, small, 0) }

// clientHelloN: alpn > 0 adds that many 200-byte ALPN protocol names (a hello
// of several KiB, still one TLS record).
func clientHelloN(name string, small bool, alpn int) []byte {
	cc := &captureConn{}
	cfg := &tls.Config{ServerName: name, InsecureSkipVerify: true}
	if small {
		cfg.CurvePreferences = []tls.CurveID{tls.X25519}
	}
	for i := 0; i < alpn; i++ {
		cfg.NextProtos = append(cfg.NextProtos, fmt.Sprintf("proto-%03d-", i)+strings.Repeat("x", 190))
	}
	tls.Client(cc, cfg).Handshake()
	b := cc.w.Bytes()
	n := int(b[3])<<8 | int(b[4])
	return append([]byte(nil), b[:5+n]...)
}

var (
	certOnce sync.Once
	theCert  tls.Certificate
)

func tunnelCert() tls.Certificate {
	certOnce.Do(func() {
		key, err := ecdsa.GenerateKey(elliptic.P256(), crand.Reader)
		if err != nil {
			panic(err)
		}
		tmpl := &x509.Certificate{SerialNumber: big.NewInt(9), Subject: pkix.Name{CommonName: "c09"}, NotBefore: time.Now().Add(-time.Hour), NotAfter: time.Now().Add(24 * time.Hour)}
		der, err := x509.CreateCertificate(crand.Reader, tmpl, tmpl, &key.PublicKey, key)
		if err != nil {
			panic(err)
		}
		theCert = tls.Certificate{Certificate: [][]byte{der}, PrivateKey: key}
	})
	return theCert
}

// ---------------------------------------------------------------------------
// a generated tunnel

type tunnel struct {
	kind        string // tcp, sni, dynamic, ws
	pxyproto    bool
	recMinor    byte // minor version in the record header of the hello (0 = as crypto/tls writes it: 3.1)
	byOption    bool // the route is marked TCP by its option proto=tcp (destination written with another scheme), not by a tcp:// destination
	mode        string // both-finish-upstream-closes, both-finish-client-closes, client-only, upstream-only, half-close
	client      []byte // application bytes the client sends (after the hello on sni)
	upstream    []byte
	cseg, useg  []int // write sizes
	cyield      []bool
	uyield      []bool
	withHello   int // sni: number of client bytes sent in the same write as the ClientHello
	sniName     string
	smallHello  bool
	alpn        int  // sni: number of 200-byte ALPN names in the hello (0-40: hello up to ~9 KiB)
	eofWithData bool // stub kind: the last client chunk is returned together with io.EOF
	// long-lived tunnels: the writer of a direction goes quiet for 'pause' before
	// segment number cpauseAt / upauseAt (-1: never)
	cpauseAt, upauseAt int
	pause              time.Duration
	// listener option wt= (write timeout towards the client) without a read timeout: it limits
	// how long one write may block, not how long a side may stay quiet
	writeTimeout time.Duration
	v6           bool // the client connects over IPv6 (::1)
}

func genStream(t *rapid.T, label string, allowEmpty bool) []byte {
	var n int
	switch rapid.IntRange(0, 6).Draw(t, label+"class") {
	case 0:
		if allowEmpty {
			n = 0
		} else {
			n = 1
		}
	case 1, 2:
		n = rapid.IntRange(1, 512).Draw(t, label+"small")
	case 3:
		n = rapid.IntRange(513, 40000).Draw(t, label+"mid")
	case 4:
		n = rapid.SampledFrom([]int{32767, 32768, 32769, 65535, 65536, 65537, 4096}).Draw(t, label+"edge")
	default:
		n = rapid.IntRange(40001, hx.Pick(200000, 4<<20)).Draw(t, label+"large")
	}
	b := make([]byte, n)
	rand.New(rand.NewSource(rapid.Int64().Draw(t, label+"seed"))).Read(b) // deterministic expansion of a drawn seed
	return b
}

func genSegments(t *rapid.T, label string, total int) (sizes []int, yields []bool) {
	if total == 0 {
		return nil, nil
	}
	style := rapid.IntRange(0, 3).Draw(t, label+"style")
	left := total
	for left > 0 && len(sizes) < 64 {
		var s int
		switch style {
		case 0: // one write
			s = left
		case 1: // tiny writes
			s = rapid.IntRange(1, 16).Draw(t, label+"tiny")
		case 2: // around the 32 KiB copy buffer
			s = rapid.SampledFrom([]int{32767, 32768, 32769, 1, 16384, 65536}).Draw(t, label+"edge")
		default:
			s = rapid.IntRange(1, 70000).Draw(t, label+"any")
		}
		if s > left {
			s = left
		}
		sizes = append(sizes, s)
		yields = append(yields, rapid.IntRange(0, 3).Draw(t, label+"yield") == 0)
		left -= s
	}
	if left > 0 {
		sizes = append(sizes, left)
		yields = append(yields, false)
	}
	return
}

func genTunnel(t *rapid.T, kinds []string) tunnel {
	tn := tunnel{kind: rapid.SampledFrom(kinds).Draw(t, "kind"), cpauseAt: -1, upauseAt: -1}
	tn.mode = rapid.SampledFrom([]string{"both/upstream-closes", "both/client-closes", "client-only", "upstream-only", "half-close"}).Draw(t, "mode")
	tn.pxyproto = (tn.kind == "tcp" || tn.kind == "sni" || tn.kind == "tcp+tls") && rapid.Bool().Draw(t, "pxyproto")
	tn.v6 = tn.kind != "ws" && haveV6 && rapid.IntRange(0, 3).Draw(t, "ipv6-client") == 0
	tn.byOption = tn.kind != "ws" && rapid.IntRange(0, 2).Draw(t, "route-marked-tcp-by-option") == 0
	if tn.kind == "sni" {
		// some stacks write 3.3 (or 3.2) into the record header of their hello
		tn.recMinor = rapid.SampledFrom([]byte{0, 0, 3, 2, 3}).Draw(t, "hello-record-version-minor")
	}
	switch tn.mode {
	case "client-only":
		tn.client = genStream(t, "c", false)
	case "upstream-only":
		tn.upstream = genStream(t, "u", false)
	default:
		tn.client = genStream(t, "c", true)
		tn.upstream = genStream(t, "u", true)
	}
	if tn.kind == "tcp+tls" && len(tn.client) == 0 && len(tn.upstream) == 0 {
		// an upstream that hangs up without a byte ends the connection before the
		// (lazy) server-side TLS handshake: nothing to deliver, nothing to compare
		tn.upstream = []byte{0x42}
	}
	tn.cseg, tn.cyield = genSegments(t, "cs", len(tn.client))
	tn.useg, tn.uyield = genSegments(t, "us", len(tn.upstream))
	if tn.kind == "sni" {
		tn.sniName = rapid.SampledFrom([]string{"sni.example.com", "a.b.example.org", "UPPER.example.com"}).Draw(t, "sni")
		tn.smallHello = rapid.Bool().Draw(t, "smallhello")
		if rapid.IntRange(0, 3).Draw(t, "bighello") == 0 {
			tn.alpn = rapid.SampledFrom([]int{10, 19, 20, 21, 40}).Draw(t, "alpn")
		}
		if len(tn.client) > 0 && rapid.Bool().Draw(t, "withhello") {
			tn.withHello = rapid.IntRange(1, min(len(tn.client), 3000)).Draw(t, "k")
		}
	}
	return tn
}

func (tn tunnel) String() string {
	s := fmt.Sprintf("kind=%s pxyproto=%v mode=%s client=%dB segments=%v upstream=%dB segments=%v bytes-with-hello=%d alpn-names=%d", tn.kind, tn.pxyproto, tn.mode, len(tn.client), trunc(tn.cseg), len(tn.upstream), trunc(tn.useg), tn.withHello, tn.alpn)
	if tn.pause > 0 {
		s += fmt.Sprintf(" quiet-for=%v before client segment %d / upstream segment %d", tn.pause, tn.cpauseAt, tn.upauseAt)
	}
	if tn.writeTimeout > 0 {
		s += fmt.Sprintf(" listener-write-timeout=%v", tn.writeTimeout)
	}
	if tn.v6 {
		s += " client-over-ipv6"
	}
	return s
}

func trunc(a []int) []int {
	if len(a) > 12 {
		return append(append([]int{}, a[:12]...), -1)
	}
	return a
}

func writeSegments(c net.Conn, data []byte, sizes []int, yields []bool, pauseAt int, pause time.Duration) error {
	off := 0
	for i, s := range sizes {
		if i == pauseAt && pause > 0 {
			time.Sleep(pause)
		}
		if _, err := c.Write(data[off : off+s]); err != nil {
			return err
		}
		off += s
		if yields[i] {
			runtime.Gosched()
			time.Sleep(50 * time.Microsecond)
		}
	}
	return nil
}

// ---------------------------------------------------------------------------
// running one tunnel

type result struct {
	upstreamGot []byte
	clientGot   []byte
	errs        []string
	proxyLine   string
	lookups     []string
}

func runTunnel(tn tunnel) (res result) {
	var mu sync.Mutex
	fail := func(f string, a ...any) {
		mu.Lock()
		res.errs = append(res.errs, fmt.Sprintf(f, a...))
		mu.Unlock()
	}
	up, err := hx.Listen("tcp", "127.0.0.1:0")
	if err != nil {
		fail("listen: %v", err)
		return
	}
	defer up.Close()

	hello := []byte(nil)
	if tn.kind == "sni" {
		hello = clientHelloN(tn.sniName, tn.smallHello, tn.alpn)
		if tn.recMinor != 0 {
			hello[2] = tn.recMinor
		}
	}
	wantUp := len(hello) + len(tn.client) // application bytes the upstream should read (after the PROXY line)

	// ---- upstream script
	upDone := make(chan struct{})
	go func() {
		defer close(upDone)
		c, err := up.Accept()
		if err != nil {
			fail("upstream accept: %v", err)
			return
		}
		defer c.Close()
		c.SetDeadline(time.Now().Add(ioTimeout))
		br := bufio.NewReaderSize(c, 64*1024)
		if tn.pxyproto {
			line, err := br.ReadString('\n')
			if err != nil {
				fail("upstream: reading PROXY line: %v", err)
				return
			}
			mu.Lock()
			res.proxyLine = line
			mu.Unlock()
		}
		if tn.kind == "ws" {
			req, err := http.ReadRequest(br)
			if err != nil {
				fail("upstream: reading upgrade request: %v", err)
				return
			}
			_ = req
			if _, err := c.Write([]byte("HTTP/1.1 101 Switching Protocols\r\nUpgrade: websocket\r\nConnection: Upgrade\r\n\r\n")); err != nil {
				fail("upstream: writing 101: %v", err)
				return
			}
		}
		var got bytes.Buffer
		readN := func(n int) {
			if _, err := io.CopyN(&got, br, int64(n)); err != nil {
				fail("upstream: read %d of %d expected bytes: %v", got.Len(), n, err)
			}
		}
		readEOF := func() {
			if _, err := io.Copy(&got, br); err != nil {
				fail("upstream: read to EOF: %v (after %d bytes)", err, got.Len())
			}
		}
		switch tn.mode {
		case "both/upstream-closes":
			var wg sync.WaitGroup
			wg.Add(1)
			go func() { defer wg.Done(); readN(wantUp) }()
			if err := writeSegments(c, tn.upstream, tn.useg, tn.uyield, tn.upauseAt, tn.pause); err != nil {
				fail("upstream write: %v", err)
			}
			wg.Wait() // everything received: now the upstream finishes first
		case "both/client-closes":
			var wg sync.WaitGroup
			wg.Add(1)
			go func() { defer wg.Done(); readEOF() }()
			if err := writeSegments(c, tn.upstream, tn.useg, tn.uyield, tn.upauseAt, tn.pause); err != nil {
				fail("upstream write: %v", err)
			}
			wg.Wait()
		case "client-only":
			readEOF()
		case "upstream-only":
			if tn.kind == "sni" {
				readN(wantUp) // the hello has to arrive before anything is sent back
			}
			if err := writeSegments(c, tn.upstream, tn.useg, tn.uyield, tn.upauseAt, tn.pause); err != nil {
				fail("upstream write: %v", err)
			}
		case "half-close":
			readEOF()
			if err := writeSegments(c, tn.upstream, tn.useg, tn.uyield, tn.upauseAt, tn.pause); err != nil {
				fail("upstream write after the client's half-close: %v", err)
			}
		}
		mu.Lock()
		res.upstreamGot = got.Bytes()
		mu.Unlock()
	}()

	// ---- fabio in the middle
	// the target as the route language describes it
	var opts []string
	dst := "tcp://" + up.Addr().String()
	if tn.byOption {
		dst = "https://" + up.Addr().String()
		opts = append(opts, "proto=tcp")
	}
	if tn.pxyproto {
		opts = append(opts, "pxyproto=true")
	}
	line := "route add svc tunnel.example/ " + dst
	if len(opts) > 0 {
		line += ` opts "` + strings.Join(opts, " ") + `"`
	}
	tbl, terr := route.NewTable(bytes.NewBufferString(line))
	if terr != nil {
		fail("route rejected: %v: %s", terr, line)
		return
	}
	tg := tbl["tunnel.example"][0].Targets[0]
	lookup := func(h string) *route.Target {
		mu.Lock()
		res.lookups = append(res.lookups, h)
		mu.Unlock()
		return tg
	}
	var frontAddr string
	var closeFront func()
	if tn.kind == "ws" {
		tg.URL.Scheme = "http"
		// with proxy.dialtimeout configured or not: it limits the connect to the upstream, not the
		// life of the tunnel (the long-lived tunnels are quiet for longer than that)
		var pcfg config.Proxy
		if len(tn.client)%2 == 0 {
			pcfg.DialTimeout = 300 * time.Millisecond
		}
		srv := httptest.NewServer(&proxy.HTTPProxy{Config: pcfg, Transport: http.DefaultTransport, Lookup: func(*http.Request) *route.Target { return tg }})
		frontAddr, closeFront = srv.Listener.Addr().String(), srv.Close
	} else {
		laddr := "127.0.0.1:0"
		if tn.v6 {
			laddr = "[::1]:0"
		}
		ln, err := hx.Listen("tcp", laddr)
		if err != nil {
			fail("listen: %v", err)
			return
		}
		var h tcp.Handler
		switch tn.kind {
		case "tcp+tls": // TLS is terminated by the listener, the tunnel carries the plain text
			ln = tls.NewListener(ln, &tls.Config{Certificates: []tls.Certificate{tunnelCert()}})
			h = &tcp.Proxy{Lookup: lookup, DialTimeout: 5 * time.Second}
		case "tcp":
			h = &tcp.Proxy{Lookup: lookup, DialTimeout: 5 * time.Second}
		case "sni":
			h = &tcp.SNIProxy{Lookup: lookup, DialTimeout: 5 * time.Second}
		case "dynamic":
			h = &tcp.DynamicProxy{Lookup: lookup, DialTimeout: 5 * time.Second}
		}
		srv := &tcp.Server{Handler: h, WriteTimeout: tn.writeTimeout}
		go srv.Serve(ln)
		frontAddr, closeFront = ln.Addr().String(), func() { srv.Close() }
	}
	defer closeFront()

	// ---- client script
	// the client comes from another loopback address so that client and
	// server address are distinguishable in the PROXY line
	d := net.Dialer{LocalAddr: &net.TCPAddr{IP: net.IPv4(127, 0, 0, byte(2+len(tn.client)%5))}, Timeout: 5 * time.Second}
	if tn.v6 {
		d.LocalAddr = nil
	}
	c, err := d.Dial("tcp", frontAddr)
	if err != nil {
		c, err = net.Dial("tcp", frontAddr)
	}
	if err != nil {
		fail("client dial: %v", err)
		return
	}
	defer c.Close()
	c.SetDeadline(time.Now().Add(ioTimeout))
	rawConn := c
	type halfCloser interface{ CloseWrite() error }
	if tn.kind == "tcp+tls" {
		tc := tls.Client(c, &tls.Config{InsecureSkipVerify: true})
		if err := tc.Handshake(); err != nil {
			fail("client: TLS handshake with the listener: %v", err)
			return
		}
		c = tc
	}
	tc := c.(halfCloser)
	var clientIn io.Reader = c
	if tn.kind == "ws" {
		req := "GET /ws HTTP/1.1\r\nHost: ws.example\r\nUpgrade: websocket\r\nConnection: Upgrade\r\nSec-WebSocket-Key: dGhlIHNhbXBsZSBub25jZQ==\r\nSec-WebSocket-Version: 13\r\n\r\n"
		if _, err := c.Write([]byte(req)); err != nil {
			fail("client: write upgrade: %v", err)
			return
		}
		br := bufio.NewReaderSize(c, 64*1024)
		resp, err := http.ReadResponse(br, nil)
		if err != nil || resp.StatusCode != 101 {
			fail("client: no 101 from the proxy: %v %v", resp, err)
			return
		}
		clientIn = br
	}
	sendAll := func() error {
		data, sizes, yields := tn.client, tn.cseg, tn.cyield
		if tn.kind == "sni" {
			first := append(append([]byte{}, hello...), data[:tn.withHello]...)
			if _, err := c.Write(first); err != nil {
				return err
			}
			// the remaining bytes follow their segmentation
			rest := data[tn.withHello:]
			sizes, yields = nil, nil
			left := len(rest)
			for i, s := range tn.cseg {
				if left == 0 {
					break
				}
				if s > left {
					s = left
				}
				sizes = append(sizes, s)
				yields = append(yields, tn.cyield[i])
				left -= s
			}
			if left > 0 {
				sizes = append(sizes, left)
				yields = append(yields, false)
			}
			data = rest
		}
		return writeSegments(c, data, sizes, yields, tn.cpauseAt, tn.pause)
	}
	var got bytes.Buffer
	switch tn.mode {
	case "both/upstream-closes":
		var wg sync.WaitGroup
		wg.Add(1)
		go func() {
			defer wg.Done()
			if err := sendAll(); err != nil {
				fail("client write: %v", err)
			}
		}()
		if _, err := io.Copy(&got, clientIn); err != nil {
			fail("client read to EOF: %v (after %d bytes)", err, got.Len())
		}
		wg.Wait()
	case "both/client-closes":
		var wg sync.WaitGroup
		wg.Add(1)
		go func() {
			defer wg.Done()
			if err := sendAll(); err != nil {
				fail("client write: %v", err)
			}
		}()
		if _, err := io.CopyN(&got, clientIn, int64(len(tn.upstream))); err != nil {
			fail("client: read %d of %d expected bytes: %v", got.Len(), len(tn.upstream), err)
		}
		wg.Wait()
		c.Close() // everything received: now the client finishes first
	case "client-only":
		if err := sendAll(); err != nil {
			fail("client write: %v", err)
		}
		c.Close()
	case "upstream-only":
		if tn.kind == "sni" {
			if err := sendAll(); err != nil { // just the hello
				fail("client write: %v", err)
			}
		}
		if _, err := io.Copy(&got, clientIn); err != nil {
			fail("client read to EOF: %v (after %d bytes)", err, got.Len())
		}
	case "half-close":
		if err := sendAll(); err != nil {
			fail("client write: %v", err)
		}
		if err := tc.CloseWrite(); err != nil {
			fail("client CloseWrite: %v", err)
		}
		if _, err := io.Copy(&got, clientIn); err != nil {
			fail("client read after half-close: %v (after %d bytes)", err, got.Len())
		}
	}
	select {
	case <-upDone:
	case <-time.After(ioTimeout + 5*time.Second):
		fail("upstream script did not finish")
	}
	res.clientGot = got.Bytes()
	// what the PROXY line must say
	if tn.pxyproto {
		ca, sa := rawConn.LocalAddr().(*net.TCPAddr), rawConn.RemoteAddr().(*net.TCPAddr)
		fam := "TCP4"
		if ca.IP.To4() == nil {
			fam = "TCP6"
		}
		want := fmt.Sprintf("PROXY %s %s %s %d %d\r\n", fam, ca.IP, sa.IP, ca.Port, sa.Port)
		mu.Lock()
		if res.proxyLine != want {
			res.errs = append(res.errs, fmt.Sprintf("PROXY line %q, want %q", res.proxyLine, want))
		}
		mu.Unlock()
	}
	return
}

func firstDiff(a, b []byte) int {
	for i := 0; i < len(a) && i < len(b); i++ {
		if a[i] != b[i] {
			return i
		}
	}
	return min(len(a), len(b))
}

func checkTunnel(fatalf func(string, ...any), tn tunnel) {
	res := runTunnel(tn)
	hello := 0
	wantUp := tn.client
	if tn.kind == "sni" {
		h := clientHelloN(tn.sniName, tn.smallHello, tn.alpn)
		if tn.recMinor != 0 {
			h[2] = tn.recMinor
		}
		hello = len(h)
		// the random differs between two hellos: compare lengths and the bytes after it
		if len(res.upstreamGot) >= hello {
			if res.upstreamGot[0] != 0x16 || res.upstreamGot[5] != 0x01 {
				fatalf("upstream stream does not start with the ClientHello\n%s", tn)
			}
			res.upstreamGot = res.upstreamGot[hello:]
		} else if len(res.errs) == 0 {
			fatalf("upstream received %d bytes, less than the ClientHello (%d)\n%s", len(res.upstreamGot), hello, tn)
		}
	}
	for _, e := range res.errs {
		if strings.Contains(e, "address already in use") || strings.Contains(e, "cannot assign requested address") || strings.Contains(e, "too many open files") {
			fatalf("VERIF-INCONCLUSIVE the harness ran out of local ports/descriptors: %s", e)
		}
	}
	if len(res.errs) > 0 {
		fatalf("tunnel broke: %s\nupstream got %d of %d bytes, client got %d of %d bytes\n%s", strings.Join(res.errs, "; "), len(res.upstreamGot), len(wantUp), len(res.clientGot), len(tn.upstream), tn)
	}
	if !bytes.Equal(res.upstreamGot, wantUp) {
		fatalf("upstream received %d bytes, client sent %d (first difference at offset %d)\n%s", len(res.upstreamGot), len(wantUp), firstDiff(res.upstreamGot, wantUp), tn)
	}
	if !bytes.Equal(res.clientGot, tn.upstream) {
		fatalf("client received %d bytes, upstream sent %d (first difference at offset %d)\n%s", len(res.clientGot), len(tn.upstream), firstDiff(res.clientGot, tn.upstream), tn)
	}
	if tn.kind == "sni" {
		if len(res.lookups) != 1 || res.lookups[0] != tn.sniName {
			fatalf("SNI lookup keys %q, want [%q]\n%s", res.lookups, tn.sniName, tn)
		}
	}
}

func classify(tn tunnel) {
	hx.Class("kind:" + tn.kind)
	hx.Class("mode:" + tn.mode)
	nt := len(tn.client) > 32768 || len(tn.upstream) > 32768 || len(tn.cseg) >= 3 || len(tn.useg) >= 3 || tn.withHello > 0 || tn.mode == "half-close"
	if nt {
		hx.NonTrivial(tn.String() + fmt.Sprint(len(tn.client), len(tn.upstream)))
		hx.Class("nontrivial")
	}
	if tn.withHello > 0 {
		hx.Class("data-in-the-ClientHello-segment")
	}
	if tn.alpn >= 20 {
		hx.Class("ClientHello>4KiB")
	}
	if tn.pxyproto {
		hx.Class("pxyproto")
	}
	if tn.pxyproto && tn.byOption {
		hx.Class("pxyproto-on-a-route-marked-tcp-by-option")
	}
	if tn.pxyproto && tn.v6 {
		hx.Class("pxyproto-with-ipv6-client")
	}
	if hx.WantSample(tn.kind) && nt {
		hx.Sample(tn.kind, tn.String())
	}
}

const knownHalfClose = "c09-half-close"

func TestC09Tunnels(t *testing.T) {
	hx.Check(t, hx.Scale(2000, 16000), func(t *rapid.T) {
		tn := genTunnel(t, []string{"tcp", "sni", "dynamic", "ws", "tcp+tls"})
		if tn.mode == "half-close" && hx.Known(knownHalfClose) {
			// recorded finding: excluded from the search by construction so that the
			// search continues behind it; re-confirmed in TestC09KnownHalfClose
			hx.Excluded(knownHalfClose)
			t.Skip("known finding")
		}
		hx.Eval()
		checkTunnel(func(f string, a ...any) { t.Fatalf(f, a...) }, tn)
		classify(tn)
	})
}

// TestC09LongLived: tunnels that stay open, with a quiet period in the middle
// of a direction, longer than any handshake timer of the proxies (1 s in the
// websocket path).  A batch of generated tunnels runs concurrently per case.
func TestC09LongLived(t *testing.T) {
	hx.Check(t, hx.Scale(3, 24), func(t *rapid.T) {
		n := hx.Pick(10, 16)
		tns := make([]tunnel, n)
		for i := range tns {
			tn := genTunnel(t, []string{"ws", "tcp", "sni", "dynamic", "tcp+tls"})
			for tn.mode == "half-close" || tn.mode == "upstream-only" && tn.kind == "sni" {
				tn.mode = rapid.SampledFrom([]string{"both/upstream-closes", "both/client-closes", "client-only", "upstream-only"}).Draw(t, "mode2")
				if tn.mode == "upstream-only" {
					tn.client, tn.cseg, tn.cyield, tn.withHello = nil, nil, nil, 0
					if len(tn.upstream) == 0 {
						tn.upstream, tn.useg, tn.uyield = []byte{1, 2, 3}, []int{3}, []bool{false}
					}
				}
				if tn.mode == "client-only" {
					tn.upstream, tn.useg, tn.uyield = nil, nil, nil
					if len(tn.client) == 0 {
						tn.client, tn.cseg, tn.cyield = []byte{1, 2, 3}, []int{3}, []bool{false}
					}
				}
			}
			tn.pause = time.Duration(rapid.SampledFrom([]int{1200, 1050, 1600, 2500}).Draw(t, "quietms")) * time.Millisecond
			if len(tn.cseg) > 0 {
				tn.cpauseAt = rapid.IntRange(0, len(tn.cseg)-1).Draw(t, "cpauseat")
			}
			if len(tn.useg) > 0 && rapid.Bool().Draw(t, "upause") {
				tn.upauseAt = rapid.IntRange(0, len(tn.useg)-1).Draw(t, "upauseat")
			}
			if tn.cpauseAt < 0 && tn.upauseAt < 0 {
				tn.upauseAt = 0
			}
			if tn.kind != "ws" && rapid.Bool().Draw(t, "listener-write-timeout") {
				tn.writeTimeout = time.Duration(rapid.SampledFrom([]int{400, 700}).Draw(t, "wt_ms")) * time.Millisecond
			}
			tns[i] = tn
		}
		msgs := make([]string, n)
		var wg sync.WaitGroup
		for i := range tns {
			wg.Add(1)
			go func(i int) {
				defer wg.Done()
				defer func() {
					if r := recover(); r != nil {
						if _, ok := r.(stopCheck); !ok {
							panic(r)
						}
					}
				}()
				checkTunnel(func(f string, a ...any) { msgs[i] = fmt.Sprintf(f, a...); panic(stopCheck{}) }, tns[i])
			}(i)
		}
		wg.Wait()
		hx.EvalN(n)
		for i, m := range msgs {
			if m != "" {
				t.Fatalf("long-lived tunnel %d of %d: %s", i, n, m)
			}
			hx.NonTrivial("long:" + tns[i].String() + fmt.Sprint(len(tns[i].client), len(tns[i].upstream)))
			hx.Class("long-lived:" + tns[i].kind)
			if tns[i].cpauseAt >= 0 {
				hx.Class("client-quiet>1s-then-sends")
			}
			if tns[i].upauseAt >= 0 {
				hx.Class("upstream-quiet>1s-then-sends")
			}
			if tns[i].writeTimeout > 0 {
				hx.Class("long-lived:listener-write-timeout-shorter-than-the-quiet-period")
			}
		}
		if hx.WantSample("long-lived") {
			hx.Sample("long-lived", tns[0].String())
		}
	})
}

type stopCheck struct{}

// TestC09KnownHalfClose re-confirms the recorded finding on the current tree
// and prints the KNOWN-FINDING line only if it is still there.
func TestC09KnownHalfClose(t *testing.T) {
	if !hx.Known(knownHalfClose) {
		t.Skip("not listed as a known finding: half-close cases are part of the main search")
	}
	failures, runs := 0, 0
	for _, kind := range []string{"tcp", "sni", "dynamic", "ws"} {
		tn := tunnel{kind: kind, mode: "half-close", client: []byte("request-bytes"), upstream: []byte("reply-after-half-close"), cseg: []int{13}, cyield: []bool{false}, useg: []int{22}, uyield: []bool{false}, sniName: "sni.example.com"}
		failed := false
		checkTunnel(func(string, ...any) { failed = true }, tn)
		runs++
		if failed {
			failures++
		}
	}
	hx.EvalN(runs)
	if failures > 0 {
		hx.ReportKnown(knownHalfClose)
		hx.Note(fmt.Sprintf("half-close finding re-confirmed on %d of %d listener kinds", failures, runs))
	} else {
		hx.Note("half-close finding is listed as known but no longer reproduces")
	}
}

// ---------------------------------------------------------------------------
// A connection whose Read hands out the final chunk together with io.EOF
// (allowed by io.Reader; TLS-terminated listeners do it when the last record
// and the close_notify alert arrive together): nothing may be lost.

type scriptedConn struct {
	chunks      [][]byte
	eofWithLast bool
	i           int
	mu          sync.Mutex
	got         bytes.Buffer
	closed      chan struct{}
	once        sync.Once
	local       net.Addr
}

func (c *scriptedConn) Read(p []byte) (int, error) {
	c.mu.Lock()
	defer c.mu.Unlock()
	if c.i >= len(c.chunks) {
		return 0, io.EOF
	}
	n := copy(p, c.chunks[c.i])
	if n < len(c.chunks[c.i]) {
		c.chunks[c.i] = c.chunks[c.i][n:]
		return n, nil
	}
	c.i++
	if c.i == len(c.chunks) && c.eofWithLast {
		return n, io.EOF
	}
	return n, nil
}
func (c *scriptedConn) Write(p []byte) (int, error) {
	c.mu.Lock()
	defer c.mu.Unlock()
	return c.got.Write(p)
}
func (c *scriptedConn) Close() error        { c.once.Do(func() { close(c.closed) }); return nil }
func (c *scriptedConn) LocalAddr() net.Addr { return c.local }
func (c *scriptedConn) RemoteAddr() net.Addr {
	return &net.TCPAddr{IP: net.IPv4(192, 0, 2, 7), Port: 4711}
}
func (c *scriptedConn) SetDeadline(time.Time) error      { return nil }
func (c *scriptedConn) SetReadDeadline(time.Time) error  { return nil }
func (c *scriptedConn) SetWriteDeadline(time.Time) error { return nil }

func TestC09ReadWithEOF(t *testing.T) {
	hx.Check(t, hx.Scale(300, 10000), func(t *rapid.T) {
		kind := rapid.SampledFrom([]string{"tcp", "sni", "dynamic"}).Draw(t, "kind")
		data := genStream(t, "c", false)
		sizes, _ := genSegments(t, "cs", len(data))
		up, err := hx.Listen("tcp", "127.0.0.1:0")
		if err != nil {
			t.Fatal(err)
		}
		defer up.Close()
		gotc := make(chan []byte, 1)
		go func() {
			c, err := up.Accept()
			if err != nil {
				gotc <- nil
				return
			}
			defer c.Close()
			c.SetDeadline(time.Now().Add(ioTimeout))
			b, _ := io.ReadAll(c)
			gotc <- b
		}()
		var hello []byte
		if kind == "sni" {
			hello = clientHelloN("sni.example.com", true, rapid.SampledFrom([]int{0, 0, 25}).Draw(t, "alpn"))
		}
		in := &scriptedConn{eofWithLast: rapid.IntRange(0, 3).Draw(t, "eofWithLast") > 0, closed: make(chan struct{}), local: &net.TCPAddr{IP: net.IPv4(127, 0, 0, 1), Port: 7443}}
		if hello != nil {
			k := rapid.IntRange(0, min(len(data), 2000)).Draw(t, "withhello")
			in.chunks = append(in.chunks, append(append([]byte{}, hello...), data[:k]...))
			data2, off := data[k:], 0
			for _, sz := range sizes {
				if off >= len(data2) {
					break
				}
				e := min(off+sz, len(data2))
				in.chunks = append(in.chunks, data2[off:e])
				off = e
			}
			if off < len(data2) {
				in.chunks = append(in.chunks, data2[off:])
			}
		} else {
			off := 0
			for _, sz := range sizes {
				in.chunks = append(in.chunks, data[off:off+sz])
				off += sz
			}
		}
		tg := &route.Target{Service: "svc", URL: &url.URL{Scheme: "tcp", Host: up.Addr().String()}}
		lookup := func(string) *route.Target { return tg }
		var h tcp.Handler
		switch kind {
		case "tcp":
			h = &tcp.Proxy{Lookup: lookup, DialTimeout: 5 * time.Second}
		case "sni":
			h = &tcp.SNIProxy{Lookup: lookup, DialTimeout: 5 * time.Second}
		default:
			h = &tcp.DynamicProxy{Lookup: lookup, DialTimeout: 5 * time.Second}
		}
		done := make(chan struct{})
		go func() { h.ServeTCP(in); close(done) }()
		var got []byte
		select {
		case got = <-gotc:
		case <-time.After(ioTimeout + 2*time.Second):
			t.Fatalf("upstream never saw the end of the stream (kind %s)", kind)
		}
		<-done
		hx.Eval()
		if hello != nil {
			if len(got) < len(hello) {
				t.Fatalf("upstream received %d bytes, less than the ClientHello (%d)", len(got), len(hello))
			}
			got = got[len(hello):]
		}
		if !bytes.Equal(got, data) {
			t.Fatalf("client finished after sending %d bytes (last chunk delivered together with EOF: %v); upstream received %d (first difference at %d)\nkind=%s chunks=%d", len(data), in.eofWithLast, len(got), firstDiff(got, data), kind, len(in.chunks))
		}
		if in.eofWithLast {
			hx.NonTrivial(fmt.Sprintf("eof|%s|%d|%v", kind, len(data), trunc(sizes)))
			hx.Class("last-chunk-with-EOF")
		}
	})
}
