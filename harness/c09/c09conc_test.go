package c09

import (
	"bytes"
	"fmt"
	"io"
	"net"
	"net/url"
	"sync"
	"testing"
	"time"

	"github.com/fabiolb/fabio/proxy/tcp"
	"github.com/fabiolb/fabio/route"
	"pgregory.net/rapid"

	"verifharness/hx"
)

// TestC09ConcurrentConnections: many connections arrive at ONE listener at the same moment
// (tcp.Server with the SNI or the plain TCP handler).  Each is its own tunnel: the upstream
// chosen for its server name / port receives exactly that connection's bytes and the client
// gets that upstream's reply, whatever the other connections are doing.
func TestC09ConcurrentConnections(t *testing.T) {
	hx.Check(t, hx.Scale(25, 250), func(t *rapid.T) {
		n := rapid.IntRange(2, 12).Draw(t, "connections")
		kind := rapid.SampledFrom([]string{"sni", "tcp"}).Draw(t, "handler")
		type upstream struct {
			ln  net.Listener
			mu  sync.Mutex
			got [][]byte
		}
		ups := make([]*upstream, n)
		for i := range ups {
			ln, err := hx.Listen("tcp", "127.0.0.1:0")
			if err != nil {
				t.Fatalf("VERIF-INCONCLUSIVE %v", err)
			}
			u := &upstream{ln: ln}
			ups[i] = u
			defer ln.Close()
			go func(i int) {
				for {
					c, err := ln.Accept()
					if err != nil {
						return
					}
					go func() {
						defer c.Close()
						c.SetDeadline(time.Now().Add(ioTimeout))
						fmt.Fprintf(c, "reply-from-upstream-%d\n", i)
						b, _ := io.ReadAll(c)
						u.mu.Lock()
						u.got = append(u.got, b)
						u.mu.Unlock()
					}()
				}
			}(i)
		}
		var lmu sync.Mutex
		lookups := map[string]int{}
		name := func(i int) string { return fmt.Sprintf("name%d.example.com", i) }
		sniLookup := func(h string) *route.Target {
			lmu.Lock()
			lookups[h]++
			lmu.Unlock()
			for i := range ups {
				if h == name(i) {
					return &route.Target{Service: "svc", URL: &url.URL{Scheme: "tcp", Host: ups[i].ln.Addr().String()}}
				}
			}
			return nil
		}
		front, err := hx.Listen("tcp", "127.0.0.1:0")
		if err != nil {
			t.Fatalf("VERIF-INCONCLUSIVE %v", err)
		}
		var h tcp.Handler = &tcp.SNIProxy{Lookup: sniLookup, DialTimeout: 5 * time.Second}
		if kind == "tcp" {
			// one upstream for the port; the connections are told apart by their payload
			h = &tcp.Proxy{Lookup: func(string) *route.Target {
				return &route.Target{Service: "svc", URL: &url.URL{Scheme: "tcp", Host: ups[0].ln.Addr().String()}}
			}, DialTimeout: 5 * time.Second}
		}
		srv := &tcp.Server{Handler: h}
		go srv.Serve(front)
		defer srv.Close()
		payload := func(i int) []byte { return bytes.Repeat([]byte{byte('a' + i)}, 100+i*37) }
		errs := make([]string, n)
		var wg sync.WaitGroup
		start := make(chan struct{})
		for i := 0; i < n; i++ {
			wg.Add(1)
			go func(i int) {
				defer wg.Done()
				c, err := net.DialTimeout("tcp", front.Addr().String(), 5*time.Second)
				if err != nil {
					errs[i] = "VERIF-INCONCLUSIVE dial: " + err.Error()
					return
				}
				defer c.Close()
				c.SetDeadline(time.Now().Add(ioTimeout))
				<-start
				first := payload(i)
				if kind == "sni" {
					first = append(clientHello(name(i), true), first...)
				}
				if _, err := c.Write(first); err != nil {
					errs[i] = "write: " + err.Error()
					return
				}
				want := fmt.Sprintf("reply-from-upstream-%d\n", i)
				if kind == "tcp" {
					want = "reply-from-upstream-0\n"
				}
				buf := make([]byte, len(want))
				if _, err := io.ReadFull(c, buf); err != nil || string(buf) != want {
					errs[i] = fmt.Sprintf("connection %d received %q (%v), want %q", i, buf, err, want)
				}
			}(i)
		}
		close(start)
		wg.Wait()
		hx.EvalN(n)
		for _, e := range errs {
			if e != "" {
				t.Fatalf("%d connections at once on one %s listener: %s", n, kind, e)
			}
		}
		time.Sleep(20 * time.Millisecond)
		srv.Close() // upstream connections end, what they received is complete
		time.Sleep(30 * time.Millisecond)
		if kind == "sni" {
			for i := range ups {
				lmu.Lock()
				k := lookups[name(i)]
				lmu.Unlock()
				if k != 1 {
					t.Fatalf("%d connections at once: server name %s was looked up %d times, want once (lookups: %v)", n, name(i), k, lookups)
				}
				ups[i].mu.Lock()
				got := ups[i].got
				ups[i].mu.Unlock()
				if len(got) != 1 || !bytes.HasSuffix(got[0], payload(i)) {
					t.Fatalf("%d connections at once: the upstream of %s received %d streams, want 1 ending with that connection's %d payload bytes", n, name(i), len(got), len(payload(i)))
				}
			}
		} else {
			ups[0].mu.Lock()
			got := ups[0].got
			ups[0].mu.Unlock()
			if len(got) != n {
				t.Fatalf("%d connections at once on a tcp listener: the upstream saw %d connections", n, len(got))
			}
			seen := map[string]bool{}
			for _, g := range got {
				seen[string(g)] = true
			}
			for i := 0; i < n; i++ {
				if !seen[string(payload(i))] {
					t.Fatalf("%d connections at once: no upstream connection carries connection %d's bytes exactly", n, i)
				}
			}
		}
		hx.NonTrivial(fmt.Sprintf("conc-conns|%s|%d", kind, n))
		hx.Class("concurrent-connections-one-listener:" + kind)
	})
}
