package c09

import (
	"bytes"
	"crypto/sha256"
	"fmt"
	"io"
	"net"
	"net/url"
	"testing"
	"time"

	"github.com/fabiolb/fabio/config"
	"github.com/fabiolb/fabio/proxy"
	"github.com/fabiolb/fabio/proxy/tcp"
	"github.com/fabiolb/fabio/route"
	"pgregory.net/rapid"

	"verifharness/hx"
)

// A tunnel through a listener that fabio itself opens (proxy.ListenAndServeTCP): the upstream
// answers with a reply of several MiB and closes; the client is slow to read.  Everything the
// upstream sent reaches the client - closing a tunnel must not throw away what is still queued.
func TestC09LargeReplyToASlowReader(t *testing.T) {
	hx.Check(t, hx.Scale(2, 16), func(t *rapid.T) {
		size := rapid.SampledFrom([]int{3 << 20, 4 << 20, 6 << 20}).Draw(t, "reply-bytes")
		lag := time.Duration(rapid.IntRange(300, 700).Draw(t, "client-starts-reading-after_ms")) * time.Millisecond
		reply := bytes.Repeat([]byte("0123456789abcdef"), size/16)
		want := sha256.Sum256(reply)
		up, err := hx.Listen("tcp", "127.0.0.1:0")
		if err != nil {
			t.Fatalf("VERIF-INCONCLUSIVE %v", err)
		}
		defer up.Close()
		go func() {
			for {
				c, err := up.Accept()
				if err != nil {
					return
				}
				go func() {
					buf := make([]byte, 64)
					c.Read(buf)
					c.Write(reply)
					c.Close() // the upstream is done
				}()
			}
		}()
		addr := hx.FreeAddr()
		tg := &route.Target{Service: "svc", URL: &url.URL{Scheme: "tcp", Host: up.Addr().String()}}
		go proxy.ListenAndServeTCP(config.Listen{Addr: addr, Proto: "tcp"}, &tcp.Proxy{Lookup: func(string) *route.Target { return tg }, DialTimeout: 2 * time.Second}, nil)
		var c net.Conn
		for i := 0; i < 400; i++ {
			if c, err = net.DialTimeout("tcp", addr, 100*time.Millisecond); err == nil {
				break
			}
			time.Sleep(5 * time.Millisecond)
		}
		if err != nil {
			t.Fatalf("VERIF-INCONCLUSIVE listener did not come up: %v", err)
		}
		defer c.Close()
		c.SetDeadline(time.Now().Add(30 * time.Second))
		c.Write([]byte("send it"))
		time.Sleep(lag) // the upstream has sent everything and closed by now; fabio closes its side
		h := sha256.New()
		n, err := io.Copy(h, c)
		hx.Eval()
		if err != nil || n != int64(len(reply)) || !bytes.Equal(h.Sum(nil), want[:]) {
			t.Fatalf("the upstream sent %d bytes and closed; the client, which began to read %v later, received %d bytes (%v)", len(reply), lag, n, err)
		}
		hx.Class("large-reply-to-a-slow-reader")
		hx.NonTrivial(fmt.Sprintf("slow|%d|%v", size, lag/(100*time.Millisecond)))
	})
}
