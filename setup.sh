#!/bin/sh
# Builds the harness from files on disk only (offline) and warms the Go build cache.
set -e
cd "$(dirname "$0")"
export GOFLAGS=-mod=mod GOPROXY=off
unset GOTOOLCHAIN GOSUMDB
python3 lib/gen.py
cd harness
go test -tags verif -vet=off -count=1 -run '^$' ./... >/dev/null
go test -tags verif -vet=off -race -count=1 -run '^$' ./... >/dev/null
echo setup ok
